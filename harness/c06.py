"""C06 — locked machines serialize event processing under every thread schedule (incl. dynamic add_model/remove_model).

Correspondence: a CONTROLLED SCHEDULER drives real threads on the real LockedMachine /
LockedHierarchicalMachine (no source hooks).  Worker threads stop at yield points that are supplied
from outside through the public API: instrumented context managers passed as machine_context /
model_context (stop before acquiring and before releasing; acquiring a busy context is reported as a
blocked no-op and retried at the thread's next turn), the machine-level callbacks (stop at callback
entry; callbacks may raise or call the machine again), and the start of every top-level call.  The
controller releases exactly one thread per schedule entry and waits until it stops again.  With the
default PicklableLock (not instrumented) the controller peeks at machine.machine_context[0].lock and
treats the turn of a thread that would block as the blocked no-op.  The same (macro-)schedule is run
by the extracted model (Lock.step iterated over the steps that are invisible from outside)."""
import copy
import random
import threading

import flat
import framework as F

PID = 'C06'
KIND = 10
IMPL = ('c06', 'impl_lock')
COUNTS = dict(quick=3000, thorough=20000)
SCHEDULES_PER_PROGRAM = 25
HIER = ('LockedHierarchicalMachine', 'LockedHierarchicalGraphMachine')
CLASSES = ['LockedMachine', 'LockedHierarchicalMachine']
STEP_TIMEOUT = 4.0
_SLOW = [0]                   # stuck / hung cases seen by this process: afterwards the timeouts shrink


def step_timeout():
    return STEP_TIMEOUT if _SLOW[0] < 2 else 1.0

RULE = ('program = class (LockedMachine / LockedHierarchicalMachine), machine_context (default PicklableLock, or 1-2 '
        'instrumented user contexts), 1-5 model objects (event targets with 0-2 instrumented, possibly shared, model '
        'contexts; spare models, registered or not), a 3-state machine with 2 events, 2-4 threads x 1-3 calls: events (via '
        'model.trigger or the event method) on shared/distinct models, set_state, add_transition, add_states, '
        'the public methods machine.callback(f, event_data) / machine.callbacks([f..], event_data) called directly (as a Timeout '
        'state\'s timer thread does; f is a recording yield point), '
        'add_model with LISTS (a registered model first / last / repeated inside the list, new models, with and without '
        'model_context, bare object or list) and remove_model; callbacks (prepare_event/before/after/finalize) raise or '
        'call the machine again (nested events on any model, set_state, add_transition; depth <= 2). Streams: std (55%%: '
        'registration calls only move spare models but their lists also name registered event targets), setup (27%%: an extra '
        'thread first runs 2-6 add_model / remove_model calls on the EVENT TARGETS - re-add with another model_context, '
        'remove then add again, targets that only the setup registers - then several threads send events to every target), '
        'removed (5%%, outside the envelope: events race with remove_model of their model), restale (about 15%%, at least '
        'two programs in every twenty whatever the seed: a setup thread runs ALONE remove_model(m) -> an event through m\'s '
        'stale trigger (leaves an empty defaultdict entry) -> add_model(m again, alone / after a registered model / twice / '
        'with a new model); then two or more threads send events to m; everything outside the stale call itself must agree '
        'with the model and satisfy the oracle). %d sampled schedules per program '
        '(random bursts, then two completion passes); a quarter of the std/setup programs (and 2 in every 20 whatever the seed) use '
        'Machine(queued=True): triggers from callbacks return True at once and are processed afterwards by the same call (FIFO, '
        'an exception clears the queue), a trigger from another thread must wait and returns after its event was processed; in about a third of the std/setup programs (and 2 in every 20 whatever the '
        'seed) model 0 is THE MACHINE ITSELF (model=\'self\', via the constructor or add_model(\'self\', model_context=..)), and '
        'in about 35%% of all programs the whole machine (callbacks by name, picklable instrumented contexts and models) goes '
        'through a pickle or deepcopy round trip before the threads start - afterwards every event on every model must '
        'still hold the configured contexts; in 20%% of the std/setup programs context managers misbehave for chosen '
        'top-level calls: the __enter__ of a machine or model context (first / middle / last position, also one the call never '
        'enters) refuses = raises instead of acquiring, or its __exit__ raises after releasing (expected: everything entered '
        'so far is released in reverse order, nothing of the call is processed, the call raises, other threads get through); thorough tier adds every maximal schedule (no blocked attempts) of '
        'small programs enumerated by the model. Compared per schedule: acquire/release/blocked log of the instrumented '
        'contexts, callback segments (thread, call, slot, model, state seen), result of every call (nested too), final model '
        'states / machine.models / states / transitions / model_context_map, all-done flag, serial-equivalence flag, '
        'left-the-envelope flag. Oracle on the implementation alone: no overlap, serial replay, contexts held in the order '
        'CONFIGURED by the add_model/remove_model calls completed so far (an independent reading of what they configure), '
        'final model_context_map = that configuration. Extra check on every run: every public method of both classes, '
        'enumerated by reflection, enters the machine contexts when called from a thread that is not inside; re-entrancy is per '
        'machine (12 scenarios with TWO locked machines: a callback of A calls an event / method of B - B\'s contexts must be '
        'entered and left around it; implementation-level, two machines are not modelled in Coq). Non-trivial: the schedule produced at least one blocked attempt '
        '(real contention) or a nested call; distinct by case hash.' % SCHEDULES_PER_PROGRAM)
ASSUMPTIONS = [
    'PARTIAL: threading.Lock, threading.get_ident and the GIL are assumed to behave as the mutex / thread identity / '
    'atomic attribute access of the model; user contexts are assumed to be non-re-entrant locks',
    'interleavings inside steps that cannot be observed without source hooks (between the unlocked read of '
    'ident.current / model_context_map and the first acquire; around IdentManager.__enter__/__exit__; around the default '
    'PicklableLock) are covered by the theorems (all fine-grained schedules) but exercised only as macro steps',
    'envelope (ghost flag g_bad of the model stays down): no call enters with an empty context list (an event sent to a '
    'model that is not registered at that moment - candidate KF-C06-3) or with a context object configured twice; '
    'C06_contexts_held speaks about top-level calls (nested events on another model: candidate KF-C06-2) and about '
    'the context list read when the call starts (an event racing with remove_model + add_model(other contexts) of its '
    'model is processed under the old contexts: candidate KF-C06-4, only reachable in the removed stream)',
    'a refusing __enter__ raises at once (it does not wait for the context) and leaves the context untouched; a raising '
    '__exit__ has released the context before it raises',
    'add_model / remove_model in generated programs do not raise (valid initial state; remove_model only of models '
    'that no other thread removes, except in the removed stream)',
    'the controller declares a thread stuck if it does not reach its next yield point within %.0f s (a whole case: %.0f s); '
    'such a case is reported as a disagreement' % (STEP_TIMEOUT, 12.0),
]
THEOREMS = ['C06_invariant', 'C06_mutex', 'C06_serial', 'C06_serial_in_progress', 'C06_same_calls', 'C06_reentrant',
            'C06_reentrant_never_blocked', 'C06_entry_reads_configuration', 'C06_contexts_fixed', 'C06_contexts_held',
            'C06_contexts_order', 'C06_contexts_released', 'C06_progress', 'C06_macro_runs_are_schedules', 'C06_example', 'C06_refusal_example',
            'C06_contexts_held_hier_refuted', 'C06_contexts_held_nested_refuted', 'C06_mutex_unregistered_refuted',
            'C06_contexts_stale_refuted']
THEOREM_OF_DIFF = 'corr_C06: Lock.step (macro steps) = controlled run of the real locked machine (Props/C06.v)'


# ------------------------------------------------------------------ encoding
# case['models'] = [[model id, initial state, registered at start (0/1), [model_context ids]] ...]
# case['calls']  = [[cid, kind, a, b, c, script, [models], [model_context ids]] ...]
def enc(case):
    hier = case['cls'] in HIER
    return [case.get('mode', 0),
            [case['mctx'] or [0], bool(hier)],
            [case['states'], [list(t) for t in case['trans']],
             [[m, s, bool(r), list(cx)] for m, s, r, cx in case['models']], bool(case.get('queued'))],
            [[c[0], c[1], c[2], c[3], c[4], [list(x) for x in c[5]], list(c[6]), list(c[7])] for c in case['calls']],
            [list(p) for p in case['progs']],
            list(case['sched']),
            [list(f) for f in case.get('fails', [])]]


# ------------------------------------------------------------------ generation
MODEL_CTX_CHOICES = [[], [], [3], [4], [3, 4], [4, 3], [5]]


def gen_program(rng, p):
    """streams: 'std' (events on stable models; add_model / remove_model only move spare models, but lists may
    also name registered event targets), 'setup' (one extra thread first (un)registers the event targets with
    add_model lists / re-adds / remove+add, then several threads send events to every target), 'removed'
    (out of the envelope: events race with remove_model of their model), 'restale' (a setup thread runs, alone,
    remove_model(m) -> an event through m's stale trigger (which leaves an empty defaultdict entry behind) ->
    add_model(m again, possibly in a list); then at least two threads send events to m)."""
    cls = CLASSES[p % len(CLASSES)]
    x = rng.random()
    stream = 'std' if x < 0.6 else ('setup' if x < 0.9 else ('removed' if x < 0.95 else 'restale'))
    if p % 20 in (7, 16):
        stream = 'restale'                      # this history shape is part of every run, whatever the seed
    mctx = rng.choice([[], [], [1], [1], [1, 2]])
    if stream == 'removed' and not mctx:
        mctx = [1]
    nm = rng.randint(1, 3)
    models = []
    for m in range(nm):
        models.append([m, rng.randrange(3), 1, rng.choice(MODEL_CTX_CHOICES)])
    targets = list(range(nm))
    if stream == 'setup':
        for m in range(nm, nm + rng.choice([0, 1, 1, 2])):      # targets that only the setup registers
            models.append([m, rng.randrange(3), 0, []])
            targets.append(m)
    spare_reg, spare_new = [], []
    base = len(models)
    for j in range(rng.choice([0, 1, 2, 2, 3]) if stream not in ('removed', 'restale') else rng.choice([0, 1])):
        r = rng.random() < 0.5
        models.append([base + j, rng.randrange(3), 1 if r else 0, rng.choice([[], [5]]) if r else []])
        (spare_reg if r else spare_new).append(base + j)
    trans = []
    for e in range(2):
        for _ in range(rng.randint(2, 4)):
            trans.append([e, rng.randrange(3), rng.randrange(3)])
    calls = []
    fresh_states = [3, 4, 5]
    state_pool = [0, 1, 2, 3]

    def spec_new(kind=0, a=0, b=0, c=0, ms=(), mc=()):
        spec = [len(calls) + 1, kind, a, b, c, [], list(ms), list(mc)]
        calls.append(spec)
        return spec

    def registration_call():
        """add_model / remove_model that never unregisters an event target"""
        spares = spare_reg + spare_new
        if not spares:
            return None
        if rng.random() < 0.3:
            return spec_new(4, ms=[rng.choice(spares)])
        lst = rng.sample(spares, rng.randint(1, min(2, len(spares))))
        y = rng.random()
        if y < 0.3:
            lst = [rng.choice(targets)] + lst                     # registered first
        elif y < 0.55:
            lst = lst + [rng.choice(targets)]                     # registered last
        elif y < 0.7:
            lst = lst + [lst[0]]                                  # duplicate inside the list
        return spec_new(5, b=rng.randrange(3), ms=lst, mc=rng.choice([[], [], [5], [4], [3, 5]]))

    def new_call(depth):
        x = rng.random()
        if x < 0.58 or (depth > 0 and x < 0.7):
            spec = spec_new(0, rng.choice(targets), rng.randrange(2))
            if rng.random() < (0.45 if depth == 0 else 0.25):
                slot = rng.randrange(4)
                if rng.random() < 0.35 or depth >= 2:
                    spec[5].append([slot, 1, 0])
                else:
                    spec[5].append([slot, 2, new_call(depth + 1)])
                if rng.random() < 0.25:
                    slot2 = rng.choice([s_ for s_ in range(4) if s_ != slot])
                    spec[5].append([slot2, 1, 0])
                spec[5].sort()
            return spec[0]
        if depth == 0 and x < 0.66:
            # the PUBLIC methods machine.callback(func, event_data) / machine.callbacks(funcs, event_data) called
            # directly from a thread (as the Timer thread of a Timeout state does): a machine-method call that runs
            # user callables
            return spec_new(6, rng.choice(targets), rng.choice([0, 0, 1, 2]))[0]
        if x < 0.72:
            return spec_new(1, rng.choice(targets), rng.choice(state_pool))[0]
        if x < 0.82:
            return spec_new(2, rng.randrange(2), rng.choice(state_pool), rng.randrange(3))[0]
        if depth == 0 and fresh_states and x < 0.86:
            return spec_new(3, fresh_states.pop(0))[0]
        if depth == 0:
            r = registration_call()
            if r is not None:
                return r[0]
        return spec_new(0, rng.choice(targets), rng.randrange(2))[0]

    nt = rng.choice([2, 2, 2, 3, 3, 4]) if stream != 'setup' else rng.choice([2, 2, 3, 3])
    progs = []
    for _ in range(nt):
        progs.append([new_call(0) for _ in range(rng.choice([1, 1, 2, 2, 3]))])
    if stream == 'setup':
        # every target gets at least one event from some thread
        for i, m in enumerate(targets):
            if not any(c[1] == 0 and c[2] == m for c in calls):
                progs[i % nt].append(spec_new(0, m, rng.randrange(2))[0])
        reg = set(m for m, _, r, _ in models if r)
        setup = []
        for _ in range(rng.randint(2, 5)):
            y = rng.random()
            unreg = [m for m in targets if m not in reg]
            regd = [m for m in targets if m in reg]
            if y < 0.2 and regd:                                  # remove ... (re-added below or later)
                lst = rng.sample(regd, rng.randint(1, min(2, len(regd))))
                setup.append(spec_new(4, ms=lst)[0])
                reg -= set(lst)
                continue
            new = rng.sample(unreg, rng.randint(1, len(unreg))) if unreg else []
            old = rng.sample(regd, rng.randint(0, min(2, len(regd)))) if regd else []
            z = rng.random()
            lst = old + new if z < 0.45 else (new + old if z < 0.8 else new + old + new[:1] + old[:1])
            if not lst:
                lst = [rng.choice(targets)]
            setup.append(spec_new(5, b=rng.randrange(3), ms=lst, mc=rng.choice([[], [3], [4], [5], [4, 3], [3, 5]]))[0])
            reg |= set(lst)
        unreg = [m for m in targets if m not in reg]
        if unreg:
            rng.shuffle(unreg)
            lst = ([rng.choice([m for m in targets if m in reg])] if reg & set(targets) and rng.random() < 0.6 else []) + unreg
            setup.append(spec_new(5, b=rng.randrange(3), ms=lst, mc=rng.choice([[], [3], [5], [4, 3]]))[0])
        progs.append(setup)
    if stream == 'removed':
        victim = rng.choice(targets)
        t = rng.randrange(nt)
        pos = rng.randint(0, len(progs[t]))
        progs[t].insert(pos, spec_new(4, ms=[victim])[0])
        if rng.random() < 0.5:
            progs[rng.randrange(nt)].append(spec_new(5, b=rng.randrange(3), ms=[victim], mc=rng.choice([[], [5]]))[0])
        if not any(c[1] == 0 and c[2] == victim for c in calls):
            progs[(t + 1) % nt].append(spec_new(0, victim, rng.randrange(2))[0])
    stale = []
    if stream == 'restale':
        victim = rng.choice(targets)
        for i in range(2):                                        # events on the victim from two threads
            progs[i % nt].insert(rng.randint(0, len(progs[i % nt])), spec_new(0, victim, rng.randrange(2))[0])
        setup = [spec_new(4, ms=[victim])[0]]
        st = spec_new(0, victim, rng.randrange(2))
        stale.append(st[0])
        setup.append(st[0])
        others = [m for m in targets if m != victim]
        y = rng.random()
        lst = [victim]
        if y < 0.3 and others:
            lst = [rng.choice(others), victim]                    # a registered model first
        elif y < 0.5 and spare_new:
            lst = [victim, spare_new[0]]
        elif y < 0.6:
            lst = [victim, victim]
        setup.append(spec_new(5, b=rng.randrange(3), ms=lst, mc=rng.choice([[], [3], [5], [4, 3]]))[0])
        progs.append(setup)
    fails = []
    if stream in ('std', 'setup') and rng.random() < 0.2:
        # context managers are user code: some __enter__ refuses / some __exit__ raises, for chosen top-level calls
        tops = [c for pr in (progs[:nt] if stream == 'setup' else progs) for c in pr]
        for _ in range(rng.choice([1, 1, 2])):
            cid = rng.choice(tops)
            spec = calls[cid - 1]
            pool = list(mctx)
            if spec[1] == 0:
                pool += [c for m, _, _, cx in models if m == spec[2] for c in cx]
            if rng.random() < 0.25:
                pool += [3, 4, 5]                                  # possibly a context this call never enters
            if pool and not any(f[0] == cid for f in fails):
                fails.append([cid, rng.choice(pool), 1 if rng.random() < 0.7 else 2])
    # the machine as its own model (model='self') and / or a pickle / deepcopy round trip of the whole machine before
    # the threads start: afterwards everything must be locked exactly as before
    rng2 = random.Random('C06-self-%d-%r' % (p, rng.random()))
    self_model, roundtrip = None, 0
    if stream in ('std', 'setup') and (rng2.random() < 0.25 or p % 20 in (3, 12)):
        self_model = 0                                # model 0 is a registered event target in these streams
    if rng2.random() < 0.3 or p % 20 in (3, 12):
        roundtrip = 1 if (rng2.random() < 0.65 or p % 20 == 3) else 2
    # Machine(queued=True): triggers from callbacks are only appended and processed by the same call afterwards
    queued = stream in ('std', 'setup') and (rng2.random() < 0.25 or p % 20 in (5, 14))
    return dict(cls=cls, mctx=mctx, models=models, states=[0, 1, 2], trans=trans, calls=calls, progs=progs,
                sched=[], mode=0, stream=stream, stale_calls=stale, fails=fails, self_model=self_model,
                roundtrip=roundtrip, queued=queued)


def completion_suffix(nt, k=70):
    out = []
    for _ in range(2):
        for t in range(1, nt + 1):
            out += [t] * k
    return out


def gen_schedule(rng, nt, setup_first=False):
    out = [nt] * (150 if setup_first is True else int(setup_first)) if setup_first else []
    pre = len(out)
    style = rng.random()
    n = pre + rng.randint(5, 60)
    while len(out) < n:
        t = rng.randint(1, nt)
        burst = 1 if style < 0.3 else rng.choice([1, 1, 2, 3, 5, 8])
        out += [t] * burst
    return out + completion_suffix(nt)


def gen_batch(seed, n, tier):
    cases = []
    p = 0
    while len(cases) < n:
        rp = random.Random('C06-%d-p%d' % (seed, p))
        prog = gen_program(rp, p)
        for s in range(SCHEDULES_PER_PROGRAM):
            if len(cases) >= n:
                break
            rs = random.Random('C06-%d-p%d-s%d' % (seed, p, s))
            c = copy.deepcopy(prog)
            c['sched'] = gen_schedule(rs, len(c['progs']), {'setup': True, 'restale': 400}.get(c['stream'], False))
            cases.append(c)
        p += 1
    if tier == 'thorough':
        cases += exhaustive_cases(seed, 40, 3000)
    return cases


def exhaustive_cases(seed, nprog, budget):
    """every maximal schedule (without blocked attempts) of small programs, enumerated by the model"""
    progs = []
    p = 0
    while len(progs) < nprog and p < 5000:
        rp = random.Random('C06-%d-x%d' % (seed, p))
        prog = gen_program(rp, p)
        p += 1
        if prog['stream'] == 'std' and len(prog['progs']) <= 3 and all(len(x) <= 2 for x in prog['progs']) \
                and len(prog['calls']) <= 5:
            progs.append(prog)
    qs = []
    for prog in progs:
        q = copy.deepcopy(prog)
        q['mode'] = 1
        q['sched'] = [budget]
        qs.append(enc(q))
    res = F.run_model(KIND, qs)
    out = []
    for prog, r in zip(progs, res):
        if not (isinstance(r, list) and r and r[0] == 2):
            continue
        for sched in r[1]:
            c = copy.deepcopy(prog)
            c['sched'] = list(sched) + completion_suffix(len(c['progs']), 3)
            c['exhaustive'] = 'complete' if len(r[1]) < budget else 'truncated at %d' % budget
            out.append(c)
    return out


def gen(rng, i, tier):       # not used (gen_batch), kept for the interface
    prog = gen_program(rng, i)
    prog['sched'] = gen_schedule(rng, len(prog['progs']), {'setup': True, 'restale': 400}.get(prog['stream'], False))
    return prog


# ------------------------------------------------------------------ the controlled scheduler
class Abort(BaseException):
    pass


class Worker(object):
    def __init__(self, run, tid, prog):
        self.run, self.tid, self.prog = run, tid, prog
        self.go = threading.Semaphore(0)
        self.arrived = threading.Semaphore(0)
        self.at = None
        self.cur_top = None
        self.done = False
        self.thread = threading.Thread(target=self.main, name='c06-w%d' % tid)
        self.thread.daemon = True

    def yield_(self, label):
        if self.run.free:
            return
        self.at = label
        self.arrived.release()
        while not self.go.acquire(timeout=0.5):
            if self.run.abort:
                raise Abort()
        if self.run.abort:
            raise Abort()

    def main(self):
        self.run.by_ident[threading.get_ident()] = self
        try:
            for cid in self.prog:
                self.yield_(('call', cid))
                self.cur_top = cid
                self.run.do_call(self, cid)
        except Abort:
            pass
        except BaseException as e:  # noqa
            import traceback
            self.run.errors.append('%s: %s\n%s' % (type(e).__name__, e, traceback.format_exc()[-1200:]))
        self.done = True
        self.at = ('done',)
        self.arrived.release()


class CtxRefused(Exception):
    """raised by an instrumented context's __enter__ that refuses the caller"""


class CtxExitError(Exception):
    """raised by an instrumented context's __exit__ (after it released)"""


class Ctx(object):
    """instrumented, non-re-entrant lock supplied as machine_context / model_context; for chosen (top-level call,
    context) pairs its __enter__ refuses (raises instead of acquiring) or its __exit__ raises after releasing"""

    def __init__(self, run, cid):
        self.run, self.cid, self.owner = run, cid, None

    def __getstate__(self):
        return dict(cid=self.cid, run_id=self.run.run_id)

    def __setstate__(self, st):           # the copy made by pickle / deepcopy takes the place of the original
        self.cid, self.owner = st['cid'], None
        self.run = _RUNS[st['run_id']]
        self.run.ctxs[self.cid] = self

    def __enter__(self):
        run = self.run
        w = run.by_ident.get(threading.get_ident())
        if w is None or run.free:           # construction in the main thread / serial reference run
            if run.fails.get((run.free_cid, self.cid)) == 1:
                raise CtxRefused()
            if self.owner is not None:
                raise RuntimeError('context %d busy outside the scheduled run' % self.cid)
            self.owner = 'x'
            return self
        w.yield_(('enter', self.cid))
        if run.fails.get((w.cur_top, self.cid)) == 1 and not run.abort:
            run.log.append([5, w.tid, self.cid])
            raise CtxRefused()
        while True:
            if self.owner is None or run.abort:
                self.owner = w.tid
                run.log.append([0, w.tid, self.cid])
                return self
            run.log.append([3, w.tid, self.cid])
            w.yield_(('blocked', self.cid))

    def __exit__(self, et, ev, tb):
        run = self.run
        w = run.by_ident.get(threading.get_ident())
        if w is None or run.free:
            self.owner = None
            if run.fails.get((run.free_cid, self.cid)) == 2:
                raise CtxExitError()
            return False
        w.yield_(('exit', self.cid))
        self.owner = None
        run.log.append([1, w.tid, self.cid])
        if run.fails.get((w.cur_top, self.cid)) == 2 and not run.abort:
            raise CtxExitError()
        return False


_RUNS = {}                    # run id -> Run: lets picklable models / contexts find their run again
_RUN_IDS = [0]


def _cb_method(i):
    def c06cb(self, ed):
        return _RUNS[self.run_id].on_cb(i, ed)
    c06cb.__name__ = 'c06cb%d' % i
    return c06cb


class Model(object):
    """picklable model: the machine-level callbacks are given BY NAME and resolved on the event's model"""
    run_id = 0
    mid = 99
    c06cb0, c06cb1, c06cb2, c06cb3 = _cb_method(0), _cb_method(1), _cb_method(2), _cb_method(3)


_SELF_CLASSES = {}


def self_class(cname):
    """subclass of the locked class that can act as its own model (has the callback methods); registered in this
    module so that pickle finds it"""
    if cname not in _SELF_CLASSES:
        base = flat.get_class(cname)
        name = 'Self' + cname
        ns = dict(run_id=0, mid=99, __module__=__name__)
        for i in range(4):
            ns['c06cb%d' % i] = _cb_method(i)
        k = type(name, (base,), ns)
        globals()[name] = k
        _SELF_CLASSES[cname] = k
    return _SELF_CLASSES[cname]


def _res(f):
    try:
        r = f()
        return [0, 1 if r is True else (0 if r is False else (2 if r is None else 7))]
    except Abort:
        raise
    except CtxRefused:
        return [1, 5]
    except CtxExitError:
        return [1, 6]
    except BaseException as e:  # noqa
        k = flat.classify_exc(e)
        return [1, k[0] if k[0] in (2, 3) else 9]


class Run(object):
    def __init__(self, case):
        self.case = case
        self.free = True            # no scheduling while the machine is built
        self.abort = False
        self.log = []
        self.errors = []
        self.by_ident = {}
        self.fails = {(f[0], f[1]): f[2] for f in case.get('fails', [])}
        self.free_cid = None
        self.stuck = 0
        self.specs = {c[0]: c for c in case['calls']}
        self.ctxs = {}
        _RUN_IDS[0] += 1
        self.run_id = _RUN_IDS[0]
        _RUNS[self.run_id] = self
        for old_id in [k for k in _RUNS if k < self.run_id - 8]:
            del _RUNS[old_id]
        self_model = case.get('self_model')
        cls = self_class(case['cls']) if self_model is not None else flat.get_class(case['cls'])
        kw = dict(flat.class_kwargs(case['cls']))
        if case['mctx']:
            kw['machine_context'] = [self.ctx(c) for c in case['mctx']]
        by_ctor = False
        if self_model is not None:
            m0, s0, r0, cx0 = [x for x in case['models'] if x[0] == self_model][0]
            by_ctor = bool(r0) and not cx0 and case['models'][0][0] == self_model
        self.machine = cls(model=('self' if by_ctor else None), states=['s%d' % s for s in case['states']],
                           initial=('s%d' % s0 if by_ctor else 's0'),
                           auto_transitions=False, send_event=True, ignore_invalid_triggers=True,
                           queued=bool(case.get('queued')),
                           prepare_event=['c06cb0'], before_state_change=['c06cb1'],
                           after_state_change=['c06cb2'], finalize_event=['c06cb3'], **kw)
        self.models = {}
        for m, s, r, cx in case['models']:
            if m == self_model:
                mo = self.machine             # the machine is its own model
                target = 'self'
            else:
                mo = target = Model()
            mo.run_id, mo.mid = self.run_id, m
            self.models[m] = mo
            if m == self_model and by_ctor:
                continue
            if not r:
                mo.state = 's%d' % s          # a model object the machine does not know yet
            elif cx:
                self.machine.add_model(target, initial='s%d' % s, model_context=[self.ctx(c) for c in cx])
            else:
                self.machine.add_model(target, initial='s%d' % s)
        for e, src, dst in case['trans']:
            self.machine.add_transition('e%d' % e, 's%d' % src, 's%d' % dst)
        rt = case.get('roundtrip', 0)
        if rt:
            # the machine goes through pickle / deepcopy before any thread starts; everything must still be locked
            import pickle
            import copy as _copy
            self.machine = pickle.loads(pickle.dumps(self.machine)) if rt == 1 else _copy.deepcopy(self.machine)
            for mo in self.machine.models:
                self.models[mo.mid] = mo
        self.model_id = {}

    def ctx(self, c):
        if c not in self.ctxs:
            self.ctxs[c] = Ctx(self, c)
        return self.ctxs[c]

    def on_cb(self, slot, ed):
        run = self
        w = run.by_ident.get(threading.get_ident())
        cid = ed.args[0] if ed.args else 0
        tid = 0
        if w is not None:
            tid = w.tid
            w.yield_(('cb', cid, slot))
        run.log.append([2, tid, cid, slot, getattr(ed.model, 'mid', 99), flat.state_int(ed.model)])
        for sl, act, arg in run.specs[cid][5]:
            if sl != slot:
                continue
            if act == 1:
                raise flat.UserExc(cid)
            if act == 2:
                run.do_call(w, arg)

    def callback(self, slot):
        run = self

        def cb(ed):
            return run.on_cb(slot, ed)
        cb.__name__ = 'cb%d' % slot
        return cb

    def do_call(self, w, cid):
        _, kind, a, b, c, _, ms, mc = self.specs[cid]
        m = self.machine
        objs = [self.models[x] for x in ms]
        if len(objs) == 1 and cid % 2:
            objs = objs[0]                    # a single model may be passed bare
        if kind == 0:
            mo = self.models[a]
            if cid % 2:
                f = lambda: mo.trigger('e%d' % b, cid)           # noqa
            else:
                f = lambda: getattr(mo, 'e%d' % b)(cid)          # noqa
        elif kind == 1:
            f = lambda: m.set_state('s%d' % b, self.models[a])   # noqa
        elif kind == 2:
            f = lambda: m.add_transition('e%d' % a, 's%d' % b, 's%d' % c)   # noqa
        elif kind == 3:
            f = lambda: m.add_states('s%d' % a)                  # noqa
        elif kind == 6:
            from transitions.core import EventData
            ed = EventData(None, None, m, self.models[a], args=(cid,), kwargs={})
            fn = self.callback(4)
            if b == 0:
                f = lambda: m.callback(fn, ed)                   # noqa
            else:
                f = lambda: m.callbacks([fn] * b, ed)            # noqa
        elif kind == 4:
            f = lambda: m.remove_model(objs)                     # noqa
        elif mc:
            f = lambda: m.add_model(objs, initial='s%d' % b, model_context=[self.ctx(x) for x in mc])   # noqa
        elif cid % 3 == 0:
            f = lambda: m.add_model(objs, initial='s%d' % b, model_context=None)   # noqa
        else:
            f = lambda: m.add_model(objs, 's%d' % b)             # noqa
        r = _res(f)
        self.log.append([4, w.tid if w is not None else 0, cid, r])
        return r

    def final(self):
        m = self.machine
        trans = []
        for en in sorted(m.events, key=lambda x: int(x[1:])):
            ev = m.events[en]
            for src in sorted(ev.transitions, key=lambda x: int(x[1:])):
                for t in ev.transitions[src]:
                    trans.append([int(en[1:]), int(src[1:]), int(t.dest[1:])])
        cmap = []
        for k, mo in sorted(self.models.items()):
            entry = m.model_context_map.get(id(mo))
            if entry:
                cmap.append([k, [x.cid if isinstance(x, Ctx) else (99 if type(x).__name__ == 'IdentManager' else 0)
                                 for x in entry]])
        return [[[k, flat.state_int(mo)] for k, mo in sorted(self.models.items())],
                [getattr(x, 'mid', 99) for x in m.models],
                [int(s[1:]) for s in m.states],
                trans, cmap]

    # ---- scheduled run
    def default_lock_busy(self):
        if self.case['mctx']:
            return False
        return self.machine.machine_context[0].lock.locked()

    def execute(self, sched):
        nt = len(self.case['progs'])
        ws = {t: Worker(self, t, self.case['progs'][t - 1]) for t in range(1, nt + 1)}
        self.free = False
        for w in ws.values():
            w.thread.start()
        ok = True
        for w in ws.values():               # every worker stops before its first call
            if not w.arrived.acquire(timeout=step_timeout()):
                ok = False
        if ok:
            for t in sched:
                w = ws.get(t)
                if w is None or w.done:
                    continue
                if w.at[0] == 'call' and self.default_lock_busy():
                    self.log.append([3, t, 0])
                    continue
                w.go.release()
                if not w.arrived.acquire(timeout=step_timeout()):
                    self.stuck = t
                    _SLOW[0] += 1
                    break
        alldone = all(w.done for w in ws.values())
        # never leave a thread waiting
        self.abort = True
        for w in ws.values():
            for _ in range(4):
                w.go.release()
        for w in ws.values():
            w.thread.join(timeout=0.5 if not alldone else 2.0)
        self.free = True
        return alldone


def serial_reference(case, order):
    """fresh machine, the top-level calls one after the other in the given order, one thread"""
    run = Run(case)
    per = []
    for cid in order:
        start = len(run.log)
        run.free_cid = cid
        r = run.do_call(None, cid)
        items = [[x[3], x[4], x[5]] if x[0] == 2 else [9, x[2], x[3]] for x in run.log[start:-1]]
        per.append([cid, r, items])
    return run.final(), per


CASE_TIMEOUT = 12.0


_RETRIES = [0]


def impl_lock(case):
    """a case that ended stuck / hung is re-run (a real deadlock of the library reproduces, a stall of the host does
    not); only the first few such cases of a process are retried, so a broken library cannot make the check slow"""
    obs = _impl_lock_guarded(case)
    tries = 0
    while isinstance(obs, list) and obs[0] == 1 and obs[1][3] in (7, 8) and tries < 2 and _RETRIES[0] < 6:
        tries += 1
        _RETRIES[0] += 1
        _SLOW[0] = max(0, _SLOW[0] - 1)
        obs = _impl_lock_guarded(case)
    return obs


def _impl_lock_guarded(case):
    """watchdog: the whole case runs in a daemon thread, so that a deadlock of the library outside the
    scheduled part (construction, serial reference run) cannot hang the check"""
    box = []

    def body():
        try:
            box.append(_impl_lock(case))
        except BaseException as e:  # noqa
            import traceback
            box.append({'harness_error': '%s: %s' % (type(e).__name__, e), 'tb': traceback.format_exc()[-1500:]})
    th = threading.Thread(target=body, name='c06-case')
    th.daemon = True
    th.start()
    th.join(CASE_TIMEOUT if _SLOW[0] < 2 else 2.5)
    if not box:
        _SLOW[0] += 1
        return [1, [[[9, 0, 0]], [[], [], [], [], []], 0, 8, 0]]      # hung
    return box[0]


def _impl_lock(case):
    flat._import_transitions()
    run = Run(case)
    alldone = run.execute(case['sched'])
    if run.errors:
        return {'harness_error': run.errors[0]}
    final = run.final()
    log = run.log
    serial = 2
    if run.stuck:
        return [1, [log, final, 0, 7, 0]]
    if alldone:
        top = set(c for p in case['progs'] for c in p)
        order, per, cur = [], [], {}
        for x in log:
            if x[0] == 2:
                cur.setdefault(x[1], []).append([x[3], x[4], x[5]])
            elif x[0] == 4:
                if x[2] in top:
                    order.append(x[2])
                    per.append([x[2], x[3], cur.pop(x[1], [])])
                else:
                    cur.setdefault(x[1], []).append([9, x[2], x[3]])
        try:
            sfinal, sper = serial_reference(case, order)
            serial = 1 if (sfinal == final and sper == per) else 0
        except BaseException as e:  # noqa
            return {'harness_error': 'serial reference: %s: %s' % (type(e).__name__, e)}
    return [1, [log, final, 1 if alldone else 0, serial, 0]]


# ------------------------------------------------------------------ comparison helpers
def canon(case, obs):
    if isinstance(obs, dict) or not isinstance(obs, list) or obs[0] != 1:
        return obs
    log, final, alldone, serial, bad = obs[1]
    tr = sorted([list(t) for t in final[3]], key=lambda t: (t[0], t[1]))
    return [1, [log, [final[0], final[1], final[2], tr, sorted(final[4])], alldone, serial, bad]]


def nontrivial(case, obs):
    if not isinstance(obs, list) or obs[0] != 1:
        return False
    top = set(c for p in case['progs'] for c in p)
    return any(x[0] == 3 or (x[0] == 4 and x[2] not in top) for x in obs[1][0])


def initial_configuration(case):
    """model -> its model_context, for the models registered at the start"""
    return {m: list(cx) for m, _, r, cx in case['models'] if r}


def apply_registration(cfgmap, spec):
    """what add_model / remove_model CONFIGURE (the property's reading, independent of locking.py): add_model
    registers every listed model that is not registered, with the given model_context; a registered model
    keeps its contexts; remove_model unregisters"""
    if spec[1] == 5:
        for m in spec[6]:
            if m not in cfgmap:
                cfgmap[m] = list(spec[7])
    elif spec[1] == 4:
        if all(m in cfgmap for m in spec[6]):
            for m in spec[6]:
                cfgmap.pop(m, None)


def oracle_clauses(case, obs):
    """the property evaluated on the implementation's observation alone"""
    if not isinstance(obs, list) or obs[0] != 1:
        return ['no observation']
    log, final, alldone, serial, _ = obs[1]
    bad = []
    if not alldone:
        bad.append('deadlock: not every thread finished')
    if serial == 0:
        bad.append('not equal to the serial execution in acquisition order')
    specs = {c[0]: c for c in case['calls']}
    top = set(c for p in case['progs'] for c in p)
    mach = list(case['mctx'])
    cfgmap = initial_configuration(case)
    history = {m: [list(v)] for m, v in cfgmap.items()}     # every model_context a model ever had
    cur = None
    span, snapshot, held = [], {}, []
    free_refusal = {}
    for x in log:
        if x[0] == 3:
            continue
        t = x[1]
        if x[0] == 5 and t != cur:
            # the FIRST context of a call refuses: the thread holds nothing and waits for nothing, so this may happen
            # while another thread is inside; the call must just raise
            free_refusal[t] = x[2]
            continue
        if t in free_refusal:
            c_ = free_refusal.pop(t)
            if not (x[0] == 4 and x[3] == [1, 5] and x[2] in top and (not mach or mach[0] == c_)):
                bad.append('thread %d after the refusal of its first context %r: %r' % (t, c_, x))
            continue
        if cur is None:
            cur = t
            span, held = [], []
            snapshot = {m: list(v) for m, v in cfgmap.items()}
        elif t != cur:
            bad.append('overlap: thread %d acts inside the processing of thread %d' % (t, cur))
            break
        span.append(x)
        if x[0] == 0:
            held.append(x[2])
        elif x[0] == 1 and x[2] in held:
            held.remove(x[2])
        elif x[0] == 2 and x[2] not in top and x[2] in specs and specs[x[2]][1] == 0:
            need = cfgmap.get(specs[x[2]][2], [])
            if not all(c in held for c in need):
                bad.append('nested_model_contexts_not_entered')
        elif x[0] == 4 and (x[3][0] == 0 or x[3] == [1, 6]) and x[2] in specs:
            # ([1, 6]: a context's __exit__ raised AFTER the call had been processed - its effect stands)
            apply_registration(cfgmap, specs[x[2]])
            for m_, v_ in cfgmap.items():
                if list(v_) not in history.setdefault(m_, []):
                    history[m_].append(list(v_))
        if x[0] == 4 and x[2] in top:
            cur = None
            spec = specs[x[2]]
            want = list(mach)
            if spec[1] == 0:
                if spec[2] in snapshot:
                    want += snapshot[spec[2]]
                else:
                    continue        # the model is not registered: the property configures nothing to compare with
            acq = [y[2] for y in span if y[0] == 0]
            rel = [y[2] for y in span if y[0] == 1]
            refused = [y[2] for y in span if y[0] == 5]
            if refused:
                # a context's __enter__ refused: what was entered before it is released in reverse order, nothing
                # of the call is processed, the call raises
                k = want.index(refused[0]) if refused[0] in want else -1
                if not (k >= 0 and acq == want[:k] and rel == acq[::-1] and not any(y[0] == 2 for y in span)
                        and x[3] == [1, 5]):
                    bad.append('after the refusing __enter__ of context %r in call %d: acquired %r released %r '
                               'result %r (configured %r)' % (refused[0], x[2], acq, rel, x[3], want))
                continue
            kinds = [y[0] for y in span[:-1] if y[0] != 5]
            first_item = kinds.index(2) if 2 in kinds else len(kinds)
            last_item = len(kinds) - 1 - kinds[::-1].index(2) if 2 in kinds else -1
            shape_ok = all(k == 0 for k in kinds[:min(first_item, len(acq))]) and \
                all(k != 0 for k in kinds[first_item:]) and all(k != 1 for k in kinds[:last_item + 1])
            if acq == want and rel == want[::-1] and shape_ok:
                continue
            hier_never_enters = case['cls'] in HIER and acq == mach      # that is KF-C06-1, not a stale read
            if spec[1] == 0 and shape_ok and rel == acq[::-1] and not hier_never_enters and \
                    any(acq == mach + old for old in history.get(spec[2], []) if mach + old != want):
                # the contexts the model had EARLIER (before a remove_model + add_model with another model_context):
                # LockedEvent.trigger read model_context_map before it waited for the machine contexts
                bad.append('stale_model_contexts')
            elif acq == mach and rel == acq[::-1] and shape_ok and len(want) > len(acq):
                bad.append('model_contexts_not_entered')
            else:
                bad.append('contexts not held in configured order around call %d: acquired %r released %r, '
                           'configured %r' % (x[2], acq, rel, want))
    if alldone and not any(b.startswith('overlap') for b in bad):
        want_map = sorted([m, (mach or [0]) + [99] + mc] for m, mc in cfgmap.items())
        if sorted(final[4]) != want_map:
            bad.append('model_context_map %r differs from the configuration %r' % (sorted(final[4]), want_map))
    return bad


def oracle(case, obs):
    bad = oracle_clauses(case, obs)
    return '; '.join(sorted(set(bad))) if bad else None


def model_left_envelope(case, model_obs):
    if model_obs is None:
        try:
            model_obs = F.run_model(KIND, [enc(case)])[0]
        except Exception:  # noqa
            return False
    return isinstance(model_obs, list) and model_obs[0] == 1 and len(model_obs[1]) == 5 and bool(model_obs[1][4])


def classify_known(case, model_obs, impl_obs):
    """KF-C06-1: hierarchical locked class, some model has a user model_context: model contexts are never entered
                 (top-level or nested); observations agree with the model of the code, only that oracle clause fails.
       KF-C06-2: LockedMachine, a nested event (triggered from a callback) on a model whose model_context is not
                 held by the outer call; observations agree, only that clause fails.
       KF-C06-3: LockedMachine, the model of the code reports that an event was entered on a model that is not
                 registered at that moment (after remove_model): it is processed without the machine contexts.
       KF-C06-4: LockedMachine, an event raced with remove_model + add_model(model_context=other) of its model: it is
                 processed under the model contexts read BEFORE it waited for the machine contexts (the earlier
                 registration), not under the ones configured while it is processed; observations agree, only the
                 clause stale_model_contexts fails."""
    if isinstance(impl_obs, dict):
        return None
    hier = case['cls'] in HIER
    if not hier and model_left_envelope(case, model_obs):
        if case.get('stream') != 'restale':
            return 'KF-C06-3'
        # the stale trigger ran alone (setup thread): everything outside that call must still agree with the model
        # and satisfy the oracle - only the stale call itself is attributed to KF-C06-3
        if model_obs is None:
            model_obs = F.run_model(KIND, [enc(case)])[0]
        if strip_stale(case, model_obs) != strip_stale(case, impl_obs):
            return None
        rest = set(oracle_clauses(case, canon(case, impl_obs)))
        if not rest:
            return 'KF-C06-3'
        return 'KF-C06-2' if rest == {'nested_model_contexts_not_entered'} else None
    if model_obs is not None and canon(case, model_obs) != canon(case, impl_obs):
        return None
    bad = set(oracle_clauses(case, canon(case, impl_obs)))
    if not bad:
        return None
    has_model_ctx = any(cx for _, _, _, cx in case['models']) or any(c[1] == 5 and c[7] for c in case['calls'])
    if hier and has_model_ctx and bad <= {'model_contexts_not_entered', 'nested_model_contexts_not_entered'}:
        return 'KF-C06-1'
    if not hier and bad == {'nested_model_contexts_not_entered'}:
        return 'KF-C06-2'
    if not hier and bad == {'stale_model_contexts'}:
        return 'KF-C06-4'
    return None


def strip_stale(case, obs):
    """the observation without the log entries a thread produced while it was inside one of the case's stale-trigger
    calls (case['stale_calls']), without the serial and envelope flags"""
    obs = canon(case, obs)
    if not isinstance(obs, list) or obs[0] != 1:
        return obs
    stale = set(case.get('stale_calls', []))
    pos = {t + 1: 0 for t in range(len(case['progs']))}
    log = []
    for x in obs[1][0]:
        t = x[1]
        prog = case['progs'][t - 1] if 1 <= t <= len(case['progs']) else []
        cur = prog[pos[t]] if t in pos and pos[t] < len(prog) else None
        if cur not in stale:
            log.append(x)
        if x[0] == 4 and x[2] == cur:
            pos[t] += 1
    return [log, obs[1][1], obs[1][2]]


def in_envelope(case):
    return case.get('stream', 'std') not in ('removed', 'restale')


def stats(case, obs, dist):
    def inc(k):
        dist[k] = dist.get(k, 0) + 1
    inc('cls_' + case['cls'])
    inc('threads_%d' % len(case['progs']))
    inc('machine_context_' + ('default' if not case['mctx'] else 'user%d' % len(case['mctx'])))
    if any(cx for _, _, _, cx in case['models']):
        inc('with_model_context')
    inc('stream_' + case.get('stream', 'std'))
    if case.get('queued'):
        inc('queued_machine')
    if case.get('self_model') is not None:
        inc('machine_is_its_own_model')
    if case.get('roundtrip'):
        inc('roundtrip_' + ('pickle' if case['roundtrip'] == 1 else 'deepcopy'))
        if case.get('self_model') is not None:
            inc('roundtrip_of_a_machine_that_is_its_own_model')
    if case.get('exhaustive'):
        inc('schedule_from_enumeration_' + str(case['exhaustive']).replace(' ', '_'))
    if isinstance(obs, list) and obs[0] == 1:
        log = obs[1][0]
        if any(x[0] == 3 for x in log):
            inc('schedules_with_blocked_attempt')
        if any(x[0] == 5 for x in log):
            inc('schedules_with_a_refusing_context_enter')
        if any(x[0] == 4 and x[3] == [1, 6] for x in log):
            inc('schedules_with_a_raising_context_exit')
        top = set(c for p in case['progs'] for c in p)
        if any(x[0] == 4 and x[2] not in top for x in log):
            inc('schedules_with_nested_call')
        if any(x[0] == 4 and x[3][0] == 1 for x in log):
            inc('schedules_with_raising_call')
        kinds = set(c[1] for c in case['calls'])
        for k, n in ((1, 'set_state'), (2, 'add_transition'), (3, 'add_states'), (4, 'remove_model'), (5, 'add_model'),
                     (6, 'direct_callback_or_callbacks')):
            if k in kinds:
                inc('cases_with_' + n)


_SHRINK_BUDGET = [60]        # a stuck (deadlocked) case costs STEP_TIMEOUT seconds: keep shrinking bounded


def shrink_candidates(case):
    for c in _shrink_candidates(case):
        if _SHRINK_BUDGET[0] <= 0:
            return
        _SHRINK_BUDGET[0] -= 1
        yield c


def _shrink_candidates(case):
    s = case['sched']
    for cut in (len(s) // 2, len(s) - 10, len(s) - 1):
        if 0 < cut < len(s):
            c = copy.deepcopy(case)
            c['sched'] = s[:cut] + completion_suffix(len(case['progs']))
            if len(c['sched']) < len(s):
                yield c
    for ti, p in enumerate(case['progs']):
        if len(p) > 1:
            for j in range(len(p)):
                c = copy.deepcopy(case)
                del c['progs'][ti][j]
                yield c
    for ci, spec in enumerate(case['calls']):
        if spec[5]:
            c = copy.deepcopy(case)
            c['calls'][ci][5] = []
            yield c


class _Probe(object):
    """machine context that records which thread entered it"""

    def __init__(self):
        self.entered = []

    def __enter__(self):
        self.entered.append(threading.get_ident())

    def __exit__(self, *exc):
        return False


def public_methods_enter_contexts():
    """Every PUBLIC method of the locked classes - enumerated by reflection over the class, not from a list - called
    from a thread that is not inside the machine must enter the machine contexts before anything else happens (the
    call is made without arguments: whatever the method then does or raises, _locked_method enters first)."""
    import inspect
    flat._import_transitions()
    missing, counted = [], 0
    for cname in CLASSES:
        cls = flat.get_class(cname)
        names = []
        for n in dir(cls):
            if n.startswith('_'):
                continue
            raw = inspect.getattr_static(cls, n)
            if inspect.isfunction(raw) or isinstance(raw, classmethod):
                names.append(n)
        for n in sorted(names):
            probe = _Probe()
            mo = Model()
            m = cls(model=mo, states=['A', 'B'], initial='A', auto_transitions=False, machine_context=[probe],
                    transitions=[['go', 'A', 'B']])
            del probe.entered[:]
            box = []

            def body():
                try:
                    getattr(m, n)()
                except BaseException:  # noqa: wrong arguments etc. - only the entering matters
                    pass
                box.append(threading.get_ident())
            th = threading.Thread(target=body)
            th.daemon = True
            th.start()
            th.join(5)
            counted += 1
            if not box or box[0] not in probe.entered:
                missing.append('%s.%s' % (cname, n))
    ok = not missing
    payload = {} if ok else dict(kind='oracle', case=dict(public_methods_not_entering_the_machine_contexts=missing),
                                 failing_clause='public method(s) run without the machine contexts when called from '
                                                'another thread: %s' % ', '.join(missing))
    return ('every_public_method_enters_the_machine_contexts', ok,
            dict(methods_checked=counted, classes=list(CLASSES), not_locked=missing), payload)


class _NamedProbe(object):
    def __init__(self, name, log):
        self.name, self.log = name, log

    def __enter__(self):
        self.log.append('enter ' + self.name)

    def __exit__(self, *exc):
        self.log.append('exit ' + self.name)
        return False


def reentrancy_is_per_machine():
    """Two locked machines in one program (implementation-level check; the Coq model has ONE machine): while a thread
    is inside machine A (in a callback of A) it calls machine B - an event on B's model or a method of B.  Owning A
    does not make it the owner of B: B's machine contexts (and, for LockedMachine events, B's model contexts) must be
    entered, in order, around the processing on B and left again before A's callback continues; afterwards a call
    on B from the same thread outside A enters them again, and A is still re-entrant for its own thread."""
    flat._import_transitions()
    failures, scenarios = [], 0
    for ca in CLASSES:
        for cb in CLASSES:
            for what in ('event', 'method', 'event_queuedB'):
                scenarios += 1
                log = []
                ma_model, mb_model = Model(), Model()
                B = flat.get_class(cb)(model=None, states=['A', 'B'], initial='A', auto_transitions=False,
                                       queued=(what == 'event_queuedB'),
                                       machine_context=[_NamedProbe('B.machine', log)],
                                       before_state_change=[lambda: log.append('callback of B')])
                B.add_model(mb_model, model_context=[_NamedProbe('B.model', log)])
                B.add_transition('go', 'A', 'B')

                def in_a():
                    log.append('callback of A begins')
                    if what == 'method':
                        B.set_state('B', mb_model)
                    else:
                        mb_model.go()
                    A.get_state('A')                   # A stays re-entrant for its own thread
                    log.append('callback of A ends')
                A = flat.get_class(ca)(model=None, states=['A', 'B'], initial='A', auto_transitions=False,
                                       machine_context=[_NamedProbe('A.machine', log)], before_state_change=[in_a])
                A.add_model(ma_model)
                A.add_transition('go', 'A', 'B')
                del log[:]
                box = []

                def body():
                    try:
                        ma_model.go()
                        box.append('ok')
                    except BaseException as e:  # noqa
                        box.append('%s: %s' % (type(e).__name__, e))
                th = threading.Thread(target=body)
                th.daemon = True
                th.start()
                th.join(5)
                inner = ['enter B.machine']
                if what != 'method':
                    if cb not in HIER:
                        inner.append('enter B.model')          # (hierarchical B: KF-C06-1)
                    inner.append('callback of B')
                    if cb not in HIER:
                        inner.append('exit B.model')
                inner.append('exit B.machine')
                want = ['enter A.machine', 'callback of A begins'] + inner + ['callback of A ends', 'exit A.machine']
                if box != ['ok'] or log != want or mb_model.state != 'B' or ma_model.state != 'B':
                    failures.append(dict(A=ca, B=cb, call_on_B=what, outcome=box, log=list(log), expected=want))
    ok = not failures
    payload = {} if ok else dict(kind='oracle', case=failures[0],
                                 failing_clause='a thread inside machine A calls machine B: the contexts of B are not '
                                                'entered/left around the processing on B (re-entrancy must be per '
                                                'machine): got %r, expected %r' % (failures[0]['log'], failures[0]['expected']))
    return ('reentrancy_is_per_machine', ok,
            dict(scenarios=scenarios, failed=len(failures),
                 level='implementation-level oracle (partial: two machines are not modelled in Coq)'), payload)


def extra_checks(tier, seed):
    """every tier: reflection over the public methods; thorough tier: the extracted OCaml model against vm_compute
    inside coqc on a sample (extraction cross-check)"""
    out = [public_methods_enter_contexts(), reentrancy_is_per_machine()]
    if tier != 'thorough':
        return out
    cases = gen_batch(seed + 7, 50, 'quick')[::2]
    encs = [enc(c) for c in cases]
    try:
        a = F.run_model(KIND, encs)
        b = F.run_model_vm(str(KIND), encs, 'c06')
    except Exception as e:  # noqa
        return out + [('extraction_cross_check', False, dict(error=str(e)[-800:]),
                 dict(kind='correspondence', correspondence='extraction_C06', error=str(e)[-2000:]))]
    ok = a == b
    bad = {}
    if not ok:
        k = [i for i, (x, y) in enumerate(zip(a, b)) if x != y]
        k = k[0] if k else 0
        bad = dict(kind='correspondence', correspondence='extraction_C06', case=cases[k],
                   ocaml=a[k] if k < len(a) else None, vm_compute=b[k] if k < len(b) else None)
    return out + [('extraction_cross_check', ok, dict(cases=len(cases), level='OCaml driver output = vm_compute output'), bad)]
