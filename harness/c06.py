"""C06 — locked machines serialize event processing under every thread schedule.

Correspondence: a CONTROLLED SCHEDULER drives real threads on the real LockedMachine /
LockedHierarchicalMachine (no source hooks).  Worker threads stop at yield points that are supplied
from outside through the public API: instrumented context managers passed as machine_context /
model_context (stop before acquiring and before releasing; acquiring a busy context is reported as a
blocked no-op and retried at the thread's next turn), the machine-level callbacks (stop at callback
entry; callbacks may raise or call the machine again), and the start of every top-level call.  The
controller releases exactly one thread per schedule entry and waits until it stops again.  With the
default PicklableLock (not instrumented) the controller peeks at machine.machine_context[0].lock and
treats the turn of a thread that would block as the blocked no-op.  The same (macro-)schedule is run
by the extracted model (Lock.step iterated over the steps that are invisible from outside)."""
import copy
import random
import threading

import flat
import framework as F

PID = 'C06'
KIND = 10
IMPL = ('c06', 'impl_lock')
COUNTS = dict(quick=3000, thorough=20000)
SCHEDULES_PER_PROGRAM = 25
HIER = ('LockedHierarchicalMachine', 'LockedHierarchicalGraphMachine')
CLASSES = ['LockedMachine', 'LockedHierarchicalMachine']
STEP_TIMEOUT = 4.0
_SLOW = [0]                   # stuck / hung cases seen by this process: afterwards the timeouts shrink


def step_timeout():
    return STEP_TIMEOUT if _SLOW[0] < 2 else 1.0

RULE = ('program = class (LockedMachine / LockedHierarchicalMachine / graph variants), machine_context (default '
        'PicklableLock, or 1-2 instrumented user contexts), 1-3 models each with 0-2 instrumented model contexts '
        '(possibly shared), a 3-state machine with 2 events, 2-4 threads x 1-3 calls: events (via model.trigger or the '
        'event method) on shared/distinct models, set_state, add_transition, add_states, remove_model (of a spare model); '
        'callbacks (prepare_event/before/after/finalize) raise or call the machine again (nested events on any model, '
        'set_state, add_transition; depth <= 2). %d sampled schedules per program (random bursts, then two completion '
        'passes); thorough tier adds every maximal schedule (no blocked attempts) of small programs enumerated by the '
        'model. Compared per schedule: acquire/release/blocked log of the instrumented contexts, callback segments '
        '(thread, call, slot, model, state seen), result of every call (nested too), final model states / registered '
        'models / states / transitions, all-done flag, serial-equivalence flag. Non-trivial: the schedule produced at '
        'least one blocked attempt (real contention) or a nested call; distinct by case hash.' % SCHEDULES_PER_PROGRAM)
ASSUMPTIONS = [
    'PARTIAL: threading.Lock, threading.get_ident and the GIL are assumed to behave as the mutex / thread identity / '
    'atomic attribute access of the model; user contexts are assumed to be non-re-entrant locks',
    'interleavings inside steps that cannot be observed without source hooks (between the unlocked read of '
    'ident.current and the first acquire; around IdentManager.__enter__/__exit__; around the default PicklableLock) '
    'are covered by the theorems (all fine-grained schedules) but exercised only as macro steps',
    'no context object is configured twice for one call (wf_cfg); events are not sent to models that were removed '
    '(LockedEvent then finds an empty context list and runs unlocked - outside the envelope, see report)',
    'the controller declares a thread stuck if it does not reach its next yield point within %.0f s (a whole case: %.0f s); such a case is reported as a disagreement' % (STEP_TIMEOUT, 12.0),
]
THEOREMS = ['C06_invariant', 'C06_mutex', 'C06_serial', 'C06_serial_in_progress', 'C06_reentrant',
            'C06_reentrant_never_blocked', 'C06_contexts_held_code', 'C06_contexts_held', 'C06_contexts_order',
            'C06_contexts_released', 'C06_same_calls', 'C06_progress', 'C06_macro_runs_are_schedules', 'C06_example',
            'C06_contexts_held_hier_refuted', 'C06_contexts_held_nested_refuted']
THEOREM_OF_DIFF = 'corr_C06: Lock.step (macro steps) = controlled run of the real locked machine (Props/C06.v)'


# ------------------------------------------------------------------ encoding
def enc(case):
    hier = case['cls'] in HIER
    return [case.get('mode', 0),
            [case['mctx'] or [0], [[m, list(cx)] for m, _, cx in case['models']], bool(hier)],
            [case['states'], [list(t) for t in case['trans']], [[m, s] for m, s, _ in case['models']]],
            [[c[0], c[1], c[2], c[3], c[4], [list(x) for x in c[5]]] for c in case['calls']],
            [list(p) for p in case['progs']],
            list(case['sched'])]


# ------------------------------------------------------------------ generation
def gen_program(rng, p):
    cls = CLASSES[p % len(CLASSES)]
    hier = cls in HIER
    mctx = rng.choice([[], [], [1], [1], [1, 2]])
    nm = rng.randint(1, 3)
    models = []
    for m in range(nm):
        cx = rng.choice([[], [], [3], [4], [3, 4], [4, 3], [5]])
        models.append([m, rng.randrange(3), cx])
    spare = []
    for j in range(rng.choice([0, 1, 1, 2])):
        spare.append(nm + j)
        models.append([nm + j, rng.randrange(3), rng.choice([[], [5]])])
    trans = []
    for e in range(2):
        for _ in range(rng.randint(2, 4)):
            trans.append([e, rng.randrange(3), rng.randrange(3)])
    calls = []
    fresh_states = [3, 4, 5]
    state_pool = [0, 1, 2, 3]

    def new_call(depth, allow_script=True):
        cid = len(calls) + 1
        x = rng.random()
        spec = [cid, 0, 0, 0, 0, []]
        calls.append(spec)
        if x < 0.62 or (depth > 0 and x < 0.7):
            spec[1], spec[2], spec[3] = 0, rng.randrange(nm), rng.randrange(2)
            if allow_script and rng.random() < (0.45 if depth == 0 else 0.25):
                slot = rng.randrange(4)
                if rng.random() < 0.35 or depth >= 2:
                    spec[5].append([slot, 1, 0])
                else:
                    sub = new_call(depth + 1)
                    spec[5].append([slot, 2, sub])
                if rng.random() < 0.25:
                    slot2 = rng.choice([s for s in range(4) if s != slot])
                    spec[5].append([slot2, 1, 0])
                spec[5].sort()
        elif x < 0.78:
            spec[1], spec[2], spec[3] = 1, rng.randrange(nm), rng.choice(state_pool)
        elif x < 0.9:
            spec[1], spec[2], spec[3], spec[4] = 2, rng.randrange(2), rng.choice(state_pool), rng.randrange(3)
        elif depth == 0 and fresh_states and x < 0.95:
            spec[1], spec[2] = 3, fresh_states.pop(0)
        elif depth == 0 and spare:
            spec[1], spec[2] = 4, spare.pop(0)
        else:
            spec[1], spec[2], spec[3] = 0, rng.randrange(nm), rng.randrange(2)
        return cid

    nt = rng.choice([2, 2, 2, 3, 3, 4])
    progs = []
    for _ in range(nt):
        progs.append([new_call(0) for _ in range(rng.choice([1, 1, 2, 2, 3]))])
    return dict(cls=cls, mctx=mctx, models=models, states=[0, 1, 2], trans=trans, calls=calls, progs=progs,
                sched=[], mode=0)


def completion_suffix(nt, k=70):
    out = []
    for _ in range(2):
        for t in range(1, nt + 1):
            out += [t] * k
    return out


def gen_schedule(rng, nt):
    out = []
    style = rng.random()
    n = rng.randint(5, 60)
    while len(out) < n:
        t = rng.randint(1, nt)
        burst = 1 if style < 0.3 else rng.choice([1, 1, 2, 3, 5, 8])
        out += [t] * burst
    return out + completion_suffix(nt)


def gen_batch(seed, n, tier):
    cases = []
    p = 0
    while len(cases) < n:
        rp = random.Random('C06-%d-p%d' % (seed, p))
        prog = gen_program(rp, p)
        for s in range(SCHEDULES_PER_PROGRAM):
            if len(cases) >= n:
                break
            rs = random.Random('C06-%d-p%d-s%d' % (seed, p, s))
            c = copy.deepcopy(prog)
            c['sched'] = gen_schedule(rs, len(c['progs']))
            cases.append(c)
        p += 1
    if tier == 'thorough':
        cases += exhaustive_cases(seed, 40, 3000)
    return cases


def exhaustive_cases(seed, nprog, budget):
    """every maximal schedule (without blocked attempts) of small programs, enumerated by the model"""
    progs = []
    p = 0
    while len(progs) < nprog and p < 5000:
        rp = random.Random('C06-%d-x%d' % (seed, p))
        prog = gen_program(rp, p)
        p += 1
        if len(prog['progs']) <= 3 and all(len(x) <= 2 for x in prog['progs']) and len(prog['calls']) <= 5:
            progs.append(prog)
    qs = []
    for prog in progs:
        q = copy.deepcopy(prog)
        q['mode'] = 1
        q['sched'] = [budget]
        qs.append(enc(q))
    res = F.run_model(KIND, qs)
    out = []
    for prog, r in zip(progs, res):
        if not (isinstance(r, list) and r and r[0] == 2):
            continue
        for sched in r[1]:
            c = copy.deepcopy(prog)
            c['sched'] = list(sched) + completion_suffix(len(c['progs']), 3)
            c['exhaustive'] = 'complete' if len(r[1]) < budget else 'truncated at %d' % budget
            out.append(c)
    return out


def gen(rng, i, tier):       # not used (gen_batch), kept for the interface
    prog = gen_program(rng, i)
    prog['sched'] = gen_schedule(rng, len(prog['progs']))
    return prog


# ------------------------------------------------------------------ the controlled scheduler
class Abort(BaseException):
    pass


class Worker(object):
    def __init__(self, run, tid, prog):
        self.run, self.tid, self.prog = run, tid, prog
        self.go = threading.Semaphore(0)
        self.arrived = threading.Semaphore(0)
        self.at = None
        self.done = False
        self.thread = threading.Thread(target=self.main, name='c06-w%d' % tid)
        self.thread.daemon = True

    def yield_(self, label):
        if self.run.free:
            return
        self.at = label
        self.arrived.release()
        while not self.go.acquire(timeout=0.5):
            if self.run.abort:
                raise Abort()
        if self.run.abort:
            raise Abort()

    def main(self):
        self.run.by_ident[threading.get_ident()] = self
        try:
            for cid in self.prog:
                self.yield_(('call', cid))
                self.run.do_call(self, cid)
        except Abort:
            pass
        except BaseException as e:  # noqa
            import traceback
            self.run.errors.append('%s: %s\n%s' % (type(e).__name__, e, traceback.format_exc()[-1200:]))
        self.done = True
        self.at = ('done',)
        self.arrived.release()


class Ctx(object):
    """instrumented, non-re-entrant lock supplied as machine_context / model_context"""

    def __init__(self, run, cid):
        self.run, self.cid, self.owner = run, cid, None

    def __enter__(self):
        run = self.run
        w = run.by_ident.get(threading.get_ident())
        if w is None or run.free:           # construction in the main thread / serial reference run
            if self.owner is not None:
                raise RuntimeError('context %d busy outside the scheduled run' % self.cid)
            self.owner = 'x'
            return self
        w.yield_(('enter', self.cid))
        while True:
            if self.owner is None or run.abort:
                self.owner = w.tid
                run.log.append([0, w.tid, self.cid])
                return self
            run.log.append([3, w.tid, self.cid])
            w.yield_(('blocked', self.cid))

    def __exit__(self, et, ev, tb):
        run = self.run
        w = run.by_ident.get(threading.get_ident())
        if w is None or run.free:
            self.owner = None
            return False
        w.yield_(('exit', self.cid))
        self.owner = None
        run.log.append([1, w.tid, self.cid])
        return False


class Model(object):
    pass


def _res(f):
    try:
        r = f()
        return [0, 1 if r is True else (0 if r is False else (2 if r is None else 7))]
    except Abort:
        raise
    except BaseException as e:  # noqa
        k = flat.classify_exc(e)
        return [1, k[0] if k[0] in (2, 3) else 9]


class Run(object):
    def __init__(self, case):
        self.case = case
        self.free = True            # no scheduling while the machine is built
        self.abort = False
        self.log = []
        self.errors = []
        self.by_ident = {}
        self.stuck = 0
        self.specs = {c[0]: c for c in case['calls']}
        self.ctxs = {}
        cls = flat.get_class(case['cls'])
        kw = dict(flat.class_kwargs(case['cls']))
        if case['mctx']:
            kw['machine_context'] = [self.ctx(c) for c in case['mctx']]
        self.machine = cls(model=None, states=['s%d' % s for s in case['states']], initial='s0',
                           auto_transitions=False, send_event=True, ignore_invalid_triggers=True,
                           prepare_event=[self.callback(0)], before_state_change=[self.callback(1)],
                           after_state_change=[self.callback(2)], finalize_event=[self.callback(3)], **kw)
        self.models = {}
        self.model_id = {}
        for m, s, cx in case['models']:
            mo = Model()
            self.models[m] = mo
            self.model_id[id(mo)] = m
            if cx:
                self.machine.add_model(mo, initial='s%d' % s, model_context=[self.ctx(c) for c in cx])
            else:
                self.machine.add_model(mo, initial='s%d' % s)
        for e, src, dst in case['trans']:
            self.machine.add_transition('e%d' % e, 's%d' % src, 's%d' % dst)

    def ctx(self, c):
        if c not in self.ctxs:
            self.ctxs[c] = Ctx(self, c)
        return self.ctxs[c]

    def callback(self, slot):
        run = self

        def cb(ed):
            w = run.by_ident.get(threading.get_ident())
            cid = ed.args[0] if ed.args else 0
            tid = 0
            if w is not None:
                tid = w.tid
                w.yield_(('cb', cid, slot))
            run.log.append([2, tid, cid, slot, run.model_id.get(id(ed.model), 99), flat.state_int(ed.model)])
            for sl, act, arg in run.specs[cid][5]:
                if sl != slot:
                    continue
                if act == 1:
                    raise flat.UserExc(cid)
                if act == 2:
                    run.do_call(w, arg)
        cb.__name__ = 'cb%d' % slot
        return cb

    def do_call(self, w, cid):
        _, kind, a, b, c, _ = self.specs[cid]
        m = self.machine
        if kind == 0:
            mo = self.models[a]
            if cid % 2:
                f = lambda: mo.trigger('e%d' % b, cid)           # noqa
            else:
                f = lambda: getattr(mo, 'e%d' % b)(cid)          # noqa
        elif kind == 1:
            f = lambda: m.set_state('s%d' % b, self.models[a])   # noqa
        elif kind == 2:
            f = lambda: m.add_transition('e%d' % a, 's%d' % b, 's%d' % c)   # noqa
        elif kind == 3:
            f = lambda: m.add_states('s%d' % a)                  # noqa
        else:
            f = lambda: m.remove_model(self.models[a])           # noqa
        r = _res(f)
        self.log.append([4, w.tid if w is not None else 0, cid, r])
        return r

    def final(self):
        m = self.machine
        trans = []
        for en in sorted(m.events, key=lambda x: int(x[1:])):
            ev = m.events[en]
            for src in sorted(ev.transitions, key=lambda x: int(x[1:])):
                for t in ev.transitions[src]:
                    trans.append([int(en[1:]), int(src[1:]), int(t.dest[1:])])
        return [[[k, flat.state_int(mo)] for k, mo in sorted(self.models.items())],
                [self.model_id[id(x)] for x in m.models],
                [int(s[1:]) for s in m.states],
                trans]

    # ---- scheduled run
    def default_lock_busy(self):
        if self.case['mctx']:
            return False
        return self.machine.machine_context[0].lock.locked()

    def execute(self, sched):
        nt = len(self.case['progs'])
        ws = {t: Worker(self, t, self.case['progs'][t - 1]) for t in range(1, nt + 1)}
        self.free = False
        for w in ws.values():
            w.thread.start()
        ok = True
        for w in ws.values():               # every worker stops before its first call
            if not w.arrived.acquire(timeout=step_timeout()):
                ok = False
        if ok:
            for t in sched:
                w = ws.get(t)
                if w is None or w.done:
                    continue
                if w.at[0] == 'call' and self.default_lock_busy():
                    self.log.append([3, t, 0])
                    continue
                w.go.release()
                if not w.arrived.acquire(timeout=step_timeout()):
                    self.stuck = t
                    _SLOW[0] += 1
                    break
        alldone = all(w.done for w in ws.values())
        # never leave a thread waiting
        self.abort = True
        for w in ws.values():
            for _ in range(4):
                w.go.release()
        for w in ws.values():
            w.thread.join(timeout=0.5 if not alldone else 2.0)
        self.free = True
        return alldone


def serial_reference(case, order):
    """fresh machine, the top-level calls one after the other in the given order, one thread"""
    run = Run(case)
    per = []
    for cid in order:
        start = len(run.log)
        r = run.do_call(None, cid)
        items = [[x[3], x[4], x[5]] if x[0] == 2 else [9, x[2], x[3]] for x in run.log[start:-1]]
        per.append([cid, r, items])
    return run.final(), per


CASE_TIMEOUT = 12.0


def impl_lock(case):
    """watchdog: the whole case runs in a daemon thread, so that a deadlock of the library outside the
    scheduled part (construction, serial reference run) cannot hang the check"""
    box = []

    def body():
        try:
            box.append(_impl_lock(case))
        except BaseException as e:  # noqa
            import traceback
            box.append({'harness_error': '%s: %s' % (type(e).__name__, e), 'tb': traceback.format_exc()[-1500:]})
    th = threading.Thread(target=body, name='c06-case')
    th.daemon = True
    th.start()
    th.join(CASE_TIMEOUT if _SLOW[0] < 2 else 2.5)
    if not box:
        _SLOW[0] += 1
        return [1, [[[9, 0, 0]], [[], [], [], []], 0, 8]]      # hung
    return box[0]


def _impl_lock(case):
    flat._import_transitions()
    run = Run(case)
    alldone = run.execute(case['sched'])
    if run.errors:
        return {'harness_error': run.errors[0]}
    final = run.final()
    log = run.log
    serial = 2
    if run.stuck:
        return [1, [log, final, 0, 7]]
    if alldone:
        top = set(c for p in case['progs'] for c in p)
        order, per, cur = [], [], {}
        for x in log:
            if x[0] == 2:
                cur.setdefault(x[1], []).append([x[3], x[4], x[5]])
            elif x[0] == 4:
                if x[2] in top:
                    order.append(x[2])
                    per.append([x[2], x[3], cur.pop(x[1], [])])
                else:
                    cur.setdefault(x[1], []).append([9, x[2], x[3]])
        try:
            sfinal, sper = serial_reference(case, order)
            serial = 1 if (sfinal == final and sper == per) else 0
        except BaseException as e:  # noqa
            return {'harness_error': 'serial reference: %s: %s' % (type(e).__name__, e)}
    return [1, [log, final, 1 if alldone else 0, serial]]


# ------------------------------------------------------------------ comparison helpers
def canon(case, obs):
    if isinstance(obs, dict) or not isinstance(obs, list) or obs[0] != 1:
        return obs
    log, final, alldone, serial = obs[1]
    tr = sorted([list(t) for t in final[3]], key=lambda t: (t[0], t[1]))
    return [1, [log, [final[0], final[1], final[2], tr], alldone, serial]]


def nontrivial(case, obs):
    if not isinstance(obs, list) or obs[0] != 1:
        return False
    top = set(c for p in case['progs'] for c in p)
    return any(x[0] == 3 or (x[0] == 4 and x[2] not in top) for x in obs[1][0])


def expected_contexts(case, cid):
    """instrumented contexts the PROPERTY demands for a top-level call, in order"""
    spec = [c for c in case['calls'] if c[0] == cid][0]
    cx = list(case['mctx'])
    if spec[1] == 0:
        cx += [c for m, _, mc in case['models'] if m == spec[2] for c in mc]
    return cx


def oracle_clauses(case, obs):
    """the property evaluated on the implementation's observation alone"""
    if not isinstance(obs, list) or obs[0] != 1:
        return ['no observation']
    log, final, alldone, serial = obs[1]
    bad = []
    if not alldone:
        bad.append('deadlock: not every thread finished')
    if serial == 0:
        bad.append('not equal to the serial execution in acquisition order')
    top = set(c for p in case['progs'] for c in p)
    cur = None
    spans = {}
    for x in log:
        if x[0] == 3:
            continue
        t = x[1]
        if cur is None:
            cur = t
            spans[t] = []
        elif t != cur:
            bad.append('overlap: thread %d acts inside the processing of thread %d' % (t, cur))
            break
        spans[t].append(x)
        if x[0] == 4 and x[2] in top:
            sp = spans.pop(t)
            cur = None
            want = expected_contexts(case, x[2])
            acq = [y[2] for y in sp if y[0] == 0]
            rel = [y[2] for y in sp if y[0] == 1]
            kinds = [y[0] for y in sp[:-1]]
            first_item = kinds.index(2) if 2 in kinds else len(kinds)
            last_item = len(kinds) - 1 - kinds[::-1].index(2) if 2 in kinds else -1
            shape_ok = all(k == 0 for k in kinds[:min(first_item, len(acq))]) and \
                all(k != 0 for k in kinds[first_item:]) and all(k != 1 for k in kinds[:last_item + 1])
            if acq == want and rel == want[::-1] and shape_ok:
                continue
            if acq == list(case['mctx']) and rel == acq[::-1] and shape_ok and len(want) > len(acq):
                bad.append('model_contexts_not_entered')
            else:
                bad.append('contexts not held in configured order around call %d: acquired %r released %r, '
                           'configured %r' % (x[2], acq, rel, want))
    return bad


def oracle(case, obs):
    bad = oracle_clauses(case, obs)
    return '; '.join(sorted(set(bad))) if bad else None


def classify_known(case, model_obs, impl_obs):
    """KF-C06-1: hierarchical locked class with a user model_context: the model contexts are never entered."""
    if case['cls'] not in HIER or not any(cx for _, _, cx in case['models']):
        return None
    if isinstance(impl_obs, dict):
        return None
    if model_obs is not None and canon(case, model_obs) != canon(case, impl_obs):
        return None
    bad = set(oracle_clauses(case, canon(case, impl_obs)))
    return 'KF-C06-1' if bad == {'model_contexts_not_entered'} else None


def stats(case, obs, dist):
    def inc(k):
        dist[k] = dist.get(k, 0) + 1
    inc('cls_' + case['cls'])
    inc('threads_%d' % len(case['progs']))
    inc('machine_context_' + ('default' if not case['mctx'] else 'user%d' % len(case['mctx'])))
    if any(cx for _, _, cx in case['models']):
        inc('with_model_context')
    if case.get('exhaustive'):
        inc('schedule_from_enumeration_' + str(case['exhaustive']).replace(' ', '_'))
    if isinstance(obs, list) and obs[0] == 1:
        log = obs[1][0]
        if any(x[0] == 3 for x in log):
            inc('schedules_with_blocked_attempt')
        top = set(c for p in case['progs'] for c in p)
        if any(x[0] == 4 and x[2] not in top for x in log):
            inc('schedules_with_nested_call')
        if any(x[0] == 4 and x[3][0] == 1 for x in log):
            inc('schedules_with_raising_call')
        kinds = set(c[1] for c in case['calls'])
        for k, n in ((1, 'set_state'), (2, 'add_transition'), (3, 'add_states'), (4, 'remove_model')):
            if k in kinds:
                inc('cases_with_' + n)


_SHRINK_BUDGET = [60]        # a stuck (deadlocked) case costs STEP_TIMEOUT seconds: keep shrinking bounded


def shrink_candidates(case):
    for c in _shrink_candidates(case):
        if _SHRINK_BUDGET[0] <= 0:
            return
        _SHRINK_BUDGET[0] -= 1
        yield c


def _shrink_candidates(case):
    s = case['sched']
    for cut in (len(s) // 2, len(s) - 10, len(s) - 1):
        if 0 < cut < len(s):
            c = copy.deepcopy(case)
            c['sched'] = s[:cut] + completion_suffix(len(case['progs']))
            if len(c['sched']) < len(s):
                yield c
    for ti, p in enumerate(case['progs']):
        if len(p) > 1:
            for j in range(len(p)):
                c = copy.deepcopy(case)
                del c['progs'][ti][j]
                yield c
    for ci, spec in enumerate(case['calls']):
        if spec[5]:
            c = copy.deepcopy(case)
            c['calls'][ci][5] = []
            yield c


def extra_checks(tier, seed):
    """thorough tier: the extracted OCaml model against vm_compute inside coqc on a sample (extraction cross-check)"""
    if tier != 'thorough':
        return []
    cases = gen_batch(seed + 7, 50, 'quick')[::2]
    encs = [enc(c) for c in cases]
    try:
        a = F.run_model(KIND, encs)
        b = F.run_model_vm(str(KIND), encs, 'c06')
    except Exception as e:  # noqa
        return [('extraction_cross_check', False, dict(error=str(e)[-800:]),
                 dict(kind='correspondence', correspondence='extraction_C06', error=str(e)[-2000:]))]
    ok = a == b
    bad = {}
    if not ok:
        k = [i for i, (x, y) in enumerate(zip(a, b)) if x != y]
        k = k[0] if k else 0
        bad = dict(kind='correspondence', correspondence='extraction_C06', case=cases[k],
                   ocaml=a[k] if k < len(a) else None, vm_compute=b[k] if k < len(b) else None)
    return [('extraction_cross_check', ok, dict(cases=len(cases), level='OCaml driver output = vm_compute output'), bad)]
