"""C11 — the helpers on a model mirror the machine and the model's state.
Correspondence of real Machine / HierarchicalMachine instances (built through the public API,
introspected after every step) with the Coq naming model (coq/Model/Naming.v), plus a direct
oracle for the clauses of the property on the implementation's observations."""
import asyncio
import copy
import enum
import inspect

from framework import REPO  # noqa: F401
from flat import _import_transitions

PID = 'C11'
KIND = 4
IMPL = ('c11', 'impl')
COUNTS = dict(quick=800, thorough=16000)
RULE = ('cases = random flat machines (2 of 4 cases; class Machine, or - 1 of 2 - AsyncMachine / AsyncGraphMachine with every '
        'call awaited on one event loop per case; every may_<event>() and may_trigger(e) is called before the machine is '
        'asked for get_triggers / get_transitions; model_attribute state/st/mode/my_state, auto_transitions on/off, '
        'model_override on/off, ignore_invalid_triggers on/off, string or Enum states, 0-4 states, 0-4 transitions with '
        'wildcard / list sources, reflexive / internal / named destinations and constant conditions, 0-2 models whose '
        'classes / instances already define 0-5 attributes named like helpers (is_*, to_*, may_*, event names, trigger) '
        'with callable, None, or defined-but-falsy values (False, 0, "", [], {}, 0.0, ())) followed by 2-8 operations (helper / event-method / trigger(name) calls, '
        'add_states, add_transition, remove_transition, add_model); and hierarchical machines (separators _ . /, nested '
        'and parallel states, string states or (2 of 5) Enum states with one Enum class per group of siblings and the '
        'SAME member names A, B, C on every level, references given alternately as member and as path, every '
        'to_<state> helper called and required to end in that state, get_transitions asked by member and by name, '
        '1-2 models with clashing attributes, configurations set through '
        'set_state and add_model; 1 of 4 cases) and hierarchical reconfiguration histories (1 of 4 cases: events declared '
        'at the machine, inside state dicts through the transitions key, and through embedded machines, then 3-9 '
        'operations add_transition / remove_transition with and without source / dest filters / add_states / add_model '
        '/ set_state / event calls, checked after every operation against an independent reference relation and the '
        'clauses R, H, E, T, G of harness/c11_hrec.py). After the constructor and after '
        'every operation every model is introspected (dir(), every helper called, every trigger(e)/may_trigger(e), '
        'is_*/to_* per state) and the machine queried (get_triggers per state, get_transitions for 4-8 queries). '
        'One flat case in five also asks for an event named like the state attribute (in a history or in the '
        'constructor). Every 8th case is from the malformed stream (events named like helpers or like the state attribute, '
        'unregistered destinations, duplicate states, removal of unknown or auto transitions). '
        'Non-trivial: at least one model is registered and either a helper name clashed with an attribute of the '
        'model, or an operation after the constructor changed the helper table or the answers of get_triggers.')
ASSUMPTIONS = ['hierarchical reconfiguration histories: the transition relation is a reference kept in Python (no Coq '
               'model of add/remove_transition in nested scopes); get_triggers of every state after every operation is '
               'NamingH.get_triggers_h on the event tables of that reference; segment names are unique in the tree',
               'hierarchical is_state / get_triggers: NamingH.is_helper_h / get_triggers_h (the functions of the C11_hsm_* '
               'theorems) run on the same machines with numbered states and are compared with machine.is_state / '
               'get_triggers of the real classes',
               'callbacks are not part of this property: conditions are constants, no callback raises',
               'Enum states behave like string states of the same names in flat machines (the Coq model is by name)',
               'Python attribute lookup (instance dict before class) and functools.partial']
THEOREMS = ['C11_exactly_one_flat', 'C11_no_overwrite', 'C11_no_overwrite_refuted', 'C11_not_attr',
            'C11_get_triggers', 'C11_get_transitions', 'C11_event_is_trigger_partial',
            'C11_to_iff_auto_partial', 'C11_envelope_inhabited',
            'C11_hsm_is_leaves', 'C11_hsm_is_ancestors', 'C11_hsm_is_nodes', 'C11_hsm_exactly_one_exclusive',
            'C11_hsm_model_value', 'C11_hsm_get_triggers_char', 'C11_hsm_get_triggers',
            'C11_hsm_get_triggers_refuted', 'C11_hsm_to_state']

UNKNOWN = 'zz_unknown'
GRAPH_ATTRS = ('get_graph',)     # what the diagram support of *GraphMachine adds to a model (C16)
STATE_POOL = ['A', 'B', 'C', 'D', 'E', 'st_A', 'state_A', 'A_B']
EVENT_POOL = ['go', 'run', 'stop', 'reset', 'next', 'e_A']
ATTRS = ['state', 'state', 'state', 'st', 'mode', 'my_state']


def sx_str(s):
    return [ord(ch) for ch in s]


def un_str(l):
    return ''.join(chr(x) for x in l)


def is_name(cfg, s):
    return 'is_%s' % s if cfg['attr'] == 'state' else 'is_%s_%s' % (cfg['attr'], s)


def to_name(cfg, s):
    return 'to_%s' % s if cfg['attr'] == 'state' else 'to_%s_%s' % (cfg['attr'], s)


# ------------------------------------------------------------------ encoding (flat)
def enc_val(v):
    return [0, v[1]] if v[0] == 'pre' else ([4, v[1]] if v[0] == 'own' else [1])


def enc_obj(o):
    return [o['id'], [[sx_str(n), enc_val(v)] for n, v in o['cls']], [[sx_str(n), enc_val(v)] for n, v in o['inst']]]


def enc_op(op):
    k = op[0]
    if k == 'states':
        return [0, [sx_str(s) for s in op[1]]]
    if k == 'initial':
        return [1, sx_str(op[1])]
    if k == 'addt':
        _, trig, src, dst, ok = op
        d = [0, sx_str(dst[1])] if dst[0] == 'n' else ([1] if dst[0] == '=' else [2])
        return [2, sx_str(trig), [] if src is None else [[sx_str(s) for s in src]], d, bool(ok)]
    if k == 'rmt':
        _, trig, src, dst = op
        return [3, sx_str(trig), [] if src is None else [sx_str(src)], [] if dst is None else [sx_str(dst)]]
    if k == 'model':
        return [4, enc_obj(op[1]), [] if op[2] is None else [sx_str(op[2])]]
    if k == 'call':
        return [5, op[1], sx_str(op[2]), [] if op[3] is None else [sx_str(op[3])]]
    raise ValueError(op)


def enc(case):
    if case['kind'] == 'flat':
        c = case['cfg']
        return [0, [sx_str(c['attr']), bool(c['auto']), bool(c['over']), bool(c['ignore'])], case['nctor'],
                [enc_op(o) for o in case['ops']],
                [[sx_str(t), sx_str(s), sx_str(d)] for t, s, d in case['queries']]]
    if case['kind'] == 'hrec':
        import c11_hrec
        return c11_hrec.enc(case)
    import c11_hsm
    return c11_hsm.enc(case)


# ------------------------------------------------------------------ generation (flat)
def helperish_names(rng, cfg, states, events):
    out = ['trigger', 'may_trigger', 'foo']
    for s in states:
        out += [is_name(cfg, s), to_name(cfg, s), 'may_' + to_name(cfg, s)]
    for e in events:
        out += [e, 'may_' + e]
    return sorted(set(out))


class FlatGen(object):
    def __init__(self, rng, malformed):
        self.r = rng
        self.malformed = malformed
        self.pre = 0
        self.mid = 0

    def obj(self, cfg, names):
        r = self.r
        self.mid += 1
        cls, inst = [], []
        if r.random() < 0.75:
            picks = r.sample(names, min(len(names), r.randint(1, 5)))
            for n in picks:
                self.pre += 1
                x = r.random()
                if x < 0.4:
                    cls.append([n, ['pre', self.pre]])
                elif x < 0.55:
                    cls.append([n, ['own', self.pre]])      # defined but not callable, falsy: False, 0, '', [], {}
                elif x < 0.7:
                    cls.append([n, ['none']])
                elif x < 0.87:
                    inst.append([n, ['pre', self.pre]])
                else:
                    inst.append([n, ['own', self.pre]])
        return dict(id=self.mid, cls=cls, inst=inst)

    def addt(self, states, events, all_states):
        r = self.r
        trig = r.choice(events)
        x = r.random()
        if x < 0.2 or not states:
            src = None
        elif x < 0.7:
            src = [r.choice(states)]
        else:
            src = r.sample(states, min(len(states), r.randint(1, 3)))
        y = r.random()
        if y < 0.12:
            dst = ['=']
        elif y < 0.24:
            dst = ['none']
        elif states:
            dst = ['n', r.choice(states)]
        else:
            dst = ['n', r.choice(all_states)]
        if self.malformed and r.random() < 0.2:
            dst = ['n', 'Nowhere']
        return ['addt', trig, src, dst, r.random() < 0.8]

    def case(self):
        r = self.r
        cfg = dict(attr=r.choice(ATTRS), auto=r.random() < 0.65, over=r.random() < 0.3, ignore=r.random() < 0.3,
                   enum=r.random() < 0.35,
                   cls=r.choice(['Machine', 'Machine', 'Machine', 'AsyncMachine', 'AsyncMachine', 'AsyncGraphMachine']))
        all_states = r.sample(STATE_POOL, r.randint(2, 6))
        events = r.sample(EVENT_POOL, r.randint(1, 4))
        names = helperish_names(r, cfg, all_states, events)
        if self.malformed:
            events = events + r.sample(['is_A', to_name(cfg, all_states[0]), 'may_go', 'trigger', cfg['attr'],
                                        is_name(cfg, all_states[1])], 2)
        ops = []
        init_states = all_states[:r.randint(0, min(4, len(all_states)))]
        ops.append(['states', list(init_states)])
        x = r.random()
        if init_states and x < 0.85:
            initial = r.choice(init_states)
        elif x < 0.95:
            initial = 'initial' if not cfg['enum'] else (init_states[0] if init_states else 'initial')
        else:
            initial = r.choice(all_states)
        if cfg['enum'] and initial not in init_states:
            cfg['enum'] = False           # the initial setter would register a *string* state
        ops.append(['initial', initial])
        cur = list(init_states) + ([initial] if initial not in init_states else [])
        for _ in range(r.randint(0, 4)):
            ops.append(self.addt(cur, events, all_states))
        models = []
        for _ in range(r.choice([0, 1, 1, 1, 2])):
            o = self.obj(cfg, names)
            models.append(o['id'])
            ops.append(['model', o, None])
        nctor = len(ops)
        for _ in range(r.randint(2, 8)):
            x = r.random()
            if x < 0.45 and models:
                mid = r.choice(models)
                y = r.random()
                if y < 0.1:
                    ops.append(['call', mid, 'may_trigger', r.choice(events + [to_name(cfg, s) for s in cur] + [UNKNOWN])])
                elif y < 0.3:
                    ops.append(['call', mid, 'trigger', r.choice(events + [to_name(cfg, s) for s in cur] + [UNKNOWN])])
                elif y < 0.75:
                    ops.append(['call', mid, r.choice(events + [to_name(cfg, s) for s in cur]), None])
                else:
                    ops.append(['call', mid, r.choice(names + [UNKNOWN]), None])
            elif x < 0.6:
                ops.append(self.addt(cur, events, all_states))
            elif x < 0.75:
                trig = r.choice(events)
                if self.malformed and r.random() < 0.3:
                    trig = r.choice([UNKNOWN] + [to_name(cfg, s) for s in cur])
                src = r.choice([None, None] + cur) if cur else None
                dst = r.choice([None, None, None] + cur) if cur else None
                ops.append(['rmt', trig, src, dst])
            elif x < 0.87:
                rest = [s for s in all_states if s not in cur]
                new = r.sample(rest, min(len(rest), r.randint(1, 2))) if rest else []
                if self.malformed and cur and r.random() < 0.5:
                    new = new + [r.choice(cur)]
                if cfg['enum']:
                    new = [s for s in new if s not in cur]
                if new:
                    ops.append(['states', new])
                    cur += [s for s in new if s not in cur]
            else:
                if models and r.random() < 0.15:
                    pick = r.choice(models)
                    o = [op[1] for op in ops if op[0] == 'model' and op[1]['id'] == pick][0]
                    ops.append(['model', copy.deepcopy(o), None])      # adding a registered model again
                else:
                    o = self.obj(cfg, names)
                    init = r.choice([None, None] + cur) if cur else None
                    models.append(o['id'])
                    ops.append(['model', o, init])
        # an event named like the state attribute must be rejected, in a history or by the constructor
        if r.random() < 0.2:
            bad = self.addt(cur, [cfg['attr']], all_states)
            if r.random() < 0.25:
                ops.insert(2, bad)
                nctor += 1
            else:
                ops.insert(r.randint(nctor, len(ops)), bad)
        qs = []
        for _ in range(r.randint(4, 8)):
            qs.append([r.choice(['', ''] + events + [to_name(cfg, s) for s in all_states[:2]] + [UNKNOWN]),
                       r.choice(['*', '*'] + all_states + ['']),
                       r.choice(['*', '*', '*'] + all_states)])
        return dict(kind='flat', cfg=cfg, nctor=nctor, ops=ops, queries=qs, malformed=self.malformed)


def gen(rng, i, tier):
    malformed = (i % 8 == 7)
    if i % 4 == 1:
        import c11_hrec
        return c11_hrec.gen(rng, i % 8 == 5)
    if i % 4 == 3:
        try:
            import c11_hsm
            return c11_hsm.gen(rng, malformed)
        except ImportError:
            pass
    return FlatGen(rng, malformed).case()


# ------------------------------------------------------------------ implementation side (flat)
EXN = {'MachineError': 0, 'AttributeError': 1, 'ValueError': 2, 'KeyError': 3, 'TypeError': 4}


def exn_code(e):
    tr = _import_transitions()
    if isinstance(e, tr.MachineError):
        return 0
    for cls, code in ((AttributeError, 1), (ValueError, 2), (KeyError, 3), (TypeError, 4)):
        if isinstance(e, cls):
            return code
    return 9


class PreCallable(object):
    """an attribute the model's instance already carries"""
    def __init__(self, k):
        self.k = k

    def __call__(self, *args, **kwargs):
        return ('pre', self.k)


def make_method(k):
    def user_method(self, *args, **kwargs):
        return ('pre', k)
    user_method.pre_id = k
    return user_method


def falsy_value(k):
    """a defined, falsy, non-None value (a flag, a counter, an empty container)"""
    return [False, 0, '', [], {}, 0.0, ()][k % 7]


class Objects(object):
    """the Python objects of a case's model pool"""
    def __init__(self):
        self.objs = {}
        self.orig = {}

    def get(self, desc):
        if desc['id'] in self.objs:
            return self.objs[desc['id']]
        ns = {}
        orig = {}
        for n, v in desc['cls']:
            if v[0] == 'pre':
                ns[n] = make_method(v[1])
                orig[n] = ('cls', ns[n], v[1])
            elif v[0] == 'own':
                ns[n] = falsy_value(v[1])
                orig[n] = ('own', ns[n], v[1])
            else:
                ns[n] = None
        klass = type('Model%d' % desc['id'], (object,), ns)
        obj = klass()
        for n, v in desc['inst']:
            if v[0] == 'own':
                fv = falsy_value(v[1])
                setattr(obj, n, fv)
                orig[n] = ('own', fv, v[1])
                continue
            pc = PreCallable(v[1])
            setattr(obj, n, pc)
            orig[n] = ('inst', pc, v[1])
        self.objs[desc['id']] = obj
        self.orig[desc['id']] = orig
        return obj


_MISSING = object()


def state_name(v):
    if isinstance(v, enum.Enum):
        return v.name
    return v


def kind_of(objs, mid, model, name, attr):
    v = getattr(model, name, _MISSING)
    if v is _MISSING:
        return [9]
    if v is None:
        return [1]
    o = objs.orig[mid].get(name)
    if o is not None:
        if o[0] == 'cls' and getattr(v, '__func__', None) is o[1]:
            return [0, o[2]]
        if o[0] == 'inst' and v is o[1]:
            return [0, o[2]]
        if o[0] == 'own' and (v is o[1] or (type(v) is type(o[1]) and v == o[1] and not callable(v))):
            return [4, o[2]]
    if name == attr:
        sn = state_name(v)
        return [3, sx_str(sn)] if isinstance(sn, str) else [8]
    if callable(v):
        return [2]
    return [8]


_LOOP = [None]      # the event loop of the case being run (asyncio classes): every call is awaited to completion


def res_of(f, *args, **kwargs):
    try:
        r = f(*args, **kwargs)
        if inspect.isawaitable(r):
            if _LOOP[0] is None:
                _LOOP[0] = asyncio.new_event_loop()
            r = _LOOP[0].run_until_complete(r)
    except Exception as e:    # noqa
        return [1, exn_code(e)]
    if r is True or r is False:
        return [0, r]
    if isinstance(r, tuple) and len(r) == 2 and r[0] == 'pre':
        return [2, r[1]]
    return [7, 0]


class FlatRunner(object):
    def __init__(self, case):
        self.case = case
        self.cfg = case['cfg']
        self.objs = Objects()
        self.models = []          # (id, object) in registration order
        self.members = {}         # state name -> Enum member (enum mode)
        self.enum_n = 0
        self.machine = None

    # -- states as the API wants them
    def st(self, name):
        return self.members.get(name, name)

    def new_states(self, names):
        if not self.cfg['enum']:
            return list(names)
        fresh = [n for n in names if n not in self.members]
        if fresh:
            self.enum_n += 1
            e = enum.Enum('States%d' % self.enum_n, fresh)
            for n in fresh:
                self.members[n] = e[n]
        return [self.members[n] for n in names]

    def trans_kwargs(self, op):
        _, trig, src, dst, ok = op
        source = '*' if src is None else ([self.st(s) for s in src] if len(src) != 1 else self.st(src[0]))
        dest = self.st(dst[1]) if dst[0] == 'n' else ('=' if dst[0] == '=' else None)
        d = dict(trigger=trig, source=source, dest=dest)
        if not ok:
            d['conditions'] = [lambda *a, **k: False]
        return d

    def construct(self):
        tr = _import_transitions()
        ops = self.case['ops'][:self.case['nctor']]
        states, initial, transitions, models = None, None, [], []
        for op in ops:
            if op[0] == 'states':
                states = self.new_states(op[1])
            elif op[0] == 'initial':
                initial = self.st(op[1])
            elif op[0] == 'addt':
                transitions.append(self.trans_kwargs(op))
            elif op[0] == 'model':
                models.append(op[1])
        objs = [self.objs.get(d) for d in models]
        kwargs = dict(model=objs if objs else None, states=states, initial=initial, transitions=transitions,
                      auto_transitions=self.cfg['auto'], model_attribute=self.cfg['attr'],
                      model_override=self.cfg['over'], ignore_invalid_triggers=self.cfg['ignore'])
        if initial == 'initial':
            del kwargs['initial']          # the default
        cname = self.cfg.get('cls', 'Machine')
        import flat
        kwargs.update(flat.class_kwargs(cname))
        # what the machine hands to callbacks: positional and keyword arguments of the call
        self.last = None

        def saw(*a, **k):
            self.last = (a, tuple(sorted(k.items())))
        kwargs['prepare_event'] = [saw]
        self.machine = flat.get_class(cname)(**kwargs)
        for d in models:
            if all(d['id'] != i for i, _ in self.models):
                self.models.append((d['id'], self.objs.get(d)))

    def apply(self, op):
        m = self.machine
        k = op[0]
        try:
            if k == 'states':
                m.add_states(self.new_states(op[1]))
            elif k == 'initial':
                m.initial = self.st(op[1])
            elif k == 'addt':
                m.add_transition(**self.trans_kwargs(op))
            elif k == 'rmt':
                kw = {}
                # names, not Enum members: the flat remove_transition compares t.source with the
                # argument as given (an Enum member never equals the stored name and removes nothing)
                if op[2] is not None:
                    kw['source'] = op[2]
                if op[3] is not None:
                    kw['dest'] = op[3]
                m.remove_transition(op[1], **kw)
            elif k == 'model':
                obj = self.objs.get(op[1])
                if op[2] is None:
                    m.add_model(obj)
                else:
                    m.add_model(obj, initial=self.st(op[2]))
                if obj in m.models and all(op[1]['id'] != i for i, _ in self.models):
                    self.models.append((op[1]['id'], obj))
            elif k == 'call':
                obj = dict(self.models).get(op[1])
                if obj is None:
                    return [1, 3]
                try:
                    f = getattr(obj, op[2])
                except AttributeError:
                    return [2, [1, 1]]
                return [2, res_of(f, *([] if op[3] is None else [op[3]]))]
        except Exception as e:   # noqa
            return [1, exn_code(e)]
        return [0]

    # -- observation
    def cur(self, obj):
        v = getattr(obj, self.cfg['attr'], _MISSING)
        if v is _MISSING:
            return []
        return [sx_str(state_name(v))]

    def call(self, obj, name, *args, **kwargs):
        """call a helper, observe, and put the model back where it was (twin by restoring)"""
        attr = self.cfg['attr']
        saved = getattr(obj, attr, _MISSING)
        try:
            f = getattr(obj, name)
        except AttributeError:
            return [[1, 1], self.cur(obj)]
        r = res_of(f, *args, **kwargs)
        after = self.cur(obj)
        if saved is not _MISSING and getattr(obj, attr, _MISSING) is not saved:
            self.machine.set_state(saved, obj)
        return [r, after]

    def observe_model(self, mid, obj):
        m = self.machine
        cfg = self.cfg
        names = sorted(n for n in dir(obj) if not n.startswith('__') and n not in GRAPH_ATTRS)
        table = [[sx_str(n), kind_of(self.objs, mid, obj, n, cfg['attr'])] for n in names]
        helpers = [[sx_str(n), self.call(obj, n)] for n, (_, kd) in zip(names, table) if kd == [2]]
        evs = list(m.events.keys()) + [UNKNOWN]
        trig = [[sx_str(e), self.call(obj, 'trigger', e), self.call(obj, 'may_trigger', e)] for e in evs]
        # event method with positional and keyword arguments = trigger(name, *args, **kwargs): same result, same end
        # state, and the callbacks receive exactly those arguments; a difference is reported as result code [8, 0]
        kinds = {un_str(n): kd for n, kd in table}
        if kinds.get('trigger') == [2]:
            for row in trig:
                e = un_str(row[0])
                if kinds.get(e) != [2]:
                    continue
                self.last = None
                r1 = self.call(obj, e, 7, amount=3)
                s1 = self.last
                self.last = None
                r2 = self.call(obj, 'trigger', e, 7, amount=3)
                s2 = self.last
                if (r1, s1) != (r2, s2) or (s1 is not None and s1 != ((7,), (('amount', 3),))):
                    row[1] = [[8, 0], row[1][1]]
        iss, tos = [], []
        for s in m.states.keys():
            for fn, out in ((is_name, iss), (to_name, tos)):
                n = fn(cfg, s)
                kd = kind_of(self.objs, mid, obj, n, cfg['attr'])
                out.append([sx_str(s), kd, [self.call(obj, n)] if kd == [2] else []])
        return [mid, self.cur(obj), table, helpers, trig, iss, tos]

    def observe(self):
        m = self.machine
        states = list(m.states.keys())
        # the models first: every helper incl. may_<event>() / may_trigger(e) is called BEFORE the machine is
        # asked for get_triggers / get_transitions (asking may_ must not change the machine's relation)
        models_obs = [self.observe_model(i, o) for i, o in self.models]
        trig = [[sx_str(s), [sx_str(t) for t in m.get_triggers(self.st(s))]] for s in states]
        trig.append([sx_str('*'), [sx_str(t) for t in m.get_triggers(*[self.st(s) for s in states])]])
        trig.append([sx_str(UNKNOWN), [sx_str(t) for t in m.get_triggers(UNKNOWN)]])
        qs = []
        for t, s, d in [['', '*', '*']] + self.case['queries']:
            res = m.get_transitions(t, self.st(s), self.st(d))
            qs.append([[sx_str(x.source), [] if x.dest is None else [sx_str(x.dest)]] for x in res])
        return [[sx_str(s) for s in states], [sx_str(e) for e in m.events.keys()],
                models_obs, trig, qs]

    def run(self):
        if _LOOP[0] is not None:
            _LOOP[0].close()
        _LOOP[0] = asyncio.new_event_loop() if 'Async' in self.cfg.get('cls', 'Machine') else None
        try:
            try:
                self.construct()
            except Exception as e:   # noqa
                return [2, exn_code(e)]
            out = [self.observe()]
            for op in self.case['ops'][self.case['nctor']:]:
                r = self.apply(op)
                out.append([r, self.observe()])
            return [1, out]
        finally:
            if _LOOP[0] is not None:
                _LOOP[0].close()
                _LOOP[0] = None


def impl(case):
    if case['kind'] == 'flat':
        return FlatRunner(case).run()
    if case['kind'] == 'hrec':
        import c11_hrec
        return c11_hrec.impl(case)
    import c11_hsm
    return c11_hsm.impl(case)


# ------------------------------------------------------------------ canonical form
def _canon_model(mo):
    mid, cur, table, helpers, trig, iss, tos = mo
    return [mid, cur, sorted(table), sorted(helpers), trig, iss, tos]


def canon(case, obs):
    if not isinstance(obs, list) or obs[0] not in (1, 3):
        return obs
    if case['kind'] == 'hrec':
        import c11_hrec
        return c11_hrec.canon(case, obs)
    if case['kind'] != 'flat':
        import c11_hsm
        return c11_hsm.canon(case, obs)
    steps = obs[1]

    def cm(mach):
        states, events, models, trig, qs = mach
        return [states, events, [_canon_model(m) for m in models], trig, qs]
    return [1, [cm(steps[0])] + [[r, cm(mach)] for r, mach in steps[1:]]]


# ------------------------------------------------------------------ envelope, known finding, oracle
def _helper_like(n):
    return n.startswith('is_') or n.startswith('to_') or n.startswith('may_') or n in ('trigger',)


def in_envelope(case):
    if case['kind'] == 'hrec':
        return True
    if case['kind'] != 'flat':
        import c11_hsm
        return c11_hsm.in_envelope(case)
    attr = case['cfg']['attr']
    states = set()
    for op in case['ops']:
        if op[0] == 'states':
            if any(s in states for s in op[1]) or len(set(op[1])) != len(op[1]):
                return False
            states.update(op[1])
        elif op[0] == 'initial':
            states.add(op[1])
        elif op[0] == 'addt':
            if _helper_like(op[1]) and op[1] != attr:
                return False
            if op[3][0] == 'n' and op[3][1] not in states:
                return False
        elif op[0] == 'rmt':
            if _helper_like(op[1]):
                return False
        elif op[0] == 'model':
            if any(n == attr for n, _ in op[1]['cls'] + op[1]['inst']):
                return False
            if op[2] is not None and op[2] not in states:
                return False
    return True


def _pre_present(desc):
    """attributes the model defines (hasattr and not None, whatever the truth value) -> their kind code"""
    return {n: ([0, v[1]] if v[0] == 'pre' else [4, v[1]]) for n, v in desc['cls'] + desc['inst'] if v[0] in ('pre', 'own')}


def kf_remove_class(case):
    """KF-C11-1: remove_transition(trigger) where the attribute `trigger` of some model of the case is not
    the machine's own helper in the instance dict (the model defined it itself, or — with model_override —
    did not define it so that no helper was bound)."""
    if case['kind'] == 'hrec':
        import c11_hrec
        return c11_hrec.kf_remove_class(case)
    if case['kind'] != 'flat':
        import c11_hsm
        return c11_hsm.kf_remove_class(case)
    over = case['cfg']['over']
    descs = [op[1] for op in case['ops'] if op[0] == 'model']
    for op in case['ops']:
        if op[0] != 'rmt':
            continue
        for d in descs:
            pres = _pre_present(d)
            if (op[1] in pres) != over:
                return True
    return False


def classify_known(case, model_obs, impl_obs):
    if case['kind'] == 'hrec':
        # the model's answer is "no clause fails": a disagreement is an oracle failure
        import c11_hrec
        if model_obs is not None and isinstance(impl_obs, list) and len(impl_obs) == 3 and model_obs[2] != impl_obs[2]:
            return None        # get_triggers differs from NamingH.get_triggers_h: never a known finding
        return 'KF-C11-1' if c11_hrec.only_kf1_failures(case, impl_obs) else None
    if model_obs is not None:
        return None            # a disagreement between model and implementation is never a known finding
    if case['kind'] == 'flat' and kf_remove_class(case):
        return 'KF-C11-1'
    if case['kind'] != 'flat':
        import c11_hsm
        if c11_hsm.kf_wrapper_class(case):
            return 'KF-C11-2'
    return None


def oracle(case, obs):
    """the clauses of C11 evaluated directly on the implementation's observation (in-envelope cases)"""
    if not isinstance(obs, list) or obs[0] not in (1, 3) or not in_envelope(case):
        return None
    if case['kind'] == 'hrec':
        import c11_hrec
        return c11_hrec.oracle(case, obs)
    if case['kind'] != 'flat':
        import c11_hsm
        return c11_hsm.oracle(case, obs)
    cfg = case['cfg']
    over = cfg['over']
    descs = {op[1]['id']: op[1] for op in case['ops'] if op[0] == 'model'}
    steps = [[None, obs[1][0]]] + obs[1][1:]
    ops = [None] + case['ops'][case['nctor']:]
    for idx, ((res, mach), op) in enumerate(zip(steps, ops)):
        states, events, models, trig, qs = mach
        states = [un_str(s) for s in states]
        events = [un_str(e) for e in events]
        if cfg['attr'] in events:
            return 'step %d: an event is named like the state attribute' % idx
        if op is not None and op[0] == 'addt' and op[1] == cfg['attr'] and res != [1, 2]:
            return 'step %d: add_transition(trigger=model_attribute) was not rejected with ValueError' % idx
        for s in states:
            if cfg['auto'] != (to_name(cfg, s) in events):
                return 'step %d: auto_transitions=%s but event %s %s' % (
                    idx, cfg['auto'], to_name(cfg, s), 'exists' if not cfg['auto'] else 'is missing')
        for mid, cur, table, helpers, trigc, iss, tos in models:
            pres = _pre_present(descs[mid])
            kinds = {un_str(n): k for n, k in table}
            hres = {un_str(n): r for n, r in helpers}
            cur = un_str(cur[0]) if cur else None

            def bound_expected(n):
                return (n in pres) == over
            # pre-existing attributes survive (without override); with override only those are replaced
            for n, k in pres.items():
                if not over and kinds.get(n) != k:
                    return 'step %d model %d: pre-existing attribute %s was overwritten or removed' % (idx, mid, n)
            if over:
                for n, k in kinds.items():
                    if k == [2] and n not in pres:
                        return 'step %d model %d: model_override bound %s although the model did not define it' % (idx, mid, n)
            # exactly one is_ helper answers True: the current state's
            true_ones = []
            for s, kd, call in iss:
                s = un_str(s)
                if (kd == [2]) != bound_expected(is_name(cfg, s)):
                    return 'step %d model %d: is-helper of %s %s' % (idx, mid, s, 'missing' if kd != [2] else 'unexpected')
                if call and call[0][0] == [0, True]:
                    true_ones.append(s)
                elif call and call[0][0] != [0, False]:
                    return 'step %d model %d: is-helper of %s did not answer a bool' % (idx, mid, s)
            want = [cur] if cur in states and bound_expected(is_name(cfg, cur)) else []
            if true_ones != want:
                return 'step %d model %d: is-helpers answering True %r, current state %r' % (idx, mid, true_ones, cur)
            # to_<state> exists iff auto transitions and ends in that state
            for s, kd, call in tos:
                s = un_str(s)
                if cfg['auto']:
                    if (kd == [2]) != bound_expected(to_name(cfg, s)):
                        return 'step %d model %d: to-helper of %s %s' % (idx, mid, s, 'missing' if kd != [2] else 'unexpected')
                    if call and call[0] != [[0, True], [sx_str(s)]]:
                        return 'step %d model %d: %s() did not end in %s' % (idx, mid, to_name(cfg, s), s)
                elif kd == [2] and not over:
                    return 'step %d model %d: to-helper of %s exists without auto transitions' % (idx, mid, s)
            # event method == trigger(name)
            tres = {un_str(e): (t, mt) for e, t, mt in trigc}
            # with model_override an instance attribute replaced by an event helper goes away with the
            # event (remove_transition deletes the helper): the name is then no longer defined by the model
            gone = set(o[1] for o in case['ops'] if o[0] == 'rmt') & set(n for n, _ in descs[mid]['inst']) if over else set()
            for e in events:
                if e in gone:
                    continue
                if (kinds.get(e) == [2]) != bound_expected(e):
                    return 'step %d model %d: event method %s %s' % (idx, mid, e, 'missing' if kinds.get(e) != [2] else 'unexpected')
                if kinds.get(e) == [2] and kinds.get('trigger') == [2] and hres[e] != tres[e][0]:
                    return 'step %d model %d: %s() differs from trigger(%r)' % (idx, mid, e, e)
                if kinds.get('may_' + e) == [2] and kinds.get('may_trigger') == [2] and hres['may_' + e] != tres[e][1]:
                    return 'step %d model %d: may_%s() differs from may_trigger(%r)' % (idx, mid, e, e)
    return None


# ------------------------------------------------------------------ statistics
def nontrivial(case, obs):
    if not isinstance(obs, list) or obs[0] not in (1, 3):
        return False
    if case['kind'] == 'hrec':
        import c11_hrec
        return c11_hrec.nontrivial(case, obs)
    if case['kind'] != 'flat':
        import c11_hsm
        return c11_hsm.nontrivial(case, obs)
    steps = obs[1]
    if not any(mach[2] for mach in [steps[0]] + [s[1] for s in steps[1:]]):
        return False
    descs = [op[1] for op in case['ops'] if op[0] == 'model']
    last = steps[-1][1] if len(steps) > 1 else steps[0]
    for mo in last[2]:
        if any(k[0] in (0, 1, 4) for _, k in mo[2]):
            return True
    prev = steps[0]
    for r, mach in steps[1:]:
        if [m[2] for m in mach[2]] != [m[2] for m in prev[2]] or mach[3] != prev[3]:
            return True
        prev = mach
    return bool(descs) and False


def stats(case, obs, dist):
    def bump(k, n=1):
        dist[k] = dist.get(k, 0) + n
    bump('kind_' + case['kind'])
    if case.get('malformed'):
        bump('malformed')
    if not isinstance(obs, list) or obs[0] not in (1, 3):
        bump('constructor_raised' if isinstance(obs, list) and obs[0] == 2 else 'undecodable')
        return
    if case['kind'] == 'hrec':
        import c11_hrec
        return c11_hrec.stats(case, obs, dist)
    if case['kind'] != 'flat':
        import c11_hsm
        return c11_hsm.stats(case, obs, dist)
    cfg = case['cfg']
    for k in ('auto', 'over', 'ignore', 'enum'):
        if cfg[k]:
            bump('cfg_' + k)
    bump('attr_' + cfg['attr'])
    bump('cls_' + cfg.get('cls', 'Machine'))
    for op, st in zip(case['ops'][case['nctor']:], obs[1][1:]):
        bump('op_' + op[0])
        r = st[0]
        if r[0] == 1:
            bump('op_raised_%d' % r[1])
        if r[0] == 2:
            bump('call_%s' % {0: 'bool', 1: 'raised', 2: 'user'}.get(r[1][0], 'other'))
    last = obs[1][-1][1] if len(obs[1]) > 1 else obs[1][0]
    bump('models_total', len(last[2]))
    bump('states_total', len(last[0]))
    bump('events_total', len(last[1]))
    for mo in last[2]:
        bump('attrs_pre', sum(1 for _, k in mo[2] if k[0] == 0))
        bump('attrs_own_falsy', sum(1 for _, k in mo[2] if k[0] == 4))
        bump('attrs_helper', sum(1 for _, k in mo[2] if k[0] == 2))
    if kf_remove_class(case):
        bump('kf_class_remove_clash')


def shrink_candidates(case):
    if case['kind'] == 'hrec':
        for i in range(len(case['ops']) - 1, -1, -1):
            c = copy.deepcopy(case)
            del c['ops'][i]
            yield c
        for i in range(len(case['root_trans'])):
            c = copy.deepcopy(case)
            del c['root_trans'][i]
            yield c
        return
    if case['kind'] != 'flat':
        return
    n = case['nctor']
    for i in range(len(case['ops']) - 1, n - 1, -1):
        c = copy.deepcopy(case)
        del c['ops'][i]
        yield c
    for i in range(n - 1, 1, -1):
        c = copy.deepcopy(case)
        del c['ops'][i]
        c['nctor'] -= 1
        yield c
    for i, op in enumerate(case['ops']):
        if op[0] == 'model':
            for key in ('cls', 'inst'):
                for j in range(len(op[1][key])):
                    c = copy.deepcopy(case)
                    del c['ops'][i][1][key][j]
                    yield c
    for i in range(len(case['queries'])):
        c = copy.deepcopy(case)
        del c['queries'][i]
        yield c
