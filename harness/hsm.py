"""Hierarchical machines: generation of state trees / transitions, encoding for the Coq model (Hsm.v),
and the implementation runner on the real hierarchical classes."""
import copy
import random
import sys

import flat
from flat import opt, SLOT, World, Token, Model, classify_exc, _import_transitions, enc_env

SEP = '_'
CUR = {'sep': SEP}     # the separator of the case being run (NestedState.separator of a subclass)


# ------------------------------------------------------------------ encoding
def enc_htrans(t):
    return [t['src'], opt(t['dst']), t['prepare'], [[c, bool(tg)] for c, tg in t['conds']], t['before'], t['after']]


def enc_events(evs):
    return [[e, [enc_htrans(t) for t in ts]] for e, ts in evs]


def enc_sdef(d):
    return [d['name'], d['enter'], d['exit'], d['onfinal'], bool(d['final']), opt(d['ignore'], bool), d['initial'],
            enc_events(d['events']), [enc_sdef(c) for c in d['children']]]


def enc_hmachine(m):
    return [[enc_sdef(d) for d in m['states']], enc_events(m['events']),
            m['prepare_event'], m['before_sc'], m['after_sc'], m['finalize'], m['on_exception'], m['on_final'],
            bool(m['ignore']), bool(m['send'])]


def enc_case(case):
    return [enc_hmachine(case['machine']), enc_env(case['env']), case.get('model', 0), case['init'],
            [[k, e, a] for k, e, a in case['history']]]


# ------------------------------------------------------------------ generation
class HGen:
    def __init__(self, rng, max_depth=3, max_children=3, max_top=3, p_parallel=0.3, p_final_compound=0.0,
                 single_scope=True, max_events=3, p_subset=0.0):
        self.r = rng
        self.cb = 0
        self.name = 0
        self.max_depth, self.max_children, self.max_top = max_depth, max_children, max_top
        self.p_parallel = p_parallel
        self.p_final_compound = p_final_compound
        self.single_scope = single_scope
        self.max_events = max_events
        self.p_subset = p_subset      # parallel states whose initial list names a strict subset of the children

    def cbs(self, hi=2, p_empty=0.55):
        if self.r.random() < p_empty:
            return []
        out = []
        for _ in range(self.r.randint(1, hi)):
            self.cb += 1
            out.append(self.cb)
        return out

    def sdef(self, depth):
        r = self.r
        self.name += 1
        name = self.name
        children = []
        if depth < self.max_depth and r.random() < (0.75 if depth == 1 else 0.5):
            for _ in range(r.randint(1, self.max_children)):
                children.append(self.sdef(depth + 1))
        initial = []
        if children:
            x = r.random()
            if len(children) >= 3 and r.random() < self.p_subset:
                initial = [c['name'] for c in r.sample(children, r.randint(2, len(children) - 1))]
                initial.sort(key=lambda n: [c['name'] for c in children].index(n))
            elif len(children) >= 2 and x < self.p_parallel:
                initial = [c['name'] for c in children]
            elif x < 0.92:
                initial = [r.choice(children)['name']]
        final = (r.random() < 0.35) if not children else (r.random() < self.p_final_compound)
        return dict(name=name, enter=self.cbs(), exit=self.cbs(), onfinal=self.cbs(2, 0.5), final=final,
                    ignore=r.choice([None, None, None, True, False]), initial=initial, events=[], children=children)

    def trans(self, paths, scope_len):
        """a transition between two states of one scope; paths are absolute, stored relative"""
        r = self.r
        src = r.choice(paths)
        x = r.random()
        if x < 0.10:
            dst = None
        elif x < 0.22:
            dst = src
        else:
            dst = r.choice(paths)
        conds = []
        for _ in range(r.choice([0, 0, 1, 1, 2])):
            self.cb += 1
            conds.append((self.cb, True))
        for _ in range(r.choice([0, 0, 0, 1])):
            self.cb += 1
            conds.append((self.cb, False))
        return dict(src=src[scope_len:], dst=None if dst is None else dst[scope_len:], prepare=self.cbs(1, 0.7),
                    conds=conds, before=self.cbs(1, 0.7), after=self.cbs(1, 0.7))

    def machine(self):
        r = self.r
        tops = [self.sdef(1) for _ in range(r.randint(1, self.max_top))]
        allp = []

        def walk(d, prefix):
            p = prefix + [d['name']]
            allp.append((p, d))
            for c in d['children']:
                walk(c, p)
        for t in tops:
            walk(t, [])
        ne = r.randint(1, self.max_events)
        events = []
        compounds = [(p, d) for p, d in allp if d['children']]
        for e in range(ne):
            nscopes = 1 if self.single_scope else r.choice([1, 2, 2])
            used = set()
            for _ in range(nscopes):
                if compounds and r.random() < 0.4:
                    p, d = r.choice(compounds)
                    key = tuple(p)
                else:
                    p, d, key = [], None, ()
                if key in used:
                    continue
                used.add(key)
                inside = [q for q, _ in allp if len(q) > len(p) and q[:len(p)] == p]
                ts = [self.trans(inside, len(p)) for _ in range(r.randint(1, 4))]
                if d is None:
                    events.append((e, ts))
                else:
                    d['events'].append((e, ts))
        # merge duplicate event entries at global scope
        ge = {}
        for e, ts in events:
            ge.setdefault(e, []).extend(ts)
        m = dict(states=tops, events=sorted(ge.items()),
                 prepare_event=self.cbs(2, 0.5), before_sc=self.cbs(1, 0.6), after_sc=self.cbs(1, 0.6),
                 finalize=self.cbs(2, 0.4), on_exception=self.cbs(1, 0.65), on_final=self.cbs(2, 0.3),
                 ignore=r.random() < 0.2, send=r.random() < 0.4)
        return m, ne


def gen_case(rng, hist_len=None, may=False, p_enum=0.0, p_sep=0.0, p_queued=0.0, p_reuse=0.0, p_build=0.0, **kw):
    use_enum = rng.random() < p_enum if p_enum else False
    use_reuse = (not use_enum) and p_reuse and rng.random() < p_reuse
    use_sep = rng.choice(['.', '/', '->', '\u21a6']) if (p_sep and rng.random() < p_sep) else None
    use_queued = bool(p_queued and rng.random() < p_queued)
    g = HGen(rng, **kw)
    m, ne = g.machine()
    fg = flat.Gen(rng)
    fg.cb = g.cb
    env = fg.env()
    unless = set()

    def collect(evs):
        for _, ts in evs:
            for t in ts:
                for c, tg in t['conds']:
                    if not tg:
                        unless.add(c)

    def walk(d):
        collect(d['events'])
        for c in d['children']:
            walk(c)
    collect(m['events'])
    for d in m['states']:
        walk(d)
    for c in list(env['bycb']):
        if c in unless:
            ret, ex, acts = env['bycb'][c]
            env['bycb'][c] = (not ret, ex, acts)
    top = rng.choice(m['states'])
    init = [top['name']]
    n = hist_len or rng.randint(1, 6)
    hist = []
    for i in range(n):
        e = rng.randrange(ne) if rng.random() < 0.93 else ne + 2
        k = 0 if not may else rng.choice([0, 1, 1])
        hist.append((k, e, 100 + i))
    out = dict(machine=m, env=env, model=0, init=init, history=hist, cls='HierarchicalMachine')
    if use_enum:
        out['enum'] = 1     # states named by Enum members (member names reused on every level)
    if use_reuse:
        out['enum'] = 2     # plain string names reused on every level and in every branch ('n0', 'n1', ...)
    if use_sep:
        out['sep'] = use_sep    # NestedState.separator of a subclass of the machine's state class
    if use_queued:
        out['queued'] = 1   # queued=True: events of the history go through the queue one by one
    if p_build and not use_enum and rng.random() < p_build:
        # the same machine built through other documented routes (see build_hsm): bit 1 = enter/exit callbacks
        # registered afterwards with machine.on_enter / machine.on_exit; bit 2 = states that enter all their
        # children declared with the 'parallel' key (plus an 'initial' key, which 'parallel' overrides);
        # bit 4 = the states added by add_states(..., ignore_invalid_triggers=<not the machine's flag>) after
        # construction, the model by add_model(initial=...)
        b = rng.choice([1, 2, 3, 4, 4, 5, 6, 7])
        out['build'] = b
        if b & 4:
            top['ignore'] = not m['ignore']
    return out


def initial_active(machine, init):
    """paths active after add_model(initial=init): init and its initial descendants"""
    defs = {tuple(p): d for p, d in all_defs(machine)}
    out, todo = [], [tuple(init)]
    while todo:
        p = todo.pop(0)
        out.append(list(p))
        for n in defs[p]['initial']:
            if p + (n,) in defs:
                todo.append(p + (n,))
    return out


def add_cross_region(case, rng):
    """bias: in an initially active parallel state let two regions declare the same (global) event, the first
    region's transition targeting a state inside the OTHER region (the second region's source has then been left or
    re-entered when its turn comes).  Returns True when the case was changed."""
    m = case['machine']
    defs = {tuple(p): d for p, d in all_defs(m)}
    act = [tuple(p) for p in initial_active(m, case['init'])]
    pars = [p for p in act if len(defs[p]['initial']) >= 2]
    if not pars or not m['events']:
        return False
    pp = rng.choice(pars)
    regs = [pp + (n,) for n in defs[pp]['initial'] if pp + (n,) in defs]
    if len(regs) < 2:
        return False
    def below(r):
        return [p for p in defs if p[:len(r)] == r]

    def leaves(r):
        return [p for p in act if p[:len(r)] == r and not any(q != p and q[:len(p)] == p for q in act)]

    def divergent(r, leaf):
        # a state of region r on another branch than `leaf`: entering it leaves `leaf`
        c = [p for p in below(r) if p[:len(leaf)] != leaf and leaf[:len(p)] != p]
        return rng.choice(c) if c else rng.choice(below(r))
    e, ts = m['events'][0]
    doc = {p: k for k, p in enumerate(defs)}                      # document order
    picks = [(r, rng.choice(leaves(r))) for r in regs if leaves(r)]
    if len(picks) < 2:
        return False
    # the order in which trigger_nested offers the event: deepest level first, document order inside a level
    picks.sort(key=lambda rl: (-len(rl[1]), doc[rl[1]]))
    if rng.random() < 0.5 or len(picks) < 3:
        rng.shuffle(picks)
    (ra, la), (rb, lb) = picks[0], picks[1]
    # la's transition leaves lb (and lb's leaves la: whichever is offered first); every further region declares the
    # event too and must still get its turn after a source that has been left
    extra = [dict(src=list(la), dst=list(divergent(rb, lb)), prepare=[], conds=[], before=[], after=[]),
             dict(src=list(lb), dst=list(divergent(ra, la)), prepare=[], conds=[], before=[], after=[])]
    for rc, lc in picks[2:]:
        extra.append(dict(src=list(lc), dst=list(divergent(rc, lc)), prepare=[], conds=[], before=[], after=[]))
    srcs = [t['src'] for t in extra]
    m['events'][0] = (e, extra + [t for t in ts if t['src'] not in srcs])
    case['history'] = [(k, (e if j % 2 == 0 else ev), a) for j, (k, ev, a) in enumerate(case['history'])] or [(0, e, 100)]
    return True


# ------------------------------------------------------------------ implementation side
def sname(path):
    return CUR['sep'].join('s%d' % n for n in path)


def with_sep(cls, sep):
    """the machine class with a state class whose separator is `sep`"""
    if sep == SEP:
        return cls
    st = type('SepState', (cls.state_cls,), {'separator': sep})
    return type(cls.__name__, (cls,), {'state_cls': st})


def canon_queued(case, obs):
    """a queued machine's trigger answers True whatever happened: the value is masked on both sides"""
    if not case.get('queued') or not isinstance(obs, list) or obs[0] != 1:
        return obs
    return [1, obs[1], [[items, ([0, 'queued'] if res[0] == 0 else res), cfg] for items, res, cfg in obs[2]]]


def forest_of_value(v):
    """model state value (str or nested lists) -> ordered forest [[name, children], ...]"""
    flatl = []

    def fl(x):
        if isinstance(x, (list, tuple)):
            for y in x:
                fl(y)
        else:
            flatl.append(x if isinstance(x, str) else getattr(x, 'name', str(x)))
    fl(v)
    root = []
    for s in flatl:
        cur = root
        for seg in s.split(CUR['sep']):
            try:
                n = int(seg[1:])
            except ValueError:
                n = 999
            for node in cur:
                if node[0] == n:
                    cur = node[1]
                    break
            else:
                node = [n, []]
                cur.append(node)
                cur = node[1]
    return root


def state_forest(model, attr=None):
    # CUR['attr']: the model_attribute of the machine under test (case['attr']; default 'state')
    return forest_of_value(getattr(model, attr or CUR.get('attr', 'state')))


class EnumNames(object):
    """case['enum']: every state is named by an Enum member; each group of siblings is one Enum class and the member
    names are the sibling indexes ('n0', 'n1', ...), so that the same member NAME occurs on every level and in every
    branch (only the Enum classes differ).  Maps id paths <-> members."""

    def __init__(self, machine):
        import enum
        self.member = {}      # tuple(id path) -> Enum member
        self.path_of = {}     # Enum member -> id path

        def group(defs, prefix):
            cls = enum.Enum('E' + ''.join('_%d' % n for n in prefix), {'n%d' % i: i for i in range(len(defs))})
            for i, d in enumerate(defs):
                p = prefix + (d['name'],)
                mem = cls['n%d' % i]
                self.member[p] = mem
                self.path_of[mem] = list(p)
                if d['children']:
                    group(d['children'], p)
        group(machine['states'], ())

    def by_label(self, label):
        if not hasattr(self, '_by_label'):
            self._by_label = {self.label_path(list(p)): list(p) for p in self.member}
        return self._by_label.get(label, [999])

    def label_path(self, path):
        return CUR['sep'].join(self.member[tuple(path[:i + 1])].name for i in range(len(path)))

    def forest(self, v):
        paths = []

        def fl(x):
            if isinstance(x, (list, tuple)):
                for y in x:
                    fl(y)
            elif isinstance(x, str):
                paths.append(self.by_label(x))       # case['enum'] == 2: the member NAMES as plain strings
            else:
                paths.append(self.path_of.get(x, [999]))
        fl(v)
        root = []
        for p in paths:
            cur = root
            for n in p:
                for node in cur:
                    if node[0] == n:
                        cur = node[1]
                        break
                else:
                    node = [n, []]
                    cur.append(node)
                    cur = node[1]
        return root


def build_hsm(case, world, cls, extra_kwargs=None, model=None):
    CUR['sep'] = case.get('sep', SEP)
    CUR['attr'] = case.get('attr', 'state')
    if case.get('attr'):
        extra_kwargs = dict(extra_kwargs or {}, model_attribute=case['attr'])
    cls = with_sep(cls, CUR['sep'])
    if case.get('queued'):
        extra_kwargs = dict(extra_kwargs or {}, queued=True)
    if case.get('enum'):
        return build_hsm_enum(case, world, cls, extra_kwargs, model)
    m = case['machine']
    R = world.recorder

    def tdict(e, t, prefix_len_src=None):
        return dict(trigger='e%d' % e, source=sname(t['src']), dest=None if t['dst'] is None else sname(t['dst']),
                    conditions=[R('cond', c) for c, tg in t['conds'] if tg],
                    unless=[R('unless', c) for c, tg in t['conds'] if not tg],
                    before=[R('before', c) for c in t['before']], after=[R('after', c) for c in t['after']],
                    prepare=[R('prepare', c) for c in t['prepare']])

    variant = case.get('build', 0)
    later = []          # (absolute path, 'enter' | 'exit', callbacks) registered after construction
    call_ignore = (not m['ignore']) if variant & 4 else None

    def sdict(d, prefix=(), top=False):
        path = tuple(prefix) + (d['name'],)
        out = dict(name='s%d' % d['name'], on_final=[R('on_final', c) for c in d['onfinal']],
                   final=d['final'], ignore_invalid_triggers=d['ignore'])
        if variant & 1:
            later.append((path, 'enter', [R('enter', c) for c in d['enter']]))
            later.append((path, 'exit', [R('exit', c) for c in d['exit']]))
        else:
            out.update(on_enter=[R('enter', c) for c in d['enter']], on_exit=[R('exit', c) for c in d['exit']])
        if top and call_ignore is not None and d['ignore'] == call_ignore:
            del out['ignore_invalid_triggers']          # left to the flag of the add_states call
        kids = [sdict(c, path) for c in d['children']]
        names = [c['name'] for c in d['children']]
        if (variant & 2) and len(names) >= 2 and list(d['initial']) == names:
            out['parallel'] = kids
            out['initial'] = 's%d' % names[-1]             # overridden by 'parallel'
        else:
            if kids:
                out['children'] = kids
            if d['initial']:
                out['initial'] = 's%d' % d['initial'][0] if len(d['initial']) == 1 else ['s%d' % i for i in d['initial']]
        if d['events']:
            out['transitions'] = [tdict(e, t) for e, ts in d['events'] for t in ts]
        return out
    model = model if model is not None else (flat.FalsyModel() if case.get('falsy') else Model())
    kw = dict(model=model, states=[sdict(d, (), True) for d in m['states']], initial=sname(case['init']), auto_transitions=False,
              send_event=m['send'], ignore_invalid_triggers=m['ignore'],
              prepare_event=[R('prepare_event', c) for c in m['prepare_event']],
              before_state_change=[R('before_sc', c) for c in m['before_sc']],
              after_state_change=[R('after_sc', c) for c in m['after_sc']],
              finalize_event=[R('finalize', c) for c in m['finalize']],
              on_exception=[R('on_exception', c) for c in m['on_exception']],
              on_final=[R('on_final', c) for c in m['on_final']])
    if extra_kwargs:
        kw.update(extra_kwargs)
    if call_ignore is not None:
        states = kw.pop('states')
        init = kw.pop('initial')
        kw['model'] = None
        kw['initial'] = None
        machine = cls(**kw)
        machine.add_states(states, ignore_invalid_triggers=call_ignore)
        machine.add_model(model, initial=init)
    else:
        machine = cls(**kw)
    for path, what, cbs in later:
        for cb in cbs:
            (machine.on_enter if what == 'enter' else machine.on_exit)(sname(list(path)), cb)
    late = case.get('late_event')        # (k, e): the global transitions of event e are added after the k-th call
    held = []
    for e, ts in m['events']:
        for t in ts:
            if late is not None and e == late[1]:
                held.append((e, t))
            else:
                machine.add_transition(**tdict(e, t))

    def add_late():
        for e, t in held:
            machine.add_transition(**tdict(e, t))
    world.add_late = add_late        # (kept on the recording world, not on the machine: machines must stay picklable)
    return machine, model


def build_hsm_enum(case, world, cls, extra_kwargs=None, model=None):
    """the same machine with Enum-named states; transitions name their source / destination alternately by Enum
    member and by the string path of member names"""
    m = case['machine']
    R = world.recorder
    names = EnumNames(m)
    world.state_of = lambda mod: names.forest(getattr(mod, CUR.get('attr', 'state')))
    world.enum_names = names
    cnt = [0]
    plain = case.get('enum') == 2      # the same names ('n0', 'n1', ... reused on every level) as plain strings

    class _Names(dict):
        def __getitem__(self, k):
            mem = dict.__getitem__(self, k)
            return mem.name if plain else mem
    member = _Names(names.member)

    def ref(scope, rel):
        """a state reference inside `scope` (id path): Enum member or string path, alternating"""
        cnt[0] += 1
        full = tuple(scope) + tuple(rel)
        if cnt[0] % 2 and not plain:
            return names.member[full]
        return CUR['sep'].join(names.member[full[:i + 1]].name for i in range(len(scope), len(full)))

    def tdict(e, t, scope):
        return dict(trigger='e%d' % e, source=ref(scope, t['src']), dest=None if t['dst'] is None else ref(scope, t['dst']),
                    conditions=[R('cond', c) for c, tg in t['conds'] if tg],
                    unless=[R('unless', c) for c, tg in t['conds'] if not tg],
                    before=[R('before', c) for c in t['before']], after=[R('after', c) for c in t['after']],
                    prepare=[R('prepare', c) for c in t['prepare']])

    def sdict(d, prefix):
        p = prefix + (d['name'],)
        out = dict(name=member[p], on_enter=[R('enter', c) for c in d['enter']],
                   on_exit=[R('exit', c) for c in d['exit']], on_final=[R('on_final', c) for c in d['onfinal']],
                   final=d['final'], ignore_invalid_triggers=d['ignore'])
        if d['children']:
            out['children'] = [sdict(c, p) for c in d['children']]
        if d['initial']:
            ini = [member[p + (i,)] for i in d['initial']]
            out['initial'] = ini[0] if len(ini) == 1 else ini
        if d['events']:
            out['transitions'] = [tdict(e, t, p) for e, ts in d['events'] for t in ts]
        return out
    model = model if model is not None else (flat.FalsyModel() if case.get('falsy') else Model())
    kw = dict(model=model, states=[sdict(d, ()) for d in m['states']], initial=(names.label_path(case['init']) if plain else names.member[tuple(case['init'])]),
              auto_transitions=False, send_event=m['send'], ignore_invalid_triggers=m['ignore'],
              prepare_event=[R('prepare_event', c) for c in m['prepare_event']],
              before_state_change=[R('before_sc', c) for c in m['before_sc']],
              after_state_change=[R('after_sc', c) for c in m['after_sc']],
              finalize_event=[R('finalize', c) for c in m['finalize']],
              on_exception=[R('on_exception', c) for c in m['on_exception']],
              on_final=[R('on_final', c) for c in m['on_final']])
    if extra_kwargs:
        kw.update(extra_kwargs)
    machine = cls(**kw)
    for e, ts in m['events']:
        for t in ts:
            machine.add_transition(**tdict(e, t, ()))
    return machine, model


def impl_hsm(case):
    world = World(case['env'], case['machine']['send'])
    world.state_of = state_forest
    world.perform = lambda a: None
    cname = case.get('cls', 'HierarchicalMachine')
    machine, model = build_hsm(case, world, flat.get_class(cname), extra_kwargs=flat.class_kwargs(cname))
    world.model_ids[id(model)] = case.get('model', 0)
    world.current_model = model
    init_cfg = world.state_of(model)
    out = []
    for j, (k, e, a) in enumerate(case['history']):
        if case.get('late_event') is not None and j == case['late_event'][0]:
            world.add_late()       # the machine is reconfigured after events have been processed
        tok = Token(a)
        world.items = []
        name = 'e%d' % e
        world.expected_event = {a: name}
        try:
            if k == 1:
                r = model.may_trigger(name, tok, k=tok)
            else:
                r = model.trigger(name, tok, k=tok)
            res = [0, bool(r)]
        except BaseException as ex:  # noqa
            res = [1, classify_exc(ex)]
        out.append([world.items, res, world.state_of(model)])
    return [1, init_cfg, out]


# ------------------------------------------------------------------ helpers on cases
def all_defs(machine):
    out = []

    def walk(d, prefix):
        p = prefix + [d['name']]
        out.append((p, d))
        for c in d['children']:
            walk(c, p)
    for t in machine['states']:
        walk(t, [])
    return out


def event_scopes(machine):
    """event -> list of scopes (paths) declaring it"""
    sc = {}
    for e, _ in machine['events']:
        sc.setdefault(e, []).append(())
    for p, d in all_defs(machine):
        for e, _ in d['events']:
            sc.setdefault(e, []).append(tuple(p))
    return sc


def forest_nodes(f, prefix=()):
    out = []
    for n, ch in f:
        p = prefix + (n,)
        out.append(p)
        out.extend(forest_nodes(ch, p))
    return out


# ------------------------------------------------------------------ shared streams for C04 / C12 on hierarchical machines
def mask_handled(case, obs):
    """after an exception swallowed by on_exception handlers a hierarchical trigger returns event_data.result as it
    was last assigned (possibly True when an earlier region executed); the model returns False.  C04 only says 'the
    trigger returns normally', so the value is masked on both sides."""
    if not isinstance(obs, list) or obs[0] != 1:
        return obs
    out = []
    for items, res, cfg in obs[2]:
        if res[0] == 0 and any(it[0] == 12 for it in items):
            res = [0, 'handled']
        out.append([items, res, cfg])
    return [1, obs[1], out]


def run_pairs(cases):
    """model and implementation observations of hierarchical cases"""
    import framework as F
    mo = F.run_model(3, [enc_case(c) for c in cases])
    io = F.run_impl('hsm', 'impl_hsm', cases)
    return mo, io


# ------------------------------------------------------------------ HierarchicalAsyncMachine with suspending callbacks
def trim_lists(case):
    """at most one callback per list and one check per transition: then the gathered stages of the async engine
    cannot reorder anything and the synchronous model predicts the exact completion order"""
    m = case['machine']

    def trim_ts(evs):
        for e, ts in evs:
            for t in ts:
                for key in ('prepare', 'before', 'after'):
                    t[key] = t[key][:1]
                t['conds'] = t['conds'][:1]
    trim_ts(m['events'])
    for key in ('prepare_event', 'before_sc', 'after_sc', 'finalize', 'on_exception', 'on_final'):
        m[key] = m[key][:1]
    for p, d in all_defs(m):
        for key in ('enter', 'exit', 'onfinal'):
            d[key] = d[key][:1]
        trim_ts(d['events'])
    return case


def impl_hsm_async(case):
    """HierarchicalAsyncMachine; every callback is a coroutine that suspends (cb % 3) times and only then logs
    itself and answers: the observed order is the COMPLETION order of the callbacks"""
    import asyncio
    world = World(case['env'], case['machine']['send'])
    world.state_of = state_forest
    pending = []
    world.perform = lambda a: pending.append(a)
    base = world.recorder
    holder = {}

    def arecorder(slot, cb, model_of_call=None):
        inner = base(slot, cb, model_of_call)

        async def rec(*args, **kwargs):
            for _ in range(cb % 3):
                await asyncio.sleep(0)
            del pending[:]
            try:
                r = inner(*args, **kwargs)
            finally:
                todo = list(pending)
                del pending[:]
            for a in todo:               # actions: events awaited from inside the callback
                if a[0] == 0:
                    tok = Token(3000 + world.pos)
                    await holder['model'].trigger('e%d' % a[2], tok, k=tok)
            return r
        rec.__name__ = inner.__name__
        return rec
    world.recorder = arecorder
    cname = case.get('cls', 'HierarchicalAsyncMachine')
    machine, model = build_hsm(case, world, flat.get_class(cname), extra_kwargs=flat.class_kwargs(cname))
    world.model_ids[id(model)] = case.get('model', 0)
    world.current_model = model
    holder['model'] = model
    init_cfg = world.state_of(model)
    out = []

    async def run():
        for k, e, a in case['history']:
            tok = Token(a)
            world.items = []
            name = 'e%d' % e
            world.expected_event = {a: name}
            try:
                if k == 1:
                    r = await model.may_trigger(name, tok, k=tok)
                else:
                    r = await model.trigger(name, tok, k=tok)
                res = [0, bool(r)]
            except BaseException as ex:  # noqa
                res = [1, classify_exc(ex)]
            out.append([world.items, res, world.state_of(model)])
    asyncio.run(run())
    return [1, init_cfg, out]


def async_stream(tag, seed, n, **genkw):
    """model (synchronous Hsm engine) vs HierarchicalAsyncMachine / HierarchicalAsyncGraphMachine with suspending
    callbacks; returns (cases, disagreements)"""
    import framework as F
    cases = []
    for i in range(n):
        rng = random.Random('%s-%d-%d' % (tag, seed, i))
        c = gen_case(rng, p_enum=0.15, p_sep=0.15, **dict(genkw, p_parallel=(0.8 if i % 3 == 1 else genkw.get('p_parallel', 0.3))))
        if i % 3 == 1:
            add_cross_region(c, rng)       # the asyncio copy of the 'still active?' re-check
        c = trim_lists(c)
        c['history'] = [(0, e, a) for (k, e, a) in c['history']]
        c['env'] = dict(default=c['env']['default'], bypos={p: r for p, r in c['env']['bypos'].items() if r[1] is None},
                        bycb={k: r for k, r in c['env']['bycb'].items() if r[1] is None})
        c['cls'] = ['HierarchicalAsyncMachine', 'HierarchicalAsyncGraphMachine'][i % 2]
        cases.append(c)
    mo = F.run_model(3, [enc_case(c) for c in cases])
    io = F.run_impl('hsm', 'impl_hsm_async', cases)
    bad = [(c, m, i) for c, m, i in zip(cases, mo, io) if m != i]
    return cases, bad


def async_nested_stream(tag, seed, n, **genkw):
    """HierarchicalAsyncMachine, unqueued: on_enter / on_exit callbacks (coroutines, suspended a few times) await an
    event of the same model whose only transitions are internal ones (dest=None, one `after` marker).  Such an event
    changes nothing, so - markers removed - the observable run must be the run of the twin case without those
    actions, which the synchronous Coq engine computes.  Returns (cases, disagreements, marker_count)."""
    import framework as F
    MARK = 7777
    cases, twins = [], []
    for i in range(n):
        rng = random.Random('%s-%d-%d' % (tag, seed, i))
        c = trim_lists(gen_case(rng, p_enum=0.15, **genkw))
        m = c['machine']
        for key in ('prepare_event', 'before_sc', 'after_sc', 'finalize', 'on_exception'):
            m[key] = []
        k = [0]
        cands = []
        for p, d in all_defs(m):
            for key in ('enter', 'exit'):
                if not d[key]:
                    k[0] += 1
                    d[key] = [6000 + k[0]]
                if d['children'] or rng.random() < 0.3:
                    cands.append(d[key][0])
        m['events'] = list(m['events']) + [(40, [dict(src=[d['name']], dst=None, prepare=[], conds=[], before=[], after=[MARK])
                                                 for d in m['states']])]
        c['history'] = [(0, e, a) for (kk, e, a) in c['history']]
        c['env'] = dict(default=c['env']['default'], bypos={},
                        bycb={kk: (r[0], None, []) for kk, r in c['env']['bycb'].items() if r[1] is None})
        c['cls'] = ['HierarchicalAsyncMachine', 'HierarchicalAsyncGraphMachine'][i % 2]
        twin = copy.deepcopy(c)
        for cb in rng.sample(cands, min(len(cands), rng.randint(1, 3))):
            r = c['env']['bycb'].get(cb, (c['env']['default'], None, []))
            c['env']['bycb'][cb] = (r[0], None, [(0, 0, 40)])
        cases.append(c)
        twins.append(twin)
    mo = F.run_model(3, [enc_case(c) for c in twins])
    io = F.run_impl('hsm', 'impl_hsm_async', cases)
    marks = [0]

    def strip(o):
        if not isinstance(o, list) or o[0] != 1:
            return o
        out = []
        for items, res, cfg in o[2]:
            marks[0] += sum(1 for it in items if it[1] == MARK)
            out.append([[it[:7] + [[]] for it in items if it[1] != MARK], res, cfg])
        return [o[0], o[1], out]
    bad = []
    for c, mm, ii in zip(cases, mo, io):
        a, b = strip(mm), strip(ii)
        if a != b:
            bad.append((c, a, b))
    return cases, bad, marks[0]


# ------------------------------------------------------------------ unqueued machines whose callbacks trigger events
def impl_hsm_reent(case):
    """impl_hsm where a callback's actions are performed: model.trigger(event) from inside the callback (processed at
    once on an unqueued machine), payload 2000 + 8 * position + k as in the re-entrant engines"""
    flat.STALE_SCOPE_AS_VALUEERROR[0] = True
    world = World(case['env'], case['machine']['send'])
    world.state_of = state_forest
    cname = case.get('cls', 'HierarchicalMachine')
    machine, model = build_hsm(case, world, flat.get_class(cname), extra_kwargs=flat.class_kwargs(cname))
    world.model_ids[id(model)] = case.get('model', 0)
    world.current_model = model

    def perform(a):
        if a[0] == 0:
            tok = Token(2000 + 8 * world.cur_pos + world.cur_k)
            model.trigger('e%d' % a[2], tok, k=tok)
    world.perform = perform
    init_cfg = world.state_of(model)
    out = []
    for e, a in case['history']:
        tok = Token(a)
        world.items = []
        try:
            r = model.trigger('e%d' % e, tok, k=tok)
            res = [0, bool(r)]
        except BaseException as ex:  # noqa
            res = [1, classify_exc(ex)]
        out.append([world.items, res, world.state_of(model)])
    return [1, init_cfg, out]


def reent_stream(tag, seed, n, **genkw):
    """unqueued hierarchical machines whose callbacks (any stage: conditions, before, exit, enter, on_final, after,
    finalize ...) trigger further events of the same model at 1-3 positions of the history; against HReent.v.
    Returns (cases, disagreements, nested_calls)"""
    import framework as F
    cases = []
    for i in range(n):
        rng = random.Random('%s-%d-%d' % (tag, seed, i))
        c = gen_case(rng, **genkw)
        evs = sorted({e for e, _ in c['machine']['events']} | {e for _, d in all_defs(c['machine']) for e, _ in d['events']}) or [0]
        bypos = {p: (r[0], r[1], []) for p, r in c['env']['bypos'].items()}
        for _ in range(rng.randint(1, 3)):
            p = rng.randint(0, 14)
            ret = bypos.get(p, (rng.random() < 0.7, None, []))[0]
            bypos[p] = (ret, None, [(0, 0, rng.choice(evs)) for _ in range(rng.randint(1, 2))])
        c['env'] = dict(default=c['env']['default'], bypos=bypos, bycb={k: (r[0], r[1], []) for k, r in c['env']['bycb'].items()})
        c['history'] = [(e, a) for (k, e, a) in c['history'] if e < 50]
        c['cls'] = ['HierarchicalMachine', 'LockedHierarchicalMachine', 'HierarchicalGraphMachine'][i % 3]
        c.pop('queued', None)
        cases.append(c)
    enc = [[enc_hmachine(c['machine']), enc_env(c['env']), 0, c['init'], [[e, a] for e, a in c['history']]] for c in cases]
    mo = F.run_model(19, enc)
    io = F.run_impl('hsm', 'impl_hsm_reent', cases)
    bad = []
    nested = 0
    for c, m, i in zip(cases, mo, io):
        hc = dict(c, history=[(0, e, a) for e, a in c['history']])
        mm, ii = mask_handled(hc, m), mask_handled(hc, i)
        if isinstance(mm, list) and mm[0] == 1:
            nested += sum(1 for st in mm[2] for it in st[0] if it[4][1] >= 2000)
            if any(st[1] == [1, [4, 99]] for st in mm[2]):
                continue                  # out of fuel in the model (deeper than 12 levels): not compared
        if mm != ii:
            bad.append((c, mm, ii))
    return cases, bad, nested
# ------------------------------------------------------------------ systematic (scope, source, destination) sweep
def _shape(spec, counter):
    """spec: (kind, [children]) with kind in 'x' (exclusive, first child initial), 'n' (compound without initial),
    'p' (parallel: every child initial), 'l' (leaf)"""
    kind, kids = spec
    counter[0] += 1
    name = counter[0]
    children = [_shape(k, counter) for k in kids]
    if kind == 'p':
        initial = [c['name'] for c in children]
    elif kind == 'x' and children:
        initial = [children[0]['name']]
    else:
        initial = []
    return dict(name=name, enter=[1000 + name], exit=[2000 + name], onfinal=[], final=False, ignore=None,
                initial=initial, events=[], children=children)


L = ('l', [])
SHAPES = [
    [('x', [L, L]), L],
    [('p', [('x', [L, L]), ('x', [L, L])]), L],
    [('p', [('p', [('x', [L, L]), ('x', [L])]), ('x', [L, L])]), L],
    [('n', [('x', [L, L]), L]), L],
    [('p', [('x', [L, L]), ('x', [L, L]), ('x', [L])]), ('x', [L])],
    [('x', [('p', [('x', [L, L]), L]), ('n', [L, L])]), ('x', [('x', [L])])],
]


def systematic_cases():
    """every (setup state, source, destination or internal, declaring scope) combination on a catalogue of state
    trees (exclusive, initial-less, parallel, parallel inside parallel, three regions): one global setup transition
    from the initial top state to the setup state, then the transition under test - declared globally and, when a
    compound contains both ends, inside that compound"""
    import copy
    out = []
    for si, spec in enumerate(SHAPES):
        counter = [0]
        tops = [_shape(s, counter) for s in spec]
        base = dict(states=tops, events=[], prepare_event=[], before_sc=[], after_sc=[], finalize=[], on_exception=[],
                    on_final=[], ignore=False, send=False)
        paths = [p for p, _ in all_defs(base)]
        init = [tops[0]['name']]
        for setup in [None] + paths:
            for src in paths:
                for dst in [None] + paths:
                    scopes = [[]]
                    k = 0
                    while dst is not None and k < min(len(src), len(dst)) - 1 and src[k] == dst[k]:
                        k += 1
                    if dst is None:
                        k = len(src) - 1
                    if k >= 1:
                        scopes.append(src[:k])
                    for sc in scopes:
                        m = copy.deepcopy(base)
                        t = dict(src=src[len(sc):], dst=None if dst is None else dst[len(sc):], prepare=[], conds=[],
                                 before=[3000], after=[3001])
                        if sc:
                            d = dict((tuple(p), dd) for p, dd in all_defs(m))[tuple(sc)]
                            d['events'].append((0, [t]))
                        else:
                            m['events'].append((0, [t]))
                        hist = [(0, 0, 101)]
                        if setup is not None:
                            m['events'].append((1, [dict(src=init, dst=setup, prepare=[], conds=[], before=[], after=[])]))
                            hist = [(0, 1, 100), (0, 0, 101), (0, 0, 102)]
                        m['events'].sort()
                        out.append(dict(machine=m, env=dict(default=True, bypos={}, bycb={}), model=0, init=init,
                                        history=hist, cls='HierarchicalMachine', shape=si))
    return out
