"""C11, hierarchical part: names of nested states, is_<state> helpers (with '_' and with custom
separators through FunctionWrapper paths), is_state with allow_substates on configurations set with
set_state, to_<state> helpers, clashes with attributes the model defines itself; plus an oracle-only
check of HierarchicalMachine.get_triggers / get_transitions (parent delegation) against each other."""
import copy
import enum

from flat import _import_transitions

UNKNOWN = 'zz_unknown'
import os
# get_triggers(<nested State object>) resolves the object by its local name on the unrepaired library (round-8
# report (ii)); switch on once repaired
STATE_OBJECTS = os.environ.get('VERIF_C11_STATEOBJ', '1') == '1'      # default on since /repo fix D55
SEGS = ['A', 'B', 'C', 'P', 'x', 'y', '1', '2', 'u']


def sx_str(s):
    return [ord(ch) for ch in s]


def un_str(l):
    return ''.join(chr(x) for x in l)


# ------------------------------------------------------------------ generation
def gen_tree(r, depth, used):
    out = []
    for _ in range(r.randint(1, 3)):
        cand = [s for s in SEGS if s not in used and (depth > 0 or not s[0].isdigit())]
        if not cand:
            break
        n = r.choice(cand)
        # names that are string prefixes of a sibling ('A' / 'A0', 'x' / 'xB'): a name prefix is not an ancestor
        ext = [u + sfx for u in sorted(used) for sfx in ('0', 'B', 'x') if u + sfx not in used]
        if ext and r.random() < 0.4:
            n = r.choice(ext)
        used = used | {n}
        kids = gen_tree(r, depth + 1, set()) if depth < 2 and r.random() < 0.45 else []
        out.append([n, kids])
    return out


def paths_of(forest, pre=()):
    out = []
    for n, kids in forest:
        out.append(list(pre) + [n])
        out += paths_of(kids, tuple(pre) + (n,))
    return out


def leaves_of(forest, pre=()):
    out = []
    for n, kids in forest:
        if kids:
            out += leaves_of(kids, tuple(pre) + (n,))
        else:
            out.append(list(pre) + [n])
    return out


def gen_enum_tree(r, depth):
    """Enum mode: every group of siblings uses the member names A, B, C (one Enum class per group), so the
    same member name occurs on every level and in every branch"""
    out = []
    n = r.randint(2, 3)
    for i in range(n):
        kids = gen_enum_tree(r, depth + 1) if depth < 2 and r.random() < (0.6 if depth == 0 else 0.35) else []
        out.append(['ABC'[i], kids])
    if depth == 0 and not any(k for _, k in out):
        out[-1][1] = gen_enum_tree(r, 1)
    return out


def gen(rng, malformed):
    r = rng
    sep = r.choice(['_', '_', '.', '/'])
    enum_mode = r.random() < 0.4
    cfg = dict(sep=sep, auto=r.random() < 0.7, over=(sep == '_' and r.random() < 0.25), enum=enum_mode)
    forest = gen_enum_tree(r, 0) if enum_mode else gen_tree(r, 0, set())
    paths = paths_of(forest)
    leaves = leaves_of(forest)
    names = []
    for p in paths:
        names += ['is_' + '_'.join(p), 'to_' + '_'.join(p)]
    names += ['foo', 'trigger', 'to']
    if sep != '_' and not malformed:
        # in-envelope: the model does not define is_<top> / to_<top> itself (KF-C11-2 otherwise)
        names = [n for n in names if not any(n in ('is_' + t[0], 'to_' + t[0]) for t in forest)]
    ops = []
    mids = []
    pre = 0
    for _ in range(r.randint(2, 7)):
        if not mids or r.random() < 0.3:
            mid = len(mids) + 1
            cls, inst = [], []
            if r.random() < 0.7:
                for n in r.sample(names, min(len(names), r.randint(1, 3))):
                    pre += 1
                    x = r.random()
                    if x < 0.45:
                        cls.append([n, ['pre', pre]])
                    elif x < 0.6:
                        cls.append([n, ['own', pre]])
                    elif x < 0.75:
                        cls.append([n, ['none']])
                    elif x < 0.9:
                        inst.append([n, ['pre', pre]])
                    else:
                        inst.append([n, ['own', pre]])
            mids.append(mid)
            ops.append(['model', dict(id=mid, cls=cls, inst=inst), r.choice(leaves)])
        else:
            k = 1 if r.random() < 0.7 else 2
            act = r.sample(leaves, min(len(leaves), k))
            if r.random() < 0.25:
                act = [r.choice(paths)]            # an inner state set directly
            ops.append(['set', r.choice(mids), act])
    trans = []
    evs = ['go', 'up', 'inner']
    for _ in range(r.randint(0, 4)):
        trans.append([r.choice(evs), sep.join(r.choice(paths)), sep.join(r.choice(paths))])
    return dict(kind='nested', cfg=cfg, forest=forest, ops=ops, transitions=trans, malformed=malformed)


def enc_tree(t):
    return [sx_str(t[0]), [enc_tree(k) for k in t[1]]]


def enc_obj(o):
    def ev(v):
        return [0, v[1]] if v[0] == 'pre' else ([4, v[1]] if v[0] == 'own' else [1])
    return [o['id'], [[sx_str(n), ev(v)] for n, v in o['cls']], [[sx_str(n), ev(v)] for n, v in o['inst']]]


def wrapper_clash(case, desc):
    """add_model raises: custom separator and the model defines is_<top> / to_<top> itself"""
    cfg = case['cfg']
    if cfg['sep'] == '_':
        return False
    names = set(n for n, _ in desc['cls'] + desc['inst'])
    return any('is_' + t[0] in names or (cfg['auto'] and 'to_' + t[0] in names) for t in case['forest'])


EVENT_IDS = {'go': 0, 'up': 1, 'inner': 2}


def seg_ids(case):
    segs = sorted(set(x for p in paths_of(case['forest']) for x in p))
    return {n: i for i, n in enumerate(segs)}


def configs_of(case):
    """the state value (list of active paths) of every registered model after every operation"""
    models = []
    out = []
    for op in case['ops']:
        if op[0] == 'model':
            if all(m[0] != op[1]['id'] for m in models) and not wrapper_clash(case, op[1]):
                models.append([op[1]['id'], [op[2]]])
        else:
            for m in models:
                if m[0] == op[1]:
                    m[1] = op[2]
        out.append([list(m[1]) for m in models])
    return out


def h_machine_sx(defs, root_events):
    """an hmachine in the format of HsmIO.v; defs = [(id, local events, child defs)], events = [(eid, [(src, dst)])]"""
    def ev(evs):
        return [[e, [[list(s), [] if d is None else [list(d)], [], [], [], []] for s, d in ts]] for e, ts in evs]

    def sd(d):
        n, evs, kids = d
        return [n, [], [], [], False, [], [], ev(evs), [sd(k) for k in kids]]
    return [[sd(d) for d in defs], ev(root_events), [], [], [], [], [], [], False, False]


def group_events(triples):
    """[(eid, src, dst)] -> [(eid, [(src, dst)])] in first-occurrence order"""
    out = []
    for e, s, d in triples:
        for item in out:
            if item[0] == e:
                item[1].append((s, d))
                break
        else:
            out.append([e, [(s, d)]])
    return out


def enc_h(case):
    ids = seg_ids(case)
    sep = case['cfg']['sep']

    def pid(p):
        return [ids[x] for x in p]

    def defs(forest):
        return [(ids[n], [], defs(kids)) for n, kids in forest]
    root = group_events([(EVENT_IDS[t], pid(src.split(sep)), pid(dst.split(sep))) for t, src, dst in case['transitions']])
    configs = [[pid(p) for p in cfgm] for step in configs_of(case) for cfgm in step]
    return [h_machine_sx(defs(case['forest']), root), [pid(p) for p in paths_of(case['forest'])], configs]


def enc(case):
    c = case['cfg']
    ops = []
    for op in case['ops']:
        if op[0] == 'model':
            ops.append([0, enc_obj(op[1]), [sx_str(s) for s in op[2]]])
        else:
            ops.append([1, op[1], [[sx_str(s) for s in p] for p in op[2]]])
    return [3, [[sx_str(c['sep']), bool(c['auto']), bool(c['over'])], [enc_tree(t) for t in case['forest']], ops],
            enc_h(case)]


# ------------------------------------------------------------------ implementation
def to_states_arg(forest, rec=None, prefix=()):
    """states argument; with rec every state gets recording on_enter / on_exit callbacks"""
    out = []
    for n, kids in forest:
        p = prefix + (n,)
        if rec is None:
            out.append({'name': n, 'children': to_states_arg(kids)} if kids else n)
            continue
        d = {'name': n, 'on_enter': [rec('enter', p)], 'on_exit': [rec('exit', p)]}
        if kids:
            d['children'] = to_states_arg(kids, rec, p)
        out.append(d)
    return out


class EnumTree(object):
    """Enum mode: one Enum class per group of siblings, members named like the segments (the same member
    names on every level); maps paths <-> members"""
    def __init__(self, forest):
        self.member = {}
        self.path_of = {}

        def group(nodes, prefix):
            cls = enum.Enum('E' + ''.join('_' + x for x in prefix), [n for n, _ in nodes])
            for n, kids in nodes:
                p = prefix + (n,)
                self.member[p] = cls[n]
                self.path_of[cls[n]] = list(p)
                if kids:
                    group(kids, p)
        group(forest, ())

    def states_arg(self, forest, prefix=(), rec=None):
        out = []
        for n, kids in forest:
            p = prefix + (n,)
            d = {'name': self.member[p]}
            if rec is not None:
                d['on_enter'] = [rec('enter', p)]
                d['on_exit'] = [rec('exit', p)]
            if kids:
                d['children'] = self.states_arg(kids, p, rec)
            out.append(d)
        return out


_MISSING = object()


def impl(case):
    import c11
    tr = _import_transitions()
    from transitions.extensions.nesting import HierarchicalMachine, NestedState
    cfg = case['cfg']
    sep = cfg['sep']
    en = EnumTree(case['forest']) if cfg.get('enum') else None

    class NS(NestedState):
        separator = sep

    class HM(HierarchicalMachine):
        state_cls = NS

    cnt = [0]

    def ref(path_or_name):
        """a state reference for the API: in Enum mode alternately the member and the string path"""
        p = path_or_name.split(sep) if isinstance(path_or_name, str) else list(path_or_name)
        if en is None:
            return sep.join(p)
        cnt[0] += 1
        return en.member[tuple(p)] if cnt[0] % 3 else sep.join(p)

    def member(p):
        return sep.join(p) if en is None else en.member[tuple(p)]

    def names_of(v):
        """the model's state as sorted list of path names"""
        if isinstance(v, (list, tuple)):
            return sorted(x for y in v for x in names_of(y))
        if isinstance(v, enum.Enum):
            return [sep.join(en.path_of[v])] if en is not None and v in en.path_of else ['?' + v.name]
        return [v]

    paths = paths_of(case['forest'])
    trace = []

    seen = []      # what the callbacks see in the EventData (send_event=True)

    def rec(kind, p):
        def cb(event_data):
            trace.append((kind, p))
            tr_ = event_data.transition
            seen.append((getattr(event_data, 'source_name', None), getattr(event_data, 'source_path', None),
                         getattr(tr_, 'source', None), getattr(tr_, 'dest', None)))
        return cb
    machine = HM(model=None, states=en.states_arg(case['forest'], (), rec) if en else to_states_arg(case['forest'], rec),
                 initial=sep.join(leaves_of(case['forest'])[0]),
                 transitions=[[t, ref(src), ref(dst)] for t, src, dst in case['transitions']],
                 auto_transitions=cfg['auto'], model_override=cfg['over'], send_event=True)
    objs = c11.Objects()
    models = []

    def resolve(model, mid, prefix, p):
        if sep == '_':
            name = prefix + '_'.join(p)
            return c11.kind_of(objs, mid, model, name, 'state'), getattr(model, name, None)
        name = prefix + p[0]
        kd = c11.kind_of(objs, mid, model, name, 'state')
        if len(p) == 1 or kd != [2]:
            return (kd if len(p) == 1 else [9]), getattr(model, name, None)
        cur = getattr(model, name)
        for seg in p[1:]:
            cur = getattr(cur, ('s' + seg) if seg[0].isdigit() else seg, _MISSING)
            if cur is _MISSING:
                return [9], None
        return ([2] if callable(cur) else [8]), cur

    def observe():
        out = []
        for mid, model in models:
            rows = []
            single = len(names_of(model.state)) == 1
            to_kind = c11.kind_of(objs, mid, model, 'to', 'state')
            for p in paths:
                ik, f = resolve(model, mid, 'is_', p)
                calls = []
                if ik == [2]:
                    calls = [bool(f()), bool(f(allow_substates=True))]
                    if f() not in (True, False):
                        calls = [7, 7]
                tk, g = resolve(model, mid, 'to_', p)
                tocall = []
                helper_trace = None
                if tk == [2] and single:
                    saved = model.state
                    del trace[:]
                    r = c11.res_of(g)
                    helper_trace = list(trace)
                    after = names_of(model.state)
                    machine.set_state(saved, model)
                    tocall = [r == [0, True], sx_str(after[0])] if (r[0] == 0 and len(after) == 1) else [7, r]
                # model.to(<path name>): ends in p; same exit / enter callbacks as the to_<p> helper
                toeq = []
                if to_kind == [2] and single:
                    saved = model.state
                    here = names_of(saved)[0]
                    del trace[:]
                    del seen[:]
                    try:
                        model.to(sep.join(p))
                        ok = names_of(model.state) == [sep.join(p)] and (helper_trace is None or list(trace) == helper_trace)
                        # every callback is told where the model came from (EventData.source_name / source_path;
                        # EventData.transition is None during to(): not required)
                        ok = ok and bool(seen) and all(x[:2] == (here, here.split(sep)) for x in seen)
                    except Exception:   # noqa
                        ok = False
                    machine.set_state(saved, model)
                    toeq = [1 if ok else 0]
                rows.append([sx_str(sep.join(p)), ik, calls, tk, tocall, toeq])
            par = []
            if to_kind == [2] and len(names_of(model.state)) > 1:
                r = c11.res_of(model.to, sep.join(paths[0]))
                par = [r[1]] if r[0] == 1 else [7]
            out.append([mid, rows, to_kind, par])
        return out

    def extra():
        """get_triggers / get_transitions of the hierarchical machine against each other, against the
        transitions the case declared (by name), and — Enum mode — asked by member against asked by name"""
        bad = []
        want_rel = {}
        for t, src, dst in case['transitions']:
            want_rel.setdefault(t, []).append((src, dst))
        for e in sorted(set(want_rel) | set(k for k in machine.events.keys() if not k.startswith('to_'))):
            got = sorted((t.source, t.dest) for t in machine.get_transitions(e))
            if got != sorted(want_rel.get(e, [])):
                bad.append([sx_str('declared ' + e), [sx_str('%s>%s' % x) for x in got]])
        # both filters at once, every combination of a declared source with a declared destination
        for e, pairs in sorted(want_rel.items()):
            for qs in sorted(set(x[0] for x in pairs)):
                for qd in sorted(set(x[1] for x in pairs)):
                    got2 = sorted((t.source, t.dest) for t in machine.get_transitions(e, source=ref(qs), dest=ref(qd)))
                    if got2 != sorted(x for x in pairs if x == (qs, qd)):
                        bad.append([sx_str('two filters %s %s>%s' % (e, qs, qd)), [sx_str('%s>%s' % x) for x in got2]])
        for p in paths:
            name = sep.join(p)
            got = set(machine.get_triggers(name))
            want = set()
            for e in list(machine.events.keys()):
                for q in [p[:i] for i in range(1, len(p) + 1)]:
                    if machine.get_transitions(e, source=sep.join(q)):
                        want.add(e)
            if got != want:
                bad.append([sx_str(name), sorted(sx_str(x) for x in got ^ want)])
            for e in list(machine.events.keys()):
                direct = machine.get_transitions(e, source=name)
                deleg = machine.get_transitions(e, source=name, delegate=True)
                up = [t for q in [p[:i] for i in range(1, len(p))] for t in machine.get_transitions(e, source=sep.join(q))]
                if sorted(map(id, deleg)) != sorted(map(id, direct + up)):
                    bad.append([sx_str(name), [sx_str(e)]])
                if en is not None:
                    mem = en.member[tuple(p)]
                    if list(map(id, machine.get_transitions(e, source=mem))) != list(map(id, direct)):
                        bad.append([sx_str('enum source ' + name), [sx_str(e)]])
                    if list(map(id, machine.get_transitions(e, dest=mem))) != list(map(id, machine.get_transitions(e, dest=name))):
                        bad.append([sx_str('enum dest ' + name), [sx_str(e)]])
            if STATE_OBJECTS and en is None:
                # asked by State object (a nested State object only knows its local name) = asked by path name
                if set(machine.get_triggers(machine.get_state(name))) != got:
                    bad.append([sx_str('state object get_triggers ' + name), []])
            if en is not None:
                # asked by Enum member (top-level or nested) = asked by path name (D40 fixed the lookup of
                # nested members by their bare name)
                if set(machine.get_triggers(en.member[tuple(p)])) != got:
                    bad.append([sx_str('enum get_triggers ' + name), []])
        return bad

    steps = []
    h_rows = []
    for op in case['ops']:
        res = [0]
        try:
            if op[0] == 'model':
                obj = objs.get(op[1])
                machine.add_model(obj, initial=ref(op[2]))
                if obj in machine.models and all(i != op[1]['id'] for i, _ in models):
                    models.append((op[1]['id'], obj))
            else:
                obj = dict(models).get(op[1])
                if obj is not None:
                    act = [ref(p) for p in op[2]]
                    machine.set_state(act if len(act) > 1 else act[0], obj)
        except Exception as e:   # noqa
            res = [1, c11.exn_code(e)]
        steps.append([res, observe()])
        # the public is_state behind the helpers, for every registered model and every state
        for mid, model in models:
            h_rows.append([[bool(machine.is_state(ref(p), model)), bool(machine.is_state(ref(p), model, allow_substates=True))]
                           for p in paths])
    h_trig = [sorted(set(EVENT_IDS[e] for e in machine.get_triggers(member(p)) if e in EVENT_IDS)) for p in paths]
    return [3, [1, [sx_str(n) for n in machine.get_nested_state_names()], steps, extra()], [1, h_rows, h_trig]]


def canon(case, obs):
    if isinstance(obs, list) and obs and obs[0] == 3:
        h = obs[2]
        if isinstance(h, list) and h and h[0] == 1:
            h = [1, h[1], [sorted(set(l)) for l in h[2]]]
        return [3, canon(case, obs[1]), h]
    if len(obs) == 4:
        return [obs[0], obs[1], obs[2], []] if not obs[3] else obs
    return obs + [[]]


# ------------------------------------------------------------------ envelope / oracle / stats
def _own_names(case):
    out = []
    for op in case['ops']:
        if op[0] == 'model':
            out.append(set(n for n, _ in op[1]['cls'] + op[1]['inst']))
    return out


def kf_wrapper_class(case):
    """KF-C11-2: custom separator and a model that defines is_<top state> / to_<top state> itself"""
    if case['cfg']['sep'] == '_':
        return False
    tops = [t[0] for t in case['forest']]
    for names in _own_names(case):
        for t in tops:
            if 'is_' + t in names or (case['cfg']['auto'] and 'to_' + t in names):
                return True
    return False


def kf_remove_class(case):
    return False


def in_envelope(case):
    return not kf_wrapper_class(case)


def oracle(case, obs):
    if obs[0] == 3:
        return oracle(case, obs[1])
    cfg = case['cfg']
    if obs[3]:
        return 'get_triggers / get_transitions(delegate) of the hierarchical machine disagree: %r' % (obs[3][:2],)
    own = {op[1]['id']: {n: v for n, v in op[1]['cls'] + op[1]['inst']} for op in case['ops'] if op[0] == 'model'}
    active = {}
    for op, (res, models) in zip(case['ops'], obs[2]):
        if res != [0]:
            return 'operation %r raised' % (op[0],)
        if op[0] == 'model' and op[1]['id'] not in active:
            active[op[1]['id']] = [op[2]]
        elif op[0] == 'set' and op[1] in active:
            active[op[1]] = op[2]
        for mid, rows, to_kind, par in models:
            own_to = own[mid].get('to')
            if own_to is not None and own_to[0] in ('pre', 'own') and to_kind != [0 if own_to[0] == 'pre' else 4, own_to[1]]:
                return 'model %d: own attribute to was overwritten' % mid
            if par and par != [0]:
                return 'model %d: to() from a parallel configuration did not raise MachineError' % mid
            act = active[mid]
            for name, ik, calls, tk, tocall, toeq in rows:
                p = un_str(name).split(cfg['sep'])
                flat = 'is_' + '_'.join(p)
                o = own[mid].get(flat)
                if cfg['sep'] == '_' and o is not None and o[0] in ('pre', 'own') and not cfg['over'] \
                        and ik != [0 if o[0] == 'pre' else 4, o[1]]:
                    return 'model %d: own attribute %s overwritten' % (mid, flat)
                if toeq and toeq != [1]:
                    return 'model %d: model.to(%r) does not end / run callbacks like the to_ helper' % (mid, un_str(name))
                if tocall and tocall != [True, name]:
                    return 'model %d: %s() did not end in %s: %r' % (mid, 'to_' + un_str(name), un_str(name), tocall)
                if ik != [2]:
                    continue
                is_leaf = p in act
                below = any(q[:len(p)] == p for q in act)
                strictly = any(q[:len(p)] == p and len(q) > len(p) for q in act)
                if calls != [below and not strictly, below]:
                    return 'model %d: is-helper of %s answers %r in configuration %r' % (mid, un_str(name), calls, act)
                if is_leaf and not strictly and calls[0] is not True:
                    return 'model %d: active leaf %s not reported' % (mid, un_str(name))
                if cfg['auto'] and tk != [2] and not (cfg['sep'] == '_' and (('to_' + '_'.join(p)) in own[mid] or cfg['over'])):
                    return 'model %d: to-helper of %s missing although auto_transitions' % (mid, un_str(name))
    return None


def nontrivial(case, obs):
    if obs[0] == 3:
        obs = obs[1]
    if not isinstance(obs, list) or obs[0] != 1:
        return False
    if not obs[2]:
        return False
    depth = max(len(p) for p in paths_of(case['forest']))
    return depth >= 2 and any(models for _, models in obs[2])


def stats(case, obs, dist):
    def bump(k, n=1):
        dist[k] = dist.get(k, 0) + n
    if obs[0] == 3:
        if isinstance(obs[2], list) and obs[2][0] == 1:
            bump('hsm_h_is_state_answers', sum(len(r) for r in obs[2][1]))
            bump('hsm_h_get_triggers_nonempty', sum(1 for l in obs[2][2] if l))
        obs = obs[1]
    if not isinstance(obs, list) or obs[0] != 1:
        bump('hsm_undecodable')
        return
    bump('hsm_sep_' + case['cfg']['sep'])
    if case['cfg'].get('enum'):
        bump('hsm_enum')
        names = ['_'.join(p) for p in paths_of(case['forest'])]
        if any(len(p) > 1 and p[-1] in [t[0] for t in case['forest']] for p in paths_of(case['forest'])):
            bump('hsm_enum_nested_namesake_of_top_level')
    for _, models in obs[2]:
        for _, rows, _tk, _par in models:
            bump('hsm_to_calls', sum(1 for r in rows if len(r) > 4 and r[4]))
    bump('hsm_states', len(paths_of(case['forest'])))
    for op, st in zip(case['ops'], obs[2]):
        bump('hsm_op_' + op[0])
        if st[0] != [0]:
            bump('hsm_op_raised_%d' % st[0][1])
    if kf_wrapper_class(case):
        bump('kf_class_wrapper_clash')
