"""C17 — implementation side: real machines decorated with Timeout / AsyncTimeout driven under a virtual clock.

Threaded feature: `transitions.extensions.states.Timer` is replaced FROM OUTSIDE by VTimer (the library only
uses Timer(timeout, func, args=...), .daemon, .start(), .cancel(), .is_alive()); VClock.advance(dt) runs the
due timers in (deadline, creation) order in the calling thread, the clock standing at the deadline while a
handler runs.  Asyncio feature: an event loop whose time() is the virtual clock and whose selector advances
the clock instead of sleeping (so time only passes when nothing is runnable); call_at adds a creation-ordered
epsilon so that handles due at the same instant run in creation order, and the driver wakes half an instant later.  Only integers are observed."""
import asyncio
import math
import selectors

from flat import _import_transitions

# item kinds (shared with coq/Model/TimerIO.v)
K_EXITED, K_ENTERED, K_FIRED, K_CEXIT, K_CENTER, K_CTIMEOUT, K_ONEXC, K_ESCAPE, K_RES, K_USER = range(10)
K_SETTIMEOUT = 10
NO_MODEL = 1000      # group of the items that belong to no model (asyncio canonical form)
R_FALSE, R_TRUE, R_MACHINE, R_ATTRIBUTE, R_OTHER = 0, 1, 2, 3, 9


MAX_FIRINGS = 400   # per case; the generated cases stay far below (a defect that leaks timers can explode)


# kinds of failure of an on_timeout callback (field 'kind' of the callback, default 1)
KIND_EXCEPTION, KIND_BASE, KIND_CANCELLED = 1, 2, 3


class UserBase(BaseException):
    """a failure that is NOT an Exception (like SystemExit / KeyboardInterrupt, without their special treatment by
    the event loop)"""
    def __init__(self, cb, m):
        super().__init__(cb)
        self.cb = cb
        self.m = m


class UserExc(Exception):
    def __init__(self, cb, m):
        super().__init__(cb)
        self.cb = cb
        self.m = m


class Runaway(BaseException):
    """a case that does not terminate (the generator filters them; shrinking may produce one)"""


MAX_CALLBACKS = 4000


class Mo(object):
    pass


def make_model(ctx, idx):
    """a model whose state attribute is a property: every change of the attribute (Machine.set_state) is
    logged as the pair of markers TExited old / TEntered new — without adding a callback anywhere"""
    class PMo(object):
        def __init__(self):
            self._st = None

        @property
        def state(self):
            return self._st

        @state.setter
        def state(self, value):
            old, self._st = self._st, value
            if old is not None:
                now = ctx.now()
                ctx.log.append([K_EXITED, idx, _name_int(old), now])
                ctx.log.append([K_ENTERED, idx, _name_int(value), now])
    return PMo()


# ------------------------------------------------------------------ virtual threading.Timer
class VClock(object):
    def __init__(self):
        self.now = 0
        self.seq = 0
        self.fired = 0
        self.pending = []          # VTimer objects started and neither fired nor cancelled
        self.escaped = None        # callable(exc) for exceptions leaving a timer function

    def advance(self, dt):
        target = self.now + dt
        while True:
            due = [t for t in self.pending if t.deadline <= target]
            if not due:
                break
            t = min(due, key=lambda x: (x.deadline, x.seq))
            self.fired += 1
            if self.fired > MAX_FIRINGS:
                raise RuntimeError('runaway: more than %d timers fired in one case' % MAX_FIRINGS)
            self.pending.remove(t)
            self.now = max(self.now, t.deadline)
            t.running = True
            try:
                t.function(*t.args, **t.kwargs)
            except BaseException as ex:  # a real Timer thread would die with this exception
                if self.escaped:
                    self.escaped(ex)
            finally:
                t.running = False
                t.finished = True
        self.now = target


def make_vtimer(clock):
    class VTimer(object):
        """stand-in for threading.Timer bound to one VClock"""
        def __init__(self, interval, function, args=None, kwargs=None):
            self.interval = interval
            self.function = function
            self.args = args if args is not None else []
            self.kwargs = kwargs if kwargs is not None else {}
            self.daemon = False
            self.started = False
            self.running = False
            self.finished = False
            self.deadline = None
            self.seq = None

        def setDaemon(self, flag):
            self.daemon = flag

        def start(self):
            if self.started:
                raise RuntimeError('threads can only be started once')
            self.started = True
            clock.seq += 1
            self.seq = clock.seq
            self.deadline = clock.now + self.interval
            if not self.finished:
                clock.pending.append(self)

        def cancel(self):
            # threading.Timer.cancel: stops the timer if its function has not started yet
            if self in clock.pending:
                clock.pending.remove(self)
            if not self.running:
                self.finished = True

        def is_alive(self):
            return self.started and (self.running or self in clock.pending)
    return VTimer


# ------------------------------------------------------------------ virtual-time asyncio loop
class VSelector(selectors.BaseSelector):
    def __init__(self, clock):
        self.real = selectors.DefaultSelector()
        self.clock = clock

    def register(self, *a, **k):
        return self.real.register(*a, **k)

    def unregister(self, *a, **k):
        return self.real.unregister(*a, **k)

    def modify(self, *a, **k):
        return self.real.modify(*a, **k)

    def get_map(self):
        return self.real.get_map()

    def close(self):
        self.real.close()

    def select(self, timeout=None):
        if timeout is None:
            raise RuntimeError('virtual-time loop would block for ever')
        if timeout > 0:
            self.clock[0] += timeout
        return self.real.select(0)


class VLoop(asyncio.SelectorEventLoop):
    def __init__(self):
        self.vclock = [0.0]
        self.vseq = 0
        super().__init__(VSelector(self.vclock))

    def time(self):
        return self.vclock[0]

    def call_at(self, when, callback, *args, context=None):
        # every delay the library asks for is an integer: keep the integer instant, order ties by creation
        self.vseq += 1
        return super().call_at(math.floor(when + 1e-3) + self.vseq * 1e-6, callback, *args, context=context)

    def now(self):
        return int(self.vclock[0])

    async def advance(self, dt):
        """the driver's sleep: wake up half an instant after now + dt, i.e. after every timer due until then
        (whenever it was created) and before every later one"""
        fut = self.create_future()
        asyncio.SelectorEventLoop.call_at(self, self.now() + dt + 0.5, fut.set_result, None)
        await fut


# ------------------------------------------------------------------ building the machine
def _name_int(v):
    try:
        return int(str(v)[1:])
    except Exception:
        return 999


def _state_int(model):
    return _name_int(model.state)


def _res_code(tr, ex):
    if isinstance(ex, tr.MachineError):
        return R_MACHINE
    if isinstance(ex, AttributeError):
        return R_ATTRIBUTE
    return R_OTHER


class Ctx(object):
    def __init__(self, case, tr, now):
        self.case = case
        self.tr = tr
        self.now = now
        self.log = []
        self.fired = 0
        self.stop = None           # asyncio: stops the loop when timers run away
        self.calls = 0
        self.raiser = {}           # model -> first on_timeout callback that failed in the current firing
        self.make_handler = None   # cb dict -> on_timeout recorder (set by _state_defs)
        self.models = [make_model(self, i) for i in range(case['nmodels'])]
        self.mid = {id(m): i for i, m in enumerate(self.models)}

    def m_of(self, event_data):
        return self.mid.get(id(event_data.model), 99)


def _state_defs(ctx, is_async):
    """keyword dicts of the states; on_enter / on_exit lists hold exactly the case's recorders (possibly none);
    when on_timeout is passed at all a marker recorder stands in front of that list"""
    case, log = ctx.case, ctx.log

    def tick_guard():
        ctx.calls += 1
        if ctx.calls > MAX_CALLBACKS:
            raise Runaway()

    def plain_sync(kind, cb):
        def f(event_data):
            tick_guard()
            m = ctx.m_of(event_data)
            log.append([kind, cb['id'], m, _state_int(event_data.model), ctx.now()])
            if cb['act'] is not None:
                e = cb['act']
                try:
                    r = R_TRUE if event_data.model.trigger('e%d' % e) else R_FALSE
                except RecursionError:
                    raise Runaway()
                except Exception as ex:  # noqa
                    r = _res_code(ctx.tr, ex)
                log.append([K_RES, m, e, r, ctx.now()])
        return f

    def plain_async(kind, cb):
        async def f(event_data):
            tick_guard()
            m = ctx.m_of(event_data)
            log.append([kind, cb['id'], m, _state_int(event_data.model), ctx.now()])
            if cb['act'] is not None:
                e = cb['act']
                try:
                    r = R_TRUE if await event_data.model.trigger('e%d' % e) else R_FALSE
                except RecursionError:
                    raise Runaway()
                except Exception as ex:  # noqa
                    r = _res_code(ctx.tr, ex)
                log.append([K_RES, m, e, r, ctx.now()])
        return f

    plain = plain_async if is_async else plain_sync

    def fail(cb, m):
        """raise the failure of the callback's kind: an Exception, a BaseException that is not an Exception, or
        asyncio.CancelledError (what awaiting a cancelled task / future raises inside a handler).  gather re-creates
        a CancelledError, so the identity of the failing callback is remembered per firing."""
        if ctx.raiser.get(m) is None:
            ctx.raiser[m] = cb['id']
        kind = cb.get('kind', KIND_EXCEPTION)
        if kind == KIND_BASE:
            raise UserBase(cb['id'], m)
        if kind == KIND_CANCELLED:
            raise asyncio.CancelledError()
        raise UserExc(cb['id'], m)

    def on_timeout_sync(cb, bound=None):
        def f(event_data):
            # a handler given by NAME is a method of one model: it reports the model it belongs to
            m = ctx.m_of(event_data) if bound is None else bound
            log.append([K_CTIMEOUT, cb['id'], m, _state_int(ctx.models[m]) if m < len(ctx.models) else 999, ctx.now()])
            if cb['act'] is not None:
                who, e = cb['act']
                tm = m if who is None else who
                try:
                    r = R_TRUE if ctx.models[tm].trigger('e%d' % e) else R_FALSE
                except UserExc:
                    raise
                except Exception as ex:  # noqa
                    r = _res_code(ctx.tr, ex)
                log.append([K_RES, tm, e, r, ctx.now()])
            if cb['raises']:
                fail(cb, m)
        return f

    def on_timeout_async(cb, bound=None):
        async def f(event_data):
            m = ctx.m_of(event_data) if bound is None else bound
            log.append([K_CTIMEOUT, cb['id'], m, _state_int(ctx.models[m]) if m < len(ctx.models) else 999, ctx.now()])
            if cb['act'] is not None:
                who, e = cb['act']
                tm = m if who is None else who
                try:
                    r = R_TRUE if await ctx.models[tm].trigger('e%d' % e) else R_FALSE
                except UserExc:
                    raise
                except Exception as ex:  # noqa
                    r = _res_code(ctx.tr, ex)
                log.append([K_RES, tm, e, r, ctx.now()])
            if cb['raises']:
                fail(cb, m)
        return f

    out = []
    for s in case['states']:
        d = dict(name='s%d' % s['id'],
                 on_enter=[plain(K_CENTER, c) for c in s['enter']],
                 on_exit=[plain(K_CEXIT, c) for c in s['exit']])
        if s['timeout'] is not None:
            d['timeout'] = s['timeout']
        if s['given']:
            mk = on_timeout_async if is_async else on_timeout_sync
            d['on_timeout'] = [mk(cb) for cb in s['on_timeout']]      # exactly the case's handlers, possibly none
        out.append(d)
    mk = on_timeout_async if is_async else on_timeout_sync

    def make_handler(cb):
        """the recorder itself, or — for callbacks marked 'named' — the NAME of a method every model has; the
        library resolves the name on the model whose timer expired"""
        if not cb.get('named'):
            return mk(cb)
        name = 'ot_%d' % cb['id']
        for i, mo in enumerate(ctx.models):
            if not hasattr(mo, name):
                setattr(mo, name, mk(cb, bound=i))
        return name
    ctx.make_handler = make_handler
    for s, d in zip(case['states'], out):
        if s['given']:
            hs = [make_handler(cb) for cb in s['on_timeout']]
            # 'bare': the single handler is passed as it is (a string or a callable), not inside a list
            d['on_timeout'] = hs[0] if s.get('bare') and len(hs) == 1 else hs
    return out


def marked_feature(ctx, feature, is_async):
    """the feature class with the expiry of a timer made observable: TFired is logged where the timer's function
    (_process_timeout) starts, whatever the on_timeout list holds at that moment (possibly nothing)"""
    def mark(state, event_data):
        m = ctx.m_of(event_data)
        ctx.fired += 1
        ctx.raiser[m] = None
        if ctx.fired > MAX_FIRINGS and ctx.stop is not None:
            ctx.stop()
        ctx.log.append([K_FIRED, m, _name_int(state.name), ctx.now()])

    if is_async:
        class Marked(feature):
            async def _process_timeout(self, event_data):
                mark(self, event_data)
                await super()._process_timeout(event_data)
    else:
        class Marked(feature):
            def _process_timeout(self, event_data):
                mark(self, event_data)
                super()._process_timeout(event_data)
    Marked.__name__ = feature.__name__
    return Marked


def set_handlers(ctx, machine, op):
    """history operation [3, state, handlers, how]: change the state's on_timeout list at run time, by assignment
    through the public property (how = 0) or in place: emptied, then state.add_callback('timeout', f) (how = 1)"""
    st = machine.get_state('s%d' % op[1])
    fs = [ctx.make_handler(cb) for cb in op[2]]
    if len(op) > 3 and op[3] == 1:
        del st.on_timeout[:]
        for f in fs:
            st.add_callback('timeout', f)
    else:
        st.on_timeout = fs


def _on_exception(ctx):
    def mk(cb):
        def f(event_data):
            err = event_data.error
            m = ctx.m_of(event_data)
            if isinstance(err, (UserExc, UserBase)):
                code = err.cb
            elif isinstance(err, ctx.tr.MachineError):
                code = 0
            elif isinstance(err, asyncio.CancelledError):
                code = ctx.raiser.get(m) or 998
            else:
                code = 999
            # the error handed over must be of the kind the callback failed with
            want = {cb['id']: cb.get('kind', KIND_EXCEPTION) for lst in _handler_lists(ctx.case) for cb in lst}.get(code)
            have = KIND_EXCEPTION if isinstance(err, UserExc) else KIND_BASE if isinstance(err, UserBase) else \
                KIND_CANCELLED if isinstance(err, asyncio.CancelledError) else None
            if code not in (0, 998, 999) and want != have:
                code = 997
            ctx.log.append([K_ONEXC, cb, ctx.m_of(event_data), code, ctx.now()])
        return f
    return [mk(cb) for cb in ctx.case['onexc']]


def _build(ctx, base, feature, S):
    case = ctx.case
    try:
        is_async = feature.__name__ == 'AsyncTimeout'

        @S.add_state_features(marked_feature(ctx, feature, is_async))
        class M(base):
            pass
        defs = _state_defs(ctx, is_async)
        group = case.get('group') or []
        machine = M(model=ctx.models, states=[d for d, st in zip(defs, case['states']) if st['id'] not in group],
                    initial='s%d' % case['init'], auto_transitions=False, send_event=True,
                    ignore_invalid_triggers=case['ignore'], queued=case['queued'],
                    on_exception=_on_exception(ctx))
        if group:
            # several states created by ONE add_states call from shared keyword arguments (one timeout, ONE
            # on_timeout / on_enter / on_exit list object handed over): each state must own its lists
            common = dict([d for d, st in zip(defs, case['states']) if st['id'] == group[0]][0])
            common.pop('name')
            machine.add_states(['s%d' % g for g in group], **common)
        for e, s, d, ok in case['trans']:
            kw = {}
            if not ok:
                kw['conditions'] = [lambda event_data: False]
            machine.add_transition('e%d' % e, 's%d' % s, None if d is None else 's%d' % d, **kw)
    except (TypeError, AttributeError, ValueError) as ex:
        return None, [1, [1, 1 if isinstance(ex, AttributeError) else 2 if isinstance(ex, TypeError) else 3]]
    return machine, None


def _snapshot(ctx):
    return [_state_int(m) for m in ctx.models]


# ------------------------------------------------------------------ the two runners
def run_threaded(case):
    tr = _import_transitions()
    from transitions import extensions as ext
    from transitions.extensions import states as S
    clock = VClock()
    saved = S.Timer
    S.Timer = make_vtimer(clock)
    try:
        ctx = Ctx(case, tr, lambda: clock.now)

        def escaped(ex):
            if isinstance(ex, (UserExc, UserBase)):
                ctx.log.append([K_ESCAPE, ex.cb, ex.m, clock.now])
            elif isinstance(ex, asyncio.CancelledError) and len([m for m, v in ctx.raiser.items() if v]) >= 1:
                m, v = [(m, v) for m, v in ctx.raiser.items() if v][-1]
                ctx.log.append([K_ESCAPE, v, m, clock.now])
            else:
                ctx.log.append([K_ESCAPE, 999, 99, clock.now])
        clock.escaped = escaped
        base = tr.Machine if case['cls'] == 'Machine' else getattr(ext, case['cls'])
        machine, err = _build(ctx, base, S.Timeout, S)
        if err is not None:
            return err
        steps = []
        for op in case['history']:
            del ctx.log[:]
            if op[0] == 0:
                _, m, e = op
                ctx.log.append([K_USER, m, e, clock.now])
                try:
                    res = [R_TRUE if ctx.models[m].trigger('e%d' % e) else R_FALSE]
                except Exception as ex:  # noqa
                    res = [_res_code(tr, ex)]
            elif op[0] == 3:
                set_handlers(ctx, machine, op)
                res = []
            elif op[0] == 2:
                # reconfiguration at run time through the public attribute of the state object
                machine.get_state('s%d' % op[1]).timeout = op[2]
                ctx.log.append([K_SETTIMEOUT, op[1], op[2], clock.now])
                res = []
            else:
                clock.advance(op[1])
                res = []
            steps.append([[list(x) for x in ctx.log], res, _snapshot(ctx), clock.now])
        return [1, [0, steps]]
    finally:
        S.Timer = saved


def run_async(case):
    tr = _import_transitions()
    from transitions.extensions import states as S
    from transitions.extensions import asyncio as A
    loop = VLoop()
    try:
        ctx = Ctx(case, tr, loop.now)
        ctx.stop = loop.stop
        base = getattr(A, case['cls'])
        holder = {}

        async def main():
            machine, err = _build(ctx, base, A.AsyncTimeout, S)
            if err is not None:
                holder['err'] = err
                return
            steps = []
            for op in case['history']:
                del ctx.log[:]
                if op[0] == 0:
                    _, m, e = op
                    ctx.log.append([K_USER, m, e, loop.now()])
                    try:
                        res = [R_TRUE if await ctx.models[m].trigger('e%d' % e) else R_FALSE]
                    except Exception as ex:  # noqa
                        res = [_res_code(tr, ex)]
                elif op[0] == 3:
                    set_handlers(ctx, machine, op)
                    res = []
                elif op[0] == 2:
                    machine.get_state('s%d' % op[1]).timeout = op[2]
                    ctx.log.append([K_SETTIMEOUT, op[1], op[2], loop.now()])
                    res = []
                else:
                    await loop.advance(op[1])
                    res = []
                steps.append([[list(x) for x in ctx.log], res, _snapshot(ctx), loop.now()])
            holder['steps'] = steps
            # stop the timers that are still pending so that the loop can be closed quietly
            for t in [t for t in asyncio.all_tasks() if t is not asyncio.current_task()]:
                t.cancel()
        loop.run_until_complete(main())
        if 'err' in holder:
            return holder['err']
        return [1, [0, holder['steps']]]
    finally:
        try:
            loop.run_until_complete(loop.shutdown_asyncgens())
        finally:
            loop.close()


def impl_timer(case):
    if case['variant'] == 'async':
        return run_async(case)
    return run_threaded(case)


# ====================================================================================== check definition
import copy          # noqa: E402
import subprocess    # noqa: E402

PID = 'C17'
KIND = 9
IMPL = ('c17', 'impl_timer')
COUNTS = dict(quick=3000, thorough=30000)
THREAD_CLASSES = ['Machine', 'HierarchicalMachine', 'LockedMachine', 'LockedHierarchicalMachine']
ASYNC_CLASSES = ['AsyncMachine', 'HierarchicalAsyncMachine']
RULE = ('cases = @add_state_features(Timeout) on Machine / HierarchicalMachine (flat configuration) / LockedMachine / '
        'LockedHierarchicalMachine (60%) or @add_state_features(AsyncTimeout) on AsyncMachine / HierarchicalAsyncMachine '
        '(40%), queued (45%) or not, x 1-4 states (timeout 1-4 with 0-3 on_timeout recorders, '
        'timeout 0, or none) x on_enter / on_exit lists of 0-2 recorders (half of them EMPTY: no extra turn of the asyncio '
        'loop between the cancellation of a timer and the next entry) of which at most one per list triggers an event on '
        'its model (on_enter 30%: leaves the state at once, re-enters it, internal, invalid; on_exit 15% queued / 5% '
        'unqueued) x on_timeout callbacks that trigger an event on the timed-out model or (threads) on another model '
        '(35%) and/or fail (15%: with an Exception, with a BaseException that is not an Exception, asyncio: also with '
        'asyncio.CancelledError as when the handler awaits a cancelled task) x 1-3 events with transitions (reflexive 30%, internal 10%, failing condition 12%, states '
        'without transition, denser from the initial state) x 0-2 machine on_exception recorders x 1-3 models x histories '
        'of 2-16 operations, `model.trigger(event)` or `advance(dt)` with dt drawn around the timeouts (0, 1, timeout-1, '
        'timeout, timeout+1, long), half of them with an extra pair of events of one model at the same instant with '
        'nothing in between (re-enter and leave before the cancelled asyncio timer task has run); 45% of the cases reassign '
        '`machine.get_state(s).timeout = v` (v = 0 in half of them, else 1-4) of states that were given on_timeout, at random '
        'places and right after an event with another event of the same model behind it; 45% of the cases with a timeout '
        'state change its on_timeout list at run time (assignment through the property, or emptied and refilled with '
        'state.add_callback) right after an event and at random places, half of the given timeout states then being '
        'created with on_timeout=[] (entered with nothing to call, handlers registered during the visit; also handlers '
        'removed during the visit); half of the on_timeout handlers are given as STRINGS naming a method that every '
        'model has; a single handler is passed bare (string or callable, not in a list) in half of the cases, also on states '
        'created with timeout 0 that get a positive timeout later; 30% of the cases with >= 3 states create two states by ONE '
        'add_states call from shared keyword arguments and then change the on_timeout list of one of them in place '
        '(the method reports the model it belongs to: each expiry must run the handlers of the model that timed '
        'out); the expiry marker TFired is logged by a subclass of the feature whose '
        '_process_timeout logs and delegates, so the on_timeout lists hold exactly the case\'s handlers, possibly none; re-trigger chains that '
        'do not die out (state-only pre-simulation, then the model\'s fuel) lose their triggers; every 11th case has a '
        'state with timeout > 0 and no on_timeout (construction must raise AttributeError).  Threads: '
        'transitions.extensions.states.Timer replaced from outside by a virtual timer; asyncio: virtual-time event loop '
        'that only advances when nothing is runnable and is never drained between two operations.  The markers TExited / '
        'TEntered are observed through a property on the model\'s state attribute (no callbacks added).  Compared after '
        'every operation: every recorder call with model, state seen and VIRTUAL time (integers), results / exception '
        'types of all triggers, exceptions leaving a timer thread / routed to on_exception, every model\'s state, the '
        'clock.  Asyncio traces are compared per model and per category (handler items / callback items without the '
        'state seen / markers / results) because gathered callbacks interleave.  Non-trivial: the machine was built and '
        'at least one timeout fired, distinct by hash of the case.  Extra (oracle only): hierarchical machines with NESTED '
        'timeout states, spec_C17 per (model, nested state).')
ASSUMPTIONS = ['threading.Timer and asyncio.sleep call back at their deadline (ASSUMED: replaced by a virtual timer / a '
               'virtual-time event loop; real preemption between a timer thread and the caller is not explored, see C06)',
               'ties: timers due at the same instant run in creation order and before an event the caller issues at '
               'that instant (what the virtual clock implements)',
               'callbacks do not raise except on_timeout callbacks (Exception / other BaseException / CancelledError; not '
               'SystemExit or KeyboardInterrupt, which the event loop itself re-raises); conditions are constants; on_enter / on_exit callbacks '
               'trigger events on their own model only; flat state configurations (nested timeout states: oracle only)',
               'guard_C17: on an unqueued machine the event triggered by an on_exit callback is inert in that state '
               '(otherwise the library recurses until RecursionError: nothing to compare)',
               'asyncio envelope: at most one callback per callback list triggers an event; in an on_timeout list it '
               'triggers on its own model and then no other callback of that list raises (AsyncMachine would cancel the '
               'concurrent transition: C08)',
               'the initial state is assigned, not entered: no timeout runs for it (mirrored, documented behaviour)']
THEOREMS = ['C17_once_on_time', 'C17_nonvacuous', 'C17_reconfigured', 'C17_handlers_changed', 'C17_guard_needed', 'C17_invariant', 'C17_never_if_left', 'C17_restart',
            'C17_internal', 'C17_per_model', 'C17_validation', 'C17_async_shield', 'C17_async_exception']


# ------------------------------------------------------------------ generation
def gen(rng, i, tier):
    malformed = (i % 11 == 10)
    is_async = rng.random() < 0.4
    cls = rng.choice(ASYNC_CLASSES if is_async else THREAD_CLASSES)
    queued = rng.random() < 0.45
    ns = rng.randint(1, 4)
    ne = rng.randint(1, 3)
    nm = rng.randint(1, 3)
    init = rng.randrange(ns)
    nid = [0]

    def fresh():
        nid[0] += 1
        return nid[0]

    def ids(p_act):
        """an on_enter / on_exit list: 0-2 recorders (often none at all: no extra turn of the asyncio loop), some
        of which trigger an event on their model (at most one per list)"""
        out = []
        for _ in range(rng.choice([0, 0, 0, 1, 1, 2])):
            act = rng.randrange(ne) if rng.random() < p_act and not any(c['act'] is not None for c in out) else None
            out.append(dict(id=fresh(), act=act))
        return out

    states = []
    for s in range(ns):
        k = rng.random()
        timeout = rng.randint(1, 4) if k < 0.75 else 0 if k < 0.83 else None
        given = timeout is not None and (timeout > 0 or rng.random() < 0.5)
        cbs = []
        if given:
            acted = False
            for _ in range(rng.choice([0, 1, 1, 2, 3])):
                act = None
                if rng.random() < 0.35 and not (is_async and acted):
                    who = None
                    if not is_async and nm > 1 and rng.random() < 0.25:
                        who = rng.randrange(nm)
                    act = [who, rng.randrange(ne)]
                    acted = True
                cbs.append(dict(id=fresh(), act=act, raises=rng.random() < 0.15,
                                kind=rng.choice([KIND_EXCEPTION, KIND_EXCEPTION, KIND_BASE, KIND_CANCELLED] if is_async
                                                else [KIND_EXCEPTION, KIND_EXCEPTION, KIND_BASE])))
            if is_async and acted:
                for cb in cbs:
                    if cb['act'] is None:
                        cb['raises'] = False
        states.append(dict(id=s, timeout=timeout, given=given, on_timeout=cbs, enter=ids(0.4), exit=ids(0.15 if queued else 0.05)))
    if malformed:
        s = rng.choice(states)
        s['timeout'] = s['timeout'] or rng.randint(1, 3)
        s['given'] = False
        s['on_timeout'] = []
    trans = []
    for e in range(ne):
        row = []
        for s in range(ns):
            if rng.random() < (0.9 if s == init else 0.7):
                for _ in range(rng.choice([1, 1, 1, 2])):
                    k = rng.random()
                    dst = None if k < 0.10 else s if k < 0.40 else rng.randrange(ns)
                    row.append([e, s, dst, rng.random() >= 0.12])
        if not row:
            row.append([e, rng.randrange(ns), rng.randrange(ns), True])
        trans += row
    rng.shuffle(trans)
    for s in states:
        # an on_enter trigger that really leaves (or re-enters) the state it belongs to, more often than by chance
        leaving = sorted({t[0] for t in trans if t[1] == s['id'] and t[2] is not None and t[3]})
        for cb in s['enter']:
            if cb['act'] is not None and leaving and rng.random() < 0.7:
                cb['act'] = rng.choice(leaving)
    touts = [s['timeout'] for s in states if s['timeout']] or [2]
    hist = []
    for k in range(rng.randint(2, 14)):
        if rng.random() < (0.8 if k < nm else 0.45):
            hist.append([0, rng.randrange(nm), rng.randrange(ne)])
        else:
            t = rng.choice(touts)
            hist.append([1, rng.choice([0, 1, 1, max(t - 1, 0), t, t, t + 1, t + rng.randint(2, 6)])])
    if not queued and any(cb['act'] is not None for s in states for cb in s['exit']):
        # outside exit_guard timers leak (KF-C17-1); handlers that trigger events would multiply them
        for s in states:
            for cb in s['on_timeout']:
                cb['act'] = None
    given = [s['id'] for s in states if s['given']]
    if given and not malformed and rng.random() < 0.45:
        # reconfiguration at run time: state.timeout = v (0 switches it off) at random places, and once right
        # after an event (a model may just have entered the state) followed by another event of that model
        for _ in range(rng.choice([1, 1, 2, 3])):
            hist.insert(rng.randrange(len(hist) + 1), [2, rng.choice(given), rng.choice([0, 0, 0, 1, 2, 3, 4])])
        evs = [i for i, op in enumerate(hist) if op[0] == 0]
        if evs:
            i = rng.choice(evs)
            hist[i + 1:i + 1] = [[2, rng.choice(given), rng.choice([0, 0, 1, 3])], [1, rng.choice([0, 1])],
                                 [0, hist[i][1], rng.randrange(ne)]]
    timed = [s['id'] for s in states if s['timeout']]
    if timed and not malformed and rng.random() < 0.45:
        # the on_timeout list of a timeout state changes at run time (handlers registered / removed during a visit):
        # right after an event (a model may just have entered the state, possibly with an EMPTY list) and at random places
        strip = not queued and any(cb['act'] is not None for s in states for cb in s['exit'])

        def new_list():
            out, acted = [], False
            for _ in range(rng.choice([0, 1, 1, 2])):
                act = None
                if rng.random() < 0.3 and not strip and not (is_async and acted):
                    who = rng.randrange(nm) if (not is_async and nm > 1 and rng.random() < 0.25) else None
                    act = [who, rng.randrange(ne)]
                    acted = True
                out.append(dict(id=500 + fresh(), act=act, raises=rng.random() < 0.12,
                                kind=rng.choice([KIND_EXCEPTION, KIND_EXCEPTION, KIND_BASE, KIND_CANCELLED] if is_async
                                                else [KIND_EXCEPTION, KIND_EXCEPTION, KIND_BASE])))
            if is_async and acted:
                for cb in out:
                    if cb['act'] is None:
                        cb['raises'] = False
            return out
        for st in states:
            if st['id'] in timed and st['given'] and rng.random() < 0.5:
                st['on_timeout'] = []                     # entered with nothing to call; handlers come later
        evs = [i for i, op in enumerate(hist) if op[0] == 0]
        for i in sorted(rng.sample(evs, min(len(evs), rng.choice([1, 1, 2]))), reverse=True):
            hist[i + 1:i + 1] = [[3, rng.choice(timed), new_list(), rng.randrange(2)]] + \
                ([[1, rng.choice([0, 1])]] if rng.random() < 0.5 else [])
        if rng.random() < 0.5:
            hist.insert(rng.randrange(len(hist) + 1), [3, rng.choice(timed), new_list(), rng.randrange(2)])
    for lst in [s['on_timeout'] for s in states] + [op[2] for op in hist if op[0] == 3]:
        for cb in lst:
            cb['named'] = rng.random() < 0.5      # given as the name of a model method instead of a callable
    group = []
    others = [s for s in states if s['id'] != init]
    if len(others) >= 2 and not malformed and rng.random() < 0.3:
        # two states created by one add_states call: same timeout, same handler / callback lists handed over once;
        # afterwards the list of ONE of them is changed in place, while a model may be waiting in the other
        a, b = rng.sample(others, 2)
        for k in ('timeout', 'given', 'on_timeout', 'enter', 'exit'):
            b[k] = copy.deepcopy(a[k])
        group = [a['id'], b['id']]
        if a['timeout']:
            evs = [i for i, op in enumerate(hist) if op[0] == 0] or [0]
            extra = [dict(id=900 + j, act=None, raises=False, kind=KIND_EXCEPTION, named=rng.random() < 0.5)
                     for j in range(rng.choice([0, 1, 2]))]
            hist.insert(rng.choice(evs) + 1, [3, rng.choice(group), extra, 1])
    for s in states:
        # a single handler passed bare (not in a list), also on states whose timeout is 0 at creation
        s['bare'] = s['given'] and len(s['on_timeout']) == 1 and rng.random() < 0.5
    if rng.random() < 0.5:
        # re-enter and leave again at the same instant: a pair of events of one model with nothing in between
        k = rng.randrange(len(hist) + 1)
        m = rng.randrange(nm)
        hist[k:k] = [[0, m, rng.randrange(ne)], [0, m, rng.randrange(ne)]]
    if is_async:
        hist = _settle_before_reassign(hist)
    return dict(variant='async' if is_async else 'thread', cls=cls, queued=queued, states=states, group=group,
                trans=trans, ignore=rng.random() < 0.3, onexc=[100 + j for j in range(rng.choice([0, 0, 1, 2]))],
                nmodels=nm, init=init, history=hist)


def _settle_before_reassign(hist):
    """asyncio: the timer task reads state.timeout when it first RUNS, one turn of the loop after the entry (see
    probes/C17-async-lazy-period.py); a reassignment is therefore only issued after the loop has had a turn: an
    advance(0) is put in front of it unless an advance is already there"""
    out = []
    for op in hist:
        if op[0] == 2 and not (out and out[-1][0] == 1):
            out.append([1, 0])
        out.append(op)
    return out


def _enc_cb(cb):
    return [cb['id'], [] if cb['act'] is None else [[[] if cb['act'][0] is None else [cb['act'][0]], cb['act'][1]]],
            bool(cb['raises'])]


def _enc_op(op):
    if op[0] == 3:
        return [3, op[1], [_enc_cb(cb) for cb in op[2]]]
    return list(op)


def _handler_lists(case):
    """every on_timeout list of the case: those the states are created with and those assigned at run time"""
    return [s['on_timeout'] for s in case['states']] + [op[2] for op in case['history'] if op[0] == 3]


def _enc_states(case):
    return [[s['id'], s['timeout'] or 0, bool(s['given']),
             [[cb['id'], [] if cb['act'] is None else [[[] if cb['act'][0] is None else [cb['act'][0]], cb['act'][1]]],
               bool(cb['raises'])] for cb in s['on_timeout']],
             [[cb['id'], [] if cb['act'] is None else [cb['act']]] for cb in s['enter']],
             [[cb['id'], [] if cb['act'] is None else [cb['act']]] for cb in s['exit']]] for s in case['states']]


def enc(case):
    return [0, case['variant'] == 'async', bool(case['queued']), _enc_states(case),
            [[e, s, [] if d is None else [d], bool(ok)] for e, s, d, ok in case['trans']],
            bool(case['ignore']), case['onexc'], case['nmodels'], case['init'],
            [_enc_op(op) for op in case['history']]]


def exit_guard(case):
    """guard_C17 of C17_once_on_time: a trigger issued by an on_exit callback is deferred (queued machine) or inert
    in the state the callback belongs to (anything else recurses for ever on an unqueued machine)"""
    if case['queued']:
        return True

    def inert(st, e):
        for t in case['trans']:
            if t[0] == e and t[1] == st and t[3]:
                return t[2] is None
        return True
    return all(cb['act'] is None or inert(s['id'], cb['act']) for s in case['states'] for cb in s['exit'])


def in_envelope(case):
    """guard_C17 and the asyncio envelope (see ASSUMPTIONS)"""
    if case['variant'] != 'async':
        return exit_guard(case)
    if not exit_guard(case):
        return False
    if case['history'] != _settle_before_reassign(case['history']):
        return False
    for s in case['states']:
        if any(len([cb for cb in s[k] if cb['act'] is not None]) > 1 for k in ('enter', 'exit')):
            return False
    for lst in _handler_lists(case):
        acting = [cb for cb in lst if cb['act'] is not None]
        if len(acting) > 1 or any(cb['act'][0] is not None for cb in acting):
            return False
        if acting and any(cb['raises'] for cb in lst if cb['act'] is None):
            return False
    return True


# ------------------------------------------------------------------ canonical form
def _item_model(it):
    if it[0] == K_SETTIMEOUT:
        return NO_MODEL
    return it[1] if it[0] in (K_EXITED, K_ENTERED, K_FIRED, K_RES, K_USER) else it[2]


def _handler_item(it):
    return it[0] in (K_FIRED, K_CTIMEOUT, K_ESCAPE) or (it[0] == K_ONEXC and it[3] != 0)


def canon(case, obs):
    """model output: drop the model's own spec verdict.  asyncio: gathered callbacks interleave between models and
    between a handler and the transition it triggered, so every step's items are regrouped (stably) by model and,
    per model, into handler items, callback items of transitions (the state seen by an on_enter / on_exit recorder
    depends on where the other gathered callbacks yield: dropped), marker items (with TFired again) and results of
    callback-triggered events, each group in its original order."""
    if not (isinstance(obs, list) and len(obs) == 2 and isinstance(obs[1], list) and obs[1] and obs[1][0] == 0):
        return obs
    steps = obs[1][1]
    if case['variant'] == 'async':
        out = []
        for items, res, snap, clock in steps:
            grouped = []
            for m in sorted({_item_model(it) for it in items}):
                mine = [it for it in items if _item_model(it) == m]
                cbs = [it[:3] + [0] + it[4:] if it[0] in (K_CEXIT, K_CENTER) else it
                       for it in mine if not _handler_item(it) and it[0] not in (K_RES, K_EXITED, K_ENTERED, K_SETTIMEOUT)]
                grouped.append([m, [it[:3] + [0] + it[4:] if it[0] == K_CTIMEOUT else it for it in mine if _handler_item(it)], cbs,
                                [it for it in mine if it[0] in (K_EXITED, K_ENTERED, K_FIRED, K_USER, K_SETTIMEOUT)],
                                [it for it in mine if it[0] == K_RES]])
            out.append([grouped, res, snap, clock])
        steps = out
    return [1, [0, steps]]


# ------------------------------------------------------------------ oracle: the extracted spec_C17 on the
# implementation's trace, the construction clause in Python
_DRIVER = [None]


def _spec_verdict(case, items, clock):
    import framework as F
    req = [1, _enc_states(case), case['nmodels'], case['init'], items, clock]
    line = '%d %s\n' % (KIND, F.to_sx(req))
    for attempt in (0, 1):
        try:
            if _DRIVER[0] is None or _DRIVER[0].poll() is not None:
                _DRIVER[0] = subprocess.Popen([F.DRIVER], stdin=subprocess.PIPE, stdout=subprocess.PIPE, text=True, bufsize=1)
            _DRIVER[0].stdin.write(line)
            _DRIVER[0].stdin.flush()
            ans = F.from_sx(_DRIVER[0].stdout.readline())
            return ans == [1, [2, 1]], ans
        except Exception:  # noqa
            _DRIVER[0] = None
    return False, 'driver unavailable'


def must_reject(case):
    return any((s['timeout'] or 0) > 0 and not s['given'] for s in case['states'])


def oracle(case, obs):
    if not isinstance(obs, list) or len(obs) != 2 or obs[0] != 1:
        return None
    if obs[1][0] == 1:
        return None if (must_reject(case) and obs[1][1] == 1) else 'C17_validation: construction raised %r' % (obs[1],)
    if must_reject(case):
        return 'C17_validation: a state with timeout > 0 and no on_timeout was accepted'
    steps = obs[1][1]
    items = []
    for st in steps:
        items += _markers(case, st)
    clock = steps[-1][3] if steps else 0
    ok, ans = _spec_verdict(case, items, clock)
    return None if ok else 'spec_C17 (extracted) is false on the implementation trace: %r' % (ans,)


def classify_known(case, model_obs, impl_obs):
    return None


class _Overflow(Exception):
    pass


def retriggers_terminate(case, depth=5, steps=12):
    """state-only simulation of every (state, event) start: do the triggers issued by on_enter / on_exit callbacks
    die out quickly (nesting depth on unqueued machines, queue length on queued ones)?"""
    sd = {s['id']: s for s in case['states']}
    events = sorted({t[0] for t in case['trans']})

    def dest(st, e):
        for t in case['trans']:
            if t[0] == e and t[1] == st and t[3]:
                return t
        return None

    def nested(st, e, dep):
        if dep > depth:
            raise _Overflow()
        t = dest(st, e)
        if t is None or t[2] is None:
            return st
        cur = st
        for cb in sd[st]['exit']:
            if cb['act'] is not None:
                cur = nested(cur, cb['act'], dep + 1)
        cur = t[2]
        for cb in sd[t[2]]['enter']:
            if cb['act'] is not None:
                cur = nested(cur, cb['act'], dep + 1)
        return cur

    def queued(st, e):
        q, cur, n = [e], st, 0
        while q:
            n += 1
            if n > steps:
                raise _Overflow()
            ev = q.pop(0)
            t = dest(cur, ev)
            if t is None or t[2] is None:
                continue
            q += [cb['act'] for cb in sd[cur]['exit'] if cb['act'] is not None]
            cur = t[2]
            q += [cb['act'] for cb in sd[cur]['enter'] if cb['act'] is not None]
        return cur
    try:
        for st in sd:
            for e in events:
                queued(st, e) if case['queued'] else nested(st, e, 0)
        return True
    except _Overflow:
        return False


def _has_out_of_fuel(obs):
    st = _steps(obs)
    if st is None:
        return False
    return any(r == [4] for _, r, _, _ in st) or any(it[0] == K_RES and it[3] == 4 for step in st for it in step[0])


def strip_retriggers(case):
    c = copy.deepcopy(case)
    for s in c['states']:
        for k in ('enter', 'exit'):
            for cb in s[k]:
                cb['act'] = None
    return c


def safe_cases(cases):
    """cases whose callbacks re-trigger for ever (the model runs out of fuel: Python would end in RecursionError
    or, queued, never return) lose their on_enter / on_exit triggers"""
    import framework as F
    cases = [c if retriggers_terminate(c) else strip_retriggers(c) for c in cases]
    mo = F.run_model(KIND, [enc(c) for c in cases])
    return [strip_retriggers(c) if _has_out_of_fuel(m) else c for c, m in zip(cases, mo)]


def gen_batch(seed, n, tier):
    import random
    return safe_cases([gen(random.Random('%s-%d-%d' % (PID, seed, i)), i, tier) for i in range(n)])


# ------------------------------------------------------------------ bookkeeping
def _steps(obs):
    if isinstance(obs, list) and len(obs) == 2 and obs[0] == 1 and obs[1][0] == 0:
        return obs[1][1]
    return None


def _flat_items(case, st):
    if case['variant'] == 'async':
        out = []
        for _, hi, ti, mk, rs in st[0]:
            out += hi + ti + [it for it in mk if it[0] != K_FIRED] + rs
        return out
    return st[0]


def _markers(case, st):
    """the marker items of one step in an order that respects time and every model's own order (asyncio: the
    per-model marker sequences merged by time; the clauses of spec_C17 that relate different models only concern
    TUser, which opens a step of its own)"""
    if case['variant'] == 'async':
        out = []
        for _, _hi, _ti, mk, _rs in st[0]:
            out += mk
        return sorted(out, key=lambda it: it[-1])
    return [it for it in st[0] if it[0] in (K_EXITED, K_ENTERED, K_FIRED, K_USER, K_SETTIMEOUT)]


def nontrivial(case, obs):
    steps = _steps(obs)
    return bool(steps) and any(it[0] == K_FIRED for st in steps for it in _flat_items(case, st))


def stats(case, obs, dist):
    def inc(k, n=1):
        dist[k] = dist.get(k, 0) + n
    inc('class_' + case['cls'])
    inc('queued' if case['queued'] else 'unqueued')
    inc('models_%d' % case['nmodels'])
    if any(cb['act'] is not None for s in case['states'] for cb in s['enter']):
        inc('cases_with_on_enter_callback_that_triggers')
    if any(cb['act'] is not None for s in case['states'] for cb in s['exit']):
        inc('cases_with_on_exit_callback_that_triggers')
    if any(not s['enter'] and not s['exit'] for s in case['states'] if s['timeout']):
        inc('cases_with_timeout_state_without_enter_exit_callbacks')
    for op in case['history']:
        if op[0] == 3:
            inc('on_timeout_list_emptied_at_run_time' if not op[2] else 'on_timeout_list_changed_at_run_time')
    if any(s['timeout'] and s['given'] and not s['on_timeout'] for s in case['states']):
        inc('cases_with_timeout_state_created_with_empty_on_timeout')
    steps = _steps(obs)
    if steps is None:
        inc('construction_raised' if isinstance(obs, list) and obs[0] == 1 else 'undecodable')
        return
    armed = {}
    for st in steps:
        items = _flat_items(case, st)
        inc('ops')
        for it in items:
            if it[0] == K_FIRED:
                inc('timeouts_fired')
                armed.pop(it[1], None)
            elif it[0] == K_ENTERED:
                if ([s['timeout'] or 0 for s in case['states'] if s['id'] == it[2]] or [0])[0] > 0:
                    inc('periods_started')
                    armed[it[1]] = True
            elif it[0] == K_EXITED:
                if armed.pop(it[1], None):
                    inc('periods_cancelled_by_exit')
            elif it[0] == K_RES:
                inc('events_triggered_by_callbacks')
            elif it[0] == K_ESCAPE:
                inc('handler_exception_left_thread')
            elif it[0] == K_ONEXC and it[3] != 0:
                inc('handler_exception_routed_to_on_exception')
            elif it[0] == K_SETTIMEOUT:
                inc('timeout_reassigned_to_0' if it[2] == 0 else 'timeout_reassigned')
            elif it[0] == K_USER:
                inc('user_events')
        if st[1] in ([R_MACHINE], [R_ATTRIBUTE]):
            inc('user_event_raised')


def shrink_candidates(case):
    h = case['history']
    for i in range(len(h)):
        if len(h) > 1:
            c = copy.deepcopy(case)
            del c['history'][i]
            yield c
    for i, op in enumerate(h):
        if op[0] == 1 and op[1] > 0:
            c = copy.deepcopy(case)
            c['history'][i][1] -= 1
            yield c
    for i in range(len(case['trans'])):
        if len(case['trans']) > 1:
            c = copy.deepcopy(case)
            del c['trans'][i]
            if {t[0] for t in c['trans']} == {t[0] for t in case['trans']}:
                yield c
    for si, s in enumerate(case['states']):
        for key in ('enter', 'exit', 'on_timeout'):
            for i in range(len(s[key])):
                c = copy.deepcopy(case)
                del c['states'][si][key][i]
                yield c
        for key in ('enter', 'exit'):
            for i, cb in enumerate(s[key]):
                if cb['act'] is not None:
                    c = copy.deepcopy(case)
                    c['states'][si][key][i]['act'] = None
                    yield c
        for i, cb in enumerate(s['on_timeout']):
            if cb['act'] is not None or cb['raises']:
                c = copy.deepcopy(case)
                c['states'][si]['on_timeout'][i].update(act=None, raises=False)
                yield c
    if case['onexc']:
        c = copy.deepcopy(case)
        c['onexc'] = c['onexc'][:-1]
        yield c
    if case['nmodels'] > 1 and all(op[0] != 0 or op[1] < case['nmodels'] - 1 for op in h) and \
            all(cb['act'] is None or cb['act'][0] is None or cb['act'][0] < case['nmodels'] - 1
                for lst in _handler_lists(case) for cb in lst):
        c = copy.deepcopy(case)
        c['nmodels'] -= 1
        yield c


# ------------------------------------------------------------------ extra checks
def _mutations(items, rng):
    """traces that violate the property, derived from a correct one (each must be rejected by spec_C17)"""
    fired = [i for i, it in enumerate(items) if it[0] == K_FIRED]
    out = []
    if fired:
        i = rng.choice(fired)
        nxt = [it for it in items[i + 1:] if it[0] in (K_EXITED, K_ENTERED, K_FIRED) and it[1] == items[i][1]][:1]
        if not (nxt and nxt[0][0] == K_EXITED and nxt[0][-1] == items[i][-1]):
            # (a stay that ends at the very instant of its deadline may end unfired: tie between timers)
            out.append(('timeout dropped', items[:i] + items[i + 1:]))
        out.append(('timeout fired twice', items[:i + 1] + [items[i]] + items[i + 1:]))
        late = list(items[i])
        late[3] += 1
        out.append(('timeout late', items[:i] + [late] + [it[:-1] + [max(it[-1], late[3])] for it in items[i + 1:]]))
        other = list(items[i])
        other[1] = 77
        out.append(('timeout of another model', items[:i] + [other] + items[i + 1:]))
    exits = [i for i, it in enumerate(items) if it[0] == K_EXITED]
    for i in exits:
        m, s, t = items[i][1:]
        if any(it[0] == K_FIRED and it[1] == m for it in items[i + 1:]):
            continue
        out.append(('timeout after the state was left', items[:i + 2] + [[K_FIRED, m, s, max(it[-1] for it in items)]] + items[i + 2:]))
        break
    return out


def extra_checks(tier, seed):
    """(1) non-vacuity of the oracle and validity of the theorem's instance: the extracted spec_C17 is true on the
    model's own trace of every sampled case (C17_once_on_time, evaluated) and false on every mutated trace (a dropped,
    doubled, late, foreign or posthumous timeout); (2) oracle only, beyond the flat model: HierarchicalMachine /
    LockedHierarchicalMachine / HierarchicalAsyncMachine with NESTED timeout states (a compound with a timeout and
    two children with timeouts, handlers that trigger events): the extracted spec_C17 evaluated with one pseudo-model
    per (model, nested state); (3) thorough tier: OCaml output of the extracted model = vm_compute inside coqc on a
    sample."""
    import random
    import framework as F
    out = []
    n = 300 if tier == 'quick' else 3000
    cases = safe_cases([gen(random.Random('C17-oracle-%d-%d' % (seed, i)), i, tier) for i in range(n)])
    mo = F.run_model(KIND, [enc(c) for c in cases])
    bad = None
    checked = mutated = 0
    rng = random.Random('C17-mut-%d' % seed)
    for c, m in zip(cases, mo):
        if m[0] != 1 or m[1][0] != 0:
            continue
        checked += 1
        if m[1][2] != 1:
            bad = dict(kind='counterexample', theorem='C17_once_on_time (extracted instance)', case=c, model_obs=m)
            break
        steps = m[1][1]
        items = [it for st in steps for it in st[0]]
        clock = steps[-1][3] if steps else 0
        for name, tr in _mutations(items, rng):
            mutated += 1
            ok, _ = _spec_verdict(c, tr, max([clock] + [it[-1] for it in tr]))
            if ok:
                bad = dict(kind='oracle-vacuous', theorem='spec_C17 rejects a trace with: ' + name, case=c, trace=tr)
                break
        if bad:
            break
    out.append(('spec_true_on_model_false_on_mutants', bad is None, dict(cases=checked, mutants_rejected=mutated), bad or {}))
    okn, detail, payload = nested_check(300 if tier == 'quick' else 4000, seed)
    out.append(('nested_timeout_states_oracle', okn, detail, payload))
    if tier == 'thorough':
        sample = [enc(c) for c in cases[:120]]
        try:
            vm = F.run_model_vm('9', sample, 'c17')
            ok = vm == mo[:120]
            detail = dict(cases=len(sample), equal=ok)
            payload = {} if ok else dict(kind='extraction', theorem='OCaml extraction = vm_compute',
                                         first=[(a, b) for a, b in zip(vm, mo) if a != b][:1])
        except Exception as ex:  # noqa
            ok, detail, payload = False, dict(error=str(ex)[-500:]), dict(kind='extraction', error=str(ex)[-1500:])
        out.append(('extraction_crosscheck_vm_compute', ok, detail, payload))
    return out


# ====================================================================================== nested timeout states
# (oracle only: the Coq model is flat; the extracted spec_C17 is evaluated with one pseudo-model per
#  (model, nested state) pair, every pair starting outside its state except the timeout-less initial state 0)
NESTED_NAMES = ['idle', 'P', 'P_c1', 'P_c2', 'Q']          # ids 0..4; P is a compound with initial child c1
NESTED_CLASSES = ['HierarchicalMachine', 'LockedHierarchicalMachine', 'HierarchicalAsyncMachine']


def gen_nested(rng):
    cls = rng.choice(NESTED_CLASSES)
    nm = rng.randint(1, 2)
    ne = rng.randint(2, 4)
    timeouts = [0] + [rng.choice([0, 1, 2, 3, 4, 5]) for _ in range(4)]
    if not any(timeouts[1:4]):
        timeouts[1] = 3
    acts = [None] + [rng.randrange(ne) if rng.random() < 0.3 else None for _ in range(4)]
    trans = []
    for e in range(ne):
        for src in rng.sample(range(5), rng.randint(2, 4)):
            trans.append([e, src, rng.choice([0, 1, 1, 2, 3, 3, 4, 4, src])])
    hist = []
    for k in range(rng.randint(3, 14)):
        if rng.random() < (0.8 if k < nm else 0.45):
            hist.append([0, rng.randrange(nm), rng.randrange(ne)])
        else:
            t = rng.choice([x for x in timeouts if x] or [2])
            hist.append([1, rng.choice([0, 1, 1, max(t - 1, 0), t, t, t + 1, t + rng.randint(2, 5)])])
    return dict(cls=cls, nmodels=nm, timeouts=timeouts, acts=acts, trans=trans, history=hist,
                queued=rng.random() < 0.3)


def run_nested(case):
    """returns (marker items with pseudo-models, final clock)"""
    tr = _import_transitions()
    from transitions import extensions as ext
    from transitions.extensions import states as S
    from transitions.extensions import asyncio as A
    is_async = case['cls'] == 'HierarchicalAsyncMachine'
    log = []
    models = [Mo() for _ in range(case['nmodels'])]
    mid = {id(m): i for i, m in enumerate(models)}
    clock = VClock()
    loop = VLoop() if is_async else None
    now = (lambda: loop.now()) if is_async else (lambda: clock.now)
    fired = [0]

    def marker(kind, sid):
        def f(event_data):
            if kind == K_FIRED:
                fired[0] += 1
                if fired[0] > MAX_FIRINGS:
                    raise RuntimeError('runaway')
            log.append([kind, mid[id(event_data.model)] * 5 + sid, sid, now()])
        return f

    def actor(sid):
        e = case['acts'][sid]
        if is_async:
            async def f(event_data):
                try:
                    await event_data.model.trigger('e%d' % e)
                except Exception:  # noqa
                    pass
        else:
            def f(event_data):
                try:
                    event_data.model.trigger('e%d' % e)
                except Exception:  # noqa
                    pass
        return f

    def sdef(sid, name):
        d = dict(name=name, on_enter=[marker(K_ENTERED, sid)], on_exit=[marker(K_EXITED, sid)])
        if case['timeouts'][sid]:
            d['timeout'] = case['timeouts'][sid]
            d['on_timeout'] = [marker(K_FIRED, sid)] + ([actor(sid)] if case['acts'][sid] is not None else [])
        return d

    sdefs = [sdef(0, 'idle'), dict(sdef(1, 'P'), children=[sdef(2, 'c1'), sdef(3, 'c2')], initial='c1'), sdef(4, 'Q')]
    saved = S.Timer
    S.Timer = make_vtimer(clock)
    try:
        base = getattr(A, case['cls']) if is_async else getattr(ext, case['cls'])

        @S.add_state_features(A.AsyncTimeout if is_async else S.Timeout)
        class M(base):
            pass
        machine = M(model=models, states=sdefs, initial='idle', auto_transitions=False, send_event=True,
                    ignore_invalid_triggers=True, queued=case['queued'])
        for e, s, d in case['trans']:
            machine.add_transition('e%d' % e, NESTED_NAMES[s], NESTED_NAMES[d])
        items = [[K_EXITED, m * 5 + sid, 0, 0] for m in range(case['nmodels']) for sid in range(1, 5)]
        if is_async:
            async def main():
                for op in case['history']:
                    if op[0] == 0:
                        log.append([K_USER, op[1], op[2], now()])
                        await models[op[1]].trigger('e%d' % op[2])
                    else:
                        await loop.advance(op[1])
                for t in [t for t in asyncio.all_tasks() if t is not asyncio.current_task()]:
                    t.cancel()
            try:
                loop.run_until_complete(main())
            finally:
                end = loop.now()
                loop.close()
        else:
            for op in case['history']:
                if op[0] == 0:
                    log.append([K_USER, op[1], op[2], now()])
                    models[op[1]].trigger('e%d' % op[2])
                else:
                    clock.advance(op[1])
            end = clock.now
        return items + log, end
    finally:
        S.Timer = saved


def nested_request(case, items, end):
    return [1, [[sid, case['timeouts'][sid], True, [], [], []] for sid in range(5)], case['nmodels'] * 5, 0, items, end]


def nested_check(n, seed):
    """(ok, detail, payload) of the oracle-only check on HSMs with nested timeout states"""
    import random
    import framework as F
    cases = [gen_nested(random.Random('C17-nested-%d-%d' % (seed, i))) for i in range(n)]
    runs = []
    for c in cases:
        try:
            runs.append(run_nested(c))
        except Exception as ex:  # noqa
            return False, dict(error=repr(ex)[:300]), dict(kind='oracle', theorem='spec_C17 on nested timeout states',
                                                          case=c, error=repr(ex)[:1000])
    ans = F.run_model(KIND, [nested_request(c, items, end) for c, (items, end) in zip(cases, runs)])
    firing = sum(1 for items, _ in runs if any(it[0] == K_FIRED for it in items))
    for c, (items, end), a in zip(cases, runs, ans):
        if a != [1, [2, 1]]:
            return False, dict(cases=n), dict(kind='oracle', theorem='spec_C17 on nested timeout states', case=c,
                                              impl_obs=items, clock=end,
                                              failing_clause='spec_C17 (extracted) is false on the trace of a machine with nested timeout states')
    return True, dict(cases=n, cases_with_a_firing=firing), {}
