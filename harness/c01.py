"""C01 — flat execution order: correspondence of the real Machine with the Coq flat engine
(which Props/C01.v proves equal to the documented order for every non-raising environment)."""
import copy
import flat

PID = 'C01'
KIND = 0
IMPL = ('flat', 'impl_flat')
COUNTS = dict(quick=1500, thorough=60000)
RULE = ('cases = random flat machines (1-5 states, 1-3 events, 1-4 candidates per (event, source), 0-3 callbacks '
        'per slot, wildcard-free after expansion, internal/reflexive transitions, final flags, both ignore levels, '
        'send_event on/off) x env (condition values by position and by callback) x histories of 1-8 calls '
        '(trigger(name) / event method, unknown events; every 4th case interleaves may_trigger calls); every 7th case is from the malformed stream '
        '(unregistered destinations). Non-trivial: some call executed a transition after at least one failed '
        'condition/unless check (a blocked earlier candidate or check), distinct by hash of the case.')
ASSUMPTIONS = ['callbacks in this check neither raise nor call back into the machine (C04/C05 cover those)',
               'Python runtime semantics of the recording callables']
THEOREMS = ['C01_order', 'C01_invalid', 'C01_payload', 'C01_unknown_event']


def gen(rng, i, tier):
    c = flat.gen_case(rng, malformed=(i % 7 == 6), p_build=0.3, p_self=0.15, p_multi=0.25)
    if i % 3 == 2:
        # the markup / diagram classes re-declare add_transition, add_states, remove_transition (class equivalence
        # proper is C09; here they carry the construction routes)
        c['cls'] = ['MarkupMachine', 'GraphMachine', 'LockedMachine'][(i // 3) % 3]
    if i % 4 == 1:
        # may_<event>() calls interleaved with the triggers: they must not influence what later triggers do
        hist = []
        for (k, e, a) in c['history']:
            if rng.random() < 0.6:
                hist.append((1, e, 300 + a))
            hist.append((k, e, a))
        c['history'] = hist
    return c


def enc(case):
    return flat.enc_case(case)


def in_envelope(case):
    m = case['machine']
    regs = {s for s, _ in m['states']}
    for _, ts in m['events']:
        for t in ts:
            if t['dst'] is not None and t['dst'] not in regs:
                return False
    return True


def _failed_check(it):
    return (it[0] == 2 and not it[6]) or (it[0] == 3 and it[6])


def nontrivial(case, obs):
    if not isinstance(obs, list) or obs[0] != 1:
        return False
    for items, res, st in obs[1]:
        if res == [0, True] and any(_failed_check(it) for it in items):
            return True
    return False


def stats(case, obs, dist):
    if not isinstance(obs, list) or obs[0] != 1:
        dist['undecodable'] = dist.get('undecodable', 0) + 1
        return
    for (k, e, a), (items, res, st) in zip(case['history'], obs[1]):
        key = {(0, True): 'executed', (0, False): 'blocked_or_ignored'}.get((res[0], res[1]) if res[0] == 0 else None)
        if key is None:
            key = 'raised_%s' % {0: 'MachineError', 1: 'AttributeError', 2: 'ValueError'}.get(res[1][0], 'other')
        dist[key] = dist.get(key, 0) + 1
        dist['calls'] = dist.get('calls', 0) + 1
        dist['items'] = dist.get('items', 0) + len(items)
        if any(_failed_check(it) for it in items):
            dist['calls_with_failed_check'] = dist.get('calls_with_failed_check', 0) + 1
        if res == [0, True] and not any(it[0] in (6, 7) for it in items):
            dist['executed_without_exit_enter_items'] = dist.get('executed_without_exit_enter_items', 0) + 1
    dist['send_event_cases'] = dist.get('send_event_cases', 0) + (1 if case['machine']['send'] else 0)
    dist['states_total'] = dist.get('states_total', 0) + len(case['machine']['states'])


def shrink_candidates(case):
    # shorter history
    h = case['history']
    for i in range(len(h)):
        c = copy.deepcopy(case)
        del c['history'][i]
        if c['history']:
            yield c
    m = case['machine']
    # drop transitions
    for ei, (e, ts) in enumerate(m['events']):
        for ti in range(len(ts)):
            if len(ts) > 1:
                c = copy.deepcopy(case)
                del c['machine']['events'][ei][1][ti]
                yield c
    # drop callbacks
    for key in ('prepare_event', 'before_sc', 'after_sc', 'finalize', 'on_exception', 'on_final'):
        for i in range(len(m[key])):
            c = copy.deepcopy(case)
            del c['machine'][key][i]
            yield c
    for si, (s, d) in enumerate(m['states']):
        for key in ('enter', 'exit'):
            for i in range(len(d[key])):
                c = copy.deepcopy(case)
                del c['machine']['states'][si][1][key][i]
                yield c
    for ei, (e, ts) in enumerate(m['events']):
        for ti, t in enumerate(ts):
            for key in ('prepare', 'conds', 'before', 'after'):
                for i in range(len(t[key])):
                    c = copy.deepcopy(case)
                    del c['machine']['events'][ei][1][ti][key][i]
                    yield c


def extra_checks(tier, seed):
    """(1) the flat asyncio classes (asyncio.py re-implements Transition.execute / _change_state): the same cases with
    callback lists trimmed to one entry (nothing for asyncio.gather to interleave), every call awaited to completion,
    against the flat Coq engine; (2) callbacks that call back into an UNQUEUED machine (a trigger issued from a
    callback is processed at once, inside the callback): flat classes against the re-entrant engine Reent.v - the
    state seen by every callback, reflexive and internal transitions included, with the model moved in between."""
    import random
    import framework as F
    import c05
    out = []
    n = 400 if tier == 'quick' else 10000
    cases = []
    for i in range(n):
        rng = random.Random('C01a-%d-%d' % (seed, i))
        c = flat.trim_flat(flat.gen_case(rng, malformed=False, p_unknown=0.0))
        c['cls'] = ['AsyncMachine', 'AsyncGraphMachine'][i % 2]
        c['awaitables'] = 1     # callbacks: plain / coroutine / plain function returning a Task
        c['env'] = dict(default=c['env']['default'], bypos={p: (r[0], None, []) for p, r in c['env']['bypos'].items()},
                        bycb={k: (r[0], None, []) for k, r in c['env']['bycb'].items()})
        cases.append(c)
    mo = F.run_model(0, [flat.enc_case(c) for c in cases])
    io = F.run_impl('flat', 'impl_flat_async', cases)
    bad = [(c, m, i) for c, m, i in zip(cases, mo, io) if m != i]
    internal = sum(1 for c, m in zip(cases, mo) if isinstance(m, list) and m[0] == 1
                   for st in m[1] if st[1] == [0, True] and not any(it[0] in (6, 7) for it in st[0]))
    detail = dict(cases=len(cases), disagreements=len(bad), executed_internal_transitions=internal)
    if bad:
        c, m, i = bad[0]
        out.append(('async_flat_order', False, detail, dict(kind='counterexample', stream='flat asyncio classes', case=c, model_obs=m, impl_obs=i)))
    else:
        out.append(('async_flat_order', True, detail, {}))
    n2 = 300 if tier == 'quick' else 8000
    cases = []
    for i in range(n2):
        rng = random.Random('C01r-%d-%d' % (seed, i))
        c = c05.gen(rng, 3 * i + 2, tier)          # the unqueued third of C05's generator
        c['cls'] = ['Machine', 'LockedMachine', 'GraphMachine'][i % 3]
        cases.append(c)
    mo = F.run_model(c05.KIND, [c05.enc(c) for c in cases])
    io = F.run_impl('c05', 'impl_queue', cases)
    bad = [(c, c05.canon(c, m), c05.canon(c, i)) for c, m, i in zip(cases, mo, io) if c05.canon(c, m) != c05.canon(c, i)]
    detail = dict(cases=len(cases), disagreements=len(bad))
    if bad:
        c, m, i = bad[0]
        out.append(('unqueued_reentrant_order', False, detail,
                    dict(kind='counterexample', stream='unqueued machine, callbacks that trigger', case=c, model_obs=m, impl_obs=i)))
    else:
        out.append(('unqueued_reentrant_order', True, detail, {}))
    # the same on the flat asyncio classes (callbacks await the nested trigger)
    import c18
    name, ok, detail, rep = c18.async_flat_reentrant_stream(tier, seed + 500)
    out.append(('unqueued_reentrant_order_asyncio', ok, detail, rep))
    # candidates created by add_ordered_transitions (per-position conditions / unless / before / after / prepare
    # lists, loop and loop_includes_initial, any subset / order of the states): "for each candidate transition of the
    # current state in definition order its prepare callbacks and its conditions followed by its unless checks"
    n3 = 300 if tier == 'quick' else 8000
    cases = []
    for i in range(n3):
        rng = random.Random('C01o-%d-%d' % (seed, i))
        c = flat.gen_ordered_case(rng)
        c['cls'] = ['Machine', 'LockedMachine', 'HierarchicalMachine', 'GraphMachine', 'HierarchicalGraphMachine'][i % 5]
        cases.append(c)
    mo = F.run_model(0, [flat.enc_case(c) for c in cases])
    io = F.run_impl('flat', 'impl_flat', cases)
    bad = [(c, m, i) for c, m, i in zip(cases, mo, io) if m != i]
    closing = sum(1 for c, m in zip(cases, mo) if c['ordered']['loop'] and isinstance(m, list) and m[0] == 1 and
                  any(st[1] == [0, True] for st in m[1]))
    detail = dict(cases=len(cases), disagreements=len(bad), with_loop_and_an_executed_transition=closing)
    if bad:
        c, m, i = bad[0]
        out.append(('ordered_transitions', False, detail,
                    dict(kind='counterexample', stream='add_ordered_transitions', case=c, model_obs=m, impl_obs=i)))
    else:
        out.append(('ordered_transitions', True, detail, {}))
    out.append(late_transitions_stream(tier, seed))
    return out


def late_transitions_stream(tier, seed, may=False, tag='C01l'):
    """machines reconfigured after events have been processed: the last transitions of some events are added by
    add_transition only after the k-th call.  Model: the flat engine on the reduced machine for the first k calls, then
    on the complete machine started in the state reached (callback behaviour by callback id, so positions do not
    matter)."""
    import copy
    import random
    import framework as F
    n = 300 if tier == 'quick' else 8000
    cases = []
    for i in range(n):
        rng = random.Random('%s-%d-%d' % (tag, seed, i))
        c = flat.gen_case(rng, malformed=False, hist_len=rng.randint(3, 8), p_unknown=0.0)
        if may:
            # may_<event> asked before every trigger - in particular in states that were already asked about before
            # the machine was reconfigured
            c['history'] = [x for (k, e, a) in c['history'] for x in ((1, e, 300 + a), (0, e, a))]
        c['env'] = dict(default=c['env']['default'], bypos={}, bycb={k: (r[0], None, []) for k, r in c['env']['bycb'].items()})
        c['cls'] = ['Machine', 'LockedMachine', 'GraphMachine', 'HierarchicalMachine'][i % 4]
        late = {}
        for e, ts in c['machine']['events']:
            # (an event that does not exist yet is an unknown name: the hierarchical classes answer those through
            # finalize / on_exception, Machine raises directly - outside C09's envelope, so not generated there)
            hi = len(ts) - 1 if 'Hierarchical' in c['cls'] else len(ts)
            if rng.random() < 0.6 and hi >= 1:
                late[e] = rng.randint(1, hi)
        c['late'] = (rng.randint(1, len(c['history']) - 1), late)
        cases.append(c)

    def phase1(c):
        c1 = copy.deepcopy(c)
        evs = []
        for e, ts in c1['machine']['events']:
            r = c['late'][1].get(e, 0)
            if len(ts) - r > 0:
                evs.append((e, ts[:len(ts) - r]))
        c1['machine']['events'] = evs
        c1['history'] = c['history'][:c['late'][0]]
        return c1
    m1 = F.run_model(0, [flat.enc_case(phase1(c)) for c in cases])
    second = []
    for c, o in zip(cases, m1):
        c2 = copy.deepcopy(c)
        c2['history'] = c['history'][c['late'][0]:]
        if isinstance(o, list) and o[0] == 1 and o[1]:
            c2['init'] = o[1][-1][2]
        second.append(c2)
    m2 = F.run_model(0, [flat.enc_case(c) for c in second])
    io = F.run_impl('flat', 'impl_flat_late', cases)
    bad = None
    used_late = 0
    for c, a, b, i in zip(cases, m1, m2, io):
        if not (isinstance(a, list) and isinstance(b, list) and a[0] == 1 and b[0] == 1):
            continue
        m = [1, a[1] + b[1]]
        if m != i and bad is None:
            bad = (c, m, i)
    detail = dict(cases=len(cases), disagreements=0 if bad is None else 1)
    if bad:
        c, m, i = bad
        return ('transitions_added_after_events', False, detail,
                dict(kind='counterexample', stream='add_transition after events have been processed', case=c, model_obs=m, impl_obs=i))
    return ('transitions_added_after_events', True, detail, {})
