"""C13 — equivalent ways of building a machine yield equivalent machines.

From one abstract description (states, initial, transition items, ordered rings, removals,
remove detours) the generator derives TWO construction scripts that differ in representation
(names / dicts / State objects / Enum members; callbacks by name, reference, dotted path,
property), batching (constructor arguments vs later add_* calls, add_transitions list vs dict
elements, one add_states vs several), shorthands ('*', '=', ordered helper vs explicit ring)
and detours (transitions added and removed again).  Both scripts are executed on the real
Machine / HierarchicalMachine and on the Coq model (Build.exec); observations: machine.states,
the source-keyed transition lists of every event, initial, get_triggers per state, and the
recorder trace / result / state of a random event history.  model == impl is the correspondence;
the oracle demands that the two real machines agree after normalisation."""
import copy
import enum
import sys

import flat
from framework import opt

PID = 'C13'
KIND = 5
IMPL = ('c13', 'impl_build')
COUNTS = dict(quick=3000, thorough=40000)
RULE = ('case = header (Machine or HierarchicalMachine, every third case their Graph variant with the mermaid engine, auto_transitions, ignore_invalid_triggers None/True/False, '
        'send_event, machine-level callbacks) + one abstract description (1-5 states with enter/exit callbacks, final, '
        'ignore flags; initial; 1-7 items: transitions with 1..all sources and dest same/one/internal, ordered rings with '
        'loop/loop_includes_initial/per-edge callbacks, removals with source/dest filters, add-then-remove detours) realised '
        'by two independently drawn scripts (state forms name/Enum/dict/State, callbacks by name/reference/dotted path/'
        'property, constructor vs later calls, model attached in the constructor or at a random later point, list vs dict '
        'add_transitions elements, wildcard / "=" / helper vs their expansion) + env + history of 1-8 triggers; every 9th case '
        'appends a raising call (unknown trigger removed, bad ordered arguments, unregistered State object, duplicate nested '
        'state). Non-trivial: both scripts succeed, are syntactically different, and the history executes a transition.')
ASSUMPTIONS = ['callbacks neither raise nor call back into the machine (C04/C05)',
               'hierarchical construction (Model/HBuild.v, dispatch kind 17): auto_transitions off, names/dicts/embedded '
               'machines (no NestedState objects, no Enum states, no parallel shorthand), initial of an embedded machine '
               'a top-level state; event transitions are compared per source (the library groups them by source); every '
               'third builder case uses a state class with its own separator; source=* / dest== declared inside a nested '
               'definition is handed to the library as shorthand and to the model unfolded by the generator; a nested '
               'state referenced by its State OBJECT in add_transition is named by its path (D50, fixed): object versus name varies '
               'between the two scripts on every level; state names are reused across levels (filters of remove_transition)',
               'State objects passed as references are the registered objects (identity is not modelled)',
               'embedded-machine check: event names include to_-prefixed names that are no automatic transitions, the '
               'embedded machine has auto_transitions on or off and one or two levels (also both: D33, fixed); user '
               'transitions on an event named like an automatic one while auto_transitions is on are not generated '
               '(the whole event is skipped on embedding)',
               'no known finding is attributed by this check: D27/D28 (Enum/State forms in add_ordered_transitions '
               'states and in Machine.remove_transition filters) are fixed in /repo and proved as laws']
THEOREMS = ['C13_callback_repr', 'C13_callback_repr_state', 'C13_callback_repr_machine', 'C13_state_repr',
            'C13_state_name_obj', 'C13_state_dict_obj', 'C13_ignore_fallback', 'C13_ref_repr',
            'C13_initial_repr', 'C13_ctor_later', 'C13_ctor_unfold', 'C13_script_compose', 'C13_batch_states',
            'C13_batch_transitions', 'C13_list_dict', 'C13_list_dict_forms', 'C13_wildcard', 'C13_many_split',
            'C13_reflexive', 'C13_wildcard_reflexive', 'C13_ordered_ring', 'C13_ordered_ring_example',
            'C13_remove_inverse', 'C13_behaviour', 'C13_behaviour_history', 'C13_equal_scripts_behave_equally',
            'C13_ordered_repr', 'C13_ordered_ts_repr', 'C13_ordered_default_states',
            'C13_ordered_enum_example', 'C13_remove_filter_repr', 'C13_remove_match_repr',
            'C13_remove_enum_example', 'C13_h_children_states', 'C13_h_children_states_script',
            'C13_h_nested_dict_joined_names', 'C13_h_nested_dict_joined_names_script', 'C13_h_names_example',
            'C13_h_embedded_machine', 'C13_h_embedded_machine_script', 'C13_h_dict_round_trip',
            'C13_h_embedded_remap', 'C13_h_embedded_remap_script', 'C13_h_never_mentioned',
            'C13_h_remove_never_added', 'C13_h_remove_never_added_scratch', 'C13_h_unique_event_names',
            'C13_h_remove_filter', 'C13_h_remove_filter_inverse', 'C13_h_remove_scope_example']
THEOREM_OF_DIFF = 'corr_C13: Build.exec = what /repo builds (Props/C13.v laws are about Build.exec)'

SLOTS5 = ['conditions', 'unless', 'before', 'after', 'prepare']
SLOTNAME = dict(conditions='cond', unless='unless', before='before', after='after', prepare='prepare',
                enter='enter', exit='exit', pe='prepare_event', bsc='before_sc', asc='after_sc', fin='finalize',
                oe='on_exception', of='on_final')
NPATH = 48


# ====================================================================== encoding
def enc_cbref(r):
    return [r[0], r[1]]


def enc_cbspec(s):
    if s is None:
        return [0]
    if s[0] == 'one':
        return [1, enc_cbref(s[1])]
    return [2, [enc_cbref(r) for r in s[1]]]


def enc_sref(r):
    return [r[0], r[1]]


def enc_sform(f):
    k = f['k']
    if k in (0, 1):
        return [k, f['n']]
    if k == 2:
        ign = [] if 'ign' not in f else [opt(f['ign'], bool)]
        return [2, f['n'], enc_cbspec(f['en']), enc_cbspec(f['ex']), bool(f['fin']), ign]
    return [3, f['n'], enc_cbspec(f['en']), enc_cbspec(f['ex']), bool(f['fin']), opt(f['ign'], bool)]


def enc_src(s):
    if s[0] == 'wild':
        return [0]
    if s[0] == 'one':
        return [1, enc_sref(s[1])]
    return [2, [enc_sref(r) for r in s[1]]]


def enc_dst(d):
    if d[0] == 'same':
        return [0]
    if d[0] == 'to':
        return [1, enc_sref(d[1])]
    return [2]


def enc_tspec(t):
    return [t['trig'], enc_src(t['src']), enc_dst(t['dst']), [enc_cbspec(t['cbs'].get(k)) for k in SLOTS5]]


def enc_oarg(a):
    if a is None:
        return [0]
    if a[0] == 'single':
        return [1, enc_cbref(a[1])]
    return [2, [enc_cbspec(x) for x in a[1]]]


def enc_filt(f, item):
    if f is None:
        return [0]
    return [1, [item(x) for x in f]]


def enc_op(o):
    k = o['op']
    if k == 'states':
        return [0, [enc_sform(f) for f in o['l']], enc_cbspec(o.get('en')), enc_cbspec(o.get('ex')),
                opt(o.get('ign'), bool), bool(o.get('fin', False))]
    if k == 'initial':
        return [1, enc_sref(o['r'])]
    if k == 'trans':
        return [2, enc_tspec(o['t'])]
    if k == 'transs':
        return [3, [[0 if f == 'pos' else 1, enc_tspec(t)] for f, t in o['l']]]
    if k == 'ordered':
        return [4, [opt(o['states'], lambda l: [enc_sref(r) for r in l]), o['trig'], bool(o['loop']), bool(o['incl'])]
                + [enc_oarg(o['args'].get(s)) for s in SLOTS5]]
    if k == 'remove':
        return [5, o['trig'], enc_filt(o['src'], enc_sref), enc_filt(o['dst'], lambda x: opt(x, enc_sref))]
    if k == 'model':
        return [6]
    raise ValueError(k)


def enc_hdr(h):
    return [bool(h['hsm']), bool(h['auto']), opt(h['ignore'], bool), bool(h['send'])] + \
           [enc_cbspec(h[k]) for k in ('pe', 'bsc', 'asc', 'fin', 'oe', 'of')]


def enc(case):
    return [enc_hdr(case['hdr']),
            [case['A']['ctor'], [enc_op(o) for o in case['A']['ops']]],
            [case['B']['ctor'], [enc_op(o) for o in case['B']['ops']]],
            flat.enc_env(case['env']), [[k, e, a] for k, e, a in case['history']]]


# ====================================================================== generation
def ev_user(k):
    return 2 * k


def ev_to(s):
    return 2 * s + 1


class Sim(object):
    """generator-side bookkeeping of the description (which states exist, which user transitions)"""

    def __init__(self):
        self.states = []
        self.initial = None
        self.trans = []      # (trig, src, dst or None)

    def add_state(self, n):
        if n not in self.states:
            self.states.append(n)


class G(object):
    def __init__(self, rng):
        self.r = rng
        self.cb = 0

    def ids(self, hi=2, p_empty=0.55):
        if self.r.random() < p_empty:
            return []
        out = []
        for _ in range(self.r.randint(1, hi)):
            self.cb += 1
            out.append(self.cb)
        return out


class Real(object):
    """one realisation (script) of the description: all representation choices are drawn here"""

    def __init__(self, rng, hsm, canonical=False):
        self.r = rng
        self.hsm = hsm
        self.canonical = canonical
        self.ops = []
        self.objdef = set()     # states whose registered object was created by this script as SObj
        self.enumdef = set()    # states this script defined from an Enum member (HSM: only those may be referenced by Enum)

    # ---- representation choices
    def cbref(self, c, cond=False):
        if self.canonical:
            return [1, c]
        forms = [0, 1, 1, 2] + ([3] if cond else [])
        f = self.r.choice(forms)
        if f == 2 and c >= NPATH:
            f = 1
        return [f, c]

    def cbspec(self, ids, cond=False):
        if not ids:
            return None if (self.canonical or self.r.random() < 0.8) else ['list', []]
        if len(ids) == 1 and (self.canonical or self.r.random() < 0.5):
            return ['one', self.cbref(ids[0], cond)]
        return ['list', [self.cbref(c, cond) for c in ids]]

    def sref(self, n, allow_obj=True, p_other=0.45):
        if self.canonical or self.r.random() > p_other:
            return [0, n]
        f = self.r.choice([1, 2] if allow_obj else [1])
        if f == 1 and self.hsm and n not in self.enumdef:
            f = 0
        return [f, n]

    def tcbs(self, cbs):
        return {k: self.cbspec(cbs.get(k, []), cond=k in ('conditions', 'unless')) for k in SLOTS5}


def default_state(st):
    return not st['enter'] and not st['exit'] and not st['fin'] and st['ign'] is None


def real_states(R, sts):
    """one add_states item -> ops"""
    r = R.r
    ops = []
    batch = []

    def flush():
        if batch:
            ops.append(dict(op='states', l=list(batch)))
            del batch[:]
    for st in sts:
        n = st['n']
        choices = ['dict', 'obj']
        if default_state(st):
            choices += ['name', 'name', 'enum']
        else:
            choices += ['common']
        c = 'obj' if R.canonical else r.choice(choices)
        if c == 'name':
            batch.append(dict(k=0, n=n))
        elif c == 'enum':
            batch.append(dict(k=1, n=n))
        elif c == 'dict':
            f = dict(k=2, n=n, en=R.cbspec(st['enter']), ex=R.cbspec(st['exit']), fin=st['fin'])
            if st['ign'] is not None or r.random() < 0.2:
                f['ign'] = st['ign']       # explicit key (possibly None = unset)
                if st['ign'] is None:
                    # an explicit None key suppresses the machine-level default baked in by add_states:
                    # effective value is still the machine's flag at trigger time
                    pass
            batch.append(f)
        elif c == 'obj':
            batch.append(dict(k=3, n=n, en=R.cbspec(st['enter']), ex=R.cbspec(st['exit']), fin=st['fin'], ign=st['ign']))
            R.objdef.add(n)
        else:
            flush()
            ops.append(dict(op='states', l=[dict(k=r.choice([0, 0, 1]), n=n)], en=R.cbspec(st['enter']),
                            ex=R.cbspec(st['exit']), ign=st['ign'], fin=st['fin']))
        if c != 'obj':
            R.objdef.discard(n)
        if c == 'enum' or (c == 'common' and ops[-1]['l'][0]['k'] == 1):
            R.enumdef.add(n)
        else:
            R.enumdef.discard(n)
        if batch and not R.canonical and r.random() < 0.3:
            flush()
    flush()
    return ops


def real_trans(R, it, sim_states):
    """one transition item (trig, srcs, dstmode, cbs) -> ops"""
    r = R.r
    srcs, dm = it['srcs'], it['dst']
    split = (not R.canonical) and len(srcs) > 1 and r.random() < 0.35

    def dst_for(s, single):
        if dm[0] == 'same':
            if single and (R.canonical or r.random() < 0.5):
                return ['to', R.sref(s)]
            return ['same']
        if dm[0] == 'to':
            return ['to', R.sref(dm[1])]
        return ['none']
    ops = []
    if split or R.canonical:
        for s in srcs:
            ops.append(dict(op='trans', t=dict(trig=it['trig'], src=['one', R.sref(s)], dst=dst_for(s, True),
                                               cbs=R.tcbs(it['cbs']))))
    else:
        if srcs == sim_states and r.random() < 0.6:
            src = ['wild']
        elif len(srcs) == 1 and r.random() < 0.7:
            src = ['one', R.sref(srcs[0])]
        else:
            src = ['many', [R.sref(s) for s in srcs]]
        ops.append(dict(op='trans', t=dict(trig=it['trig'], src=src, dst=dst_for(srcs[0], len(srcs) == 1),
                                           cbs=R.tcbs(it['cbs']))))
    return ops


def ring_edges(states, initial, loop, incl):
    """the documented meaning of add_ordered_transitions, written independently of the model"""
    sts = list(states)
    if initial in sts:
        i = sts.index(initial)
        sts = sts[i:] + sts[:i]
        first = sts[0 if incl else 1]
    else:
        first = sts[0]
    edges = [(sts[i], sts[i + 1]) for i in range(len(sts) - 1)]
    if loop:
        edges.append((sts[-1], first))
    return edges


def real_ordered(R, it, sim):
    r = R.r
    sts = it['states'] if it['states'] is not None else list(sim.states)
    edges = ring_edges(sts, sim.initial, it['loop'], it['incl'])
    if R.canonical or (r.random() < 0.5 and not it.get('force_helper')):
        return [dict(op='trans', t=dict(trig=it['trig'], src=['one', R.sref(s)], dst=['to', R.sref(d)],
                                        cbs=R.tcbs(cb))) for (s, d), cb in zip(edges, it['edge_cbs'])]
    args = {}
    for k in SLOTS5:
        per = [cb.get(k, []) for cb in it['edge_cbs']]
        cond = k in ('conditions', 'unless')
        if all(not p for p in per) and r.random() < 0.8:
            args[k] = None
        elif all(p == per[0] for p in per) and r.random() < 0.7:
            if len(per[0]) == 1 and r.random() < 0.5:
                args[k] = ['single', R.cbref(per[0][0], cond)]
            else:
                args[k] = ['list', [R.cbspec(per[0], cond)]]
        else:
            args[k] = ['list', [R.cbspec(p, cond) for p in per]]
    if it['states'] is None:
        states = None
    else:
        p_other = it.get('p_other', 0.0)
        states = [R.sref(s, p_other=p_other) for s in it['states']]
    return [dict(op='ordered', states=states, trig=it['trig'], loop=it['loop'], incl=it['incl'], args=args)]


def real_remove(R, it):
    def refs(l, p):
        return None if l is None else [None if x is None else R.sref(x, p_other=p) for x in l]
    p = it.get('p_other', 0.0)
    return [dict(op='remove', trig=it['trig'], src=refs(it['src'], p), dst=refs(it['dst'], p))]


def real_detour(R, it):
    if R.canonical or R.r.random() < 0.45:
        return []
    ops = []
    for t in it['adds']:
        ops += real_trans(R, t, None)
    ops += real_remove(R, it['remove'])
    return ops


def batch_transitions(R, ops):
    """group runs of add_transition calls into add_transitions([...]) with list/dict elements"""
    if R.canonical:
        return ops
    r = R.r
    out = []
    i = 0
    while i < len(ops):
        if ops[i]['op'] == 'trans' and r.random() < 0.5:
            j = i
            while j < len(ops) and ops[j]['op'] == 'trans' and (j == i or r.random() < 0.7):
                j += 1
            out.append(dict(op='transs', l=[[r.choice(['pos', 'kw']), o['t']] for o in ops[i:j]]))
            i = j
        else:
            out.append(ops[i])
            i += 1
    return out


def ctor_prefix(R, ops):
    """how many leading calls are folded into the constructor (shape: states, initial, transitions,
    default ordered, model)"""
    r = R.r
    k = 0
    if R.canonical:
        return 0

    def default_commons(o):
        return o.get('en') is None and o.get('ex') is None and o.get('ign') is None and not o.get('fin', False)
    if k < len(ops) and ops[k]['op'] == 'states' and default_commons(ops[k]) and r.random() < 0.75:
        k += 1
    ctor_states = {f['n']: f['k'] for f in ops[0]['l']} if k == 1 else {}
    if k < len(ops) and ops[k]['op'] == 'initial' and r.random() < 0.8:
        ref = ops[k]['r']
        if ref[0] == 2 and ctor_states.get(ref[1], 3) != 3:
            ops[k] = dict(op='initial', r=[0, ref[1]])     # no object to refer to before the machine exists
        k += 1
    else:
        return k
    if k < len(ops) and ops[k]['op'] in ('transs', 'trans') and r.random() < 0.6:
        # State objects cannot be referenced in constructor transitions unless defined as objects there
        def ok_ref(x):
            return x is None or x[0] != 2 or ctor_states.get(x[1], 0) == 3
        ts = [ops[k]['t']] if ops[k]['op'] == 'trans' else [t for _, t in ops[k]['l']]
        good = True
        for t in ts:
            refs = []
            if t['src'][0] == 'one':
                refs.append(t['src'][1])
            elif t['src'][0] == 'many':
                refs += t['src'][1]
            if t['dst'][0] == 'to':
                refs.append(t['dst'][1])
            good = good and all(ok_ref(x) for x in refs)
        if good:
            if ops[k]['op'] == 'trans':
                ops[k] = dict(op='transs', l=[[r.choice(['pos', 'kw']), ops[k]['t']]])
            k += 1
            if k < len(ops) and ops[k]['op'] == 'ordered' and is_default_ordered(ops[k]) and r.random() < 0.8:
                k += 1
    elif k < len(ops) and ops[k]['op'] == 'ordered' and is_default_ordered(ops[k]) and r.random() < 0.8:
        k += 1
    return k


def is_default_ordered(o):
    return (o['states'] is None and o['trig'] == 0 and o['loop'] and o['incl']
            and all(o['args'].get(s) is None for s in SLOTS5))


def realise(rng, hsm, items, canonical=False):
    R = Real(rng, hsm, canonical)
    sim = Sim()
    ops = []
    last_initial = -1
    for it in items:
        k = it['kind']
        if k == 'states':
            new = real_states(R, it['states'])
            for st in it['states']:
                sim.add_state(st['n'])
        elif k == 'initial':
            registered = it['n'] in sim.states
            ref = R.sref(it['n'])
            new = [dict(op='initial', r=ref)]
            if not registered and ref[0] == 2:
                R.objdef.add(it['n'])
            sim.add_state(it['n'])
            sim.initial = it['n']
        elif k == 'trans':
            new = real_trans(R, it, list(sim.states))
        elif k == 'ordered':
            new = real_ordered(R, it, sim)
        elif k == 'remove':
            new = real_remove(R, it)
        elif k == 'detour':
            new = real_detour(R, it)
        elif k == 'raw':
            new = [copy.deepcopy(it['opdef'])]
        else:
            raise ValueError(k)
        ops += new
        if k == 'initial':
            last_initial = len(ops)
    ops = batch_transitions(R, ops)
    pos_init = max([i for i, o in enumerate(ops) if o['op'] == 'initial'] + [-1]) + 1
    k = 0 if canonical else ctor_prefix(R, ops)
    # the model: constructor argument, or add_model at a random later point after the initial is set
    if canonical:
        at = len(ops)
    elif k >= pos_init and rng.random() < 0.5:
        ops.insert(k, dict(op='model'))
        return dict(ctor=k + 1, ops=ops)
    else:
        lo = max(k, pos_init)
        at = rng.randint(lo, len(ops)) if rng.random() < 0.6 else len(ops)
    ops.insert(at, dict(op='model'))
    return dict(ctor=k, ops=ops)


def gen_description(rng, hsm, auto, malformed):
    g = G(rng)
    r = rng
    ns = r.randint(1, 5)
    ids = list(range(ns))
    sts = [dict(n=n, enter=g.ids(), exit=g.ids(), fin=r.random() < 0.25, ign=r.choice([None, None, None, True, False]))
           for n in ids]
    init = r.choice(ids + ([ns] if r.random() < 0.1 else []))     # sometimes a state only the initial setter creates
    items = []
    first = r.randint(1, ns)
    if r.random() < 0.12:
        items.append(dict(kind='initial', n=init))
        rest0 = [s for s in sts[:first] if not (hsm and s['n'] == init)]
        if rest0:
            items.append(dict(kind='states', states=rest0))
        later = [s for s in sts[first:] if not (hsm and s['n'] == init)]
    else:
        items.append(dict(kind='states', states=sts[:first]))
        items.append(dict(kind='initial', n=init))
        later = [s for s in sts[first:] if not (hsm and s['n'] == init)]
    sim = Sim()
    for it in items:
        if it['kind'] == 'states':
            for s in it['states']:
                sim.add_state(s['n'])
        else:
            sim.add_state(it['n'])
            sim.initial = it['n']
    nev = r.randint(1, 3)
    used_events = set()

    def cbset():
        d = {}
        for k in SLOTS5:
            x = g.ids(2, 0.65)
            if x:
                d[k] = x
        return d

    nitems = r.randint(1, 7)
    for _ in range(nitems):
        kind = r.random()
        if later and r.random() < 0.4:
            take = r.randint(1, len(later))
            items.append(dict(kind='states', states=later[:take]))
            for s in later[:take]:
                sim.add_state(s['n'])
            later = later[take:]
            continue
        cur = list(sim.states)
        if kind < 0.5:
            trig = ev_user(r.randint(0, nev))
            if r.random() < 0.3:
                srcs = list(cur)
            else:
                srcs = r.sample(cur, r.randint(1, len(cur)))
                if r.random() < 0.3:
                    srcs.sort()
            dk = r.random()
            if dk < 0.25:
                dst = ['same']
            elif dk < 0.4:
                dst = ['none']
            else:
                dst = ['to', r.choice(cur)]
            items.append(dict(kind='trans', trig=trig, srcs=srcs, dst=dst, cbs=cbset()))
            for s in srcs:
                sim.trans.append((trig, s, s if dst[0] == 'same' else (dst[1] if dst[0] == 'to' else None)))
            used_events.add(trig)
        elif kind < 0.68:
            if r.random() < 0.5 or len(cur) < 2:
                states = None
                seq = cur
            else:
                seq = r.sample(cur, r.randint(2, len(cur)))
                states = seq
            if len(seq) < 2:
                continue
            loop = r.random() < 0.6
            incl = r.random() < 0.6
            trig = ev_user(r.choice([0, 0, r.randint(0, nev)]))
            edges = ring_edges(seq, sim.initial, loop, incl)
            mode = r.random()
            if mode < 0.35:
                edge_cbs = [{} for _ in edges]
            elif mode < 0.65:
                c = cbset()
                edge_cbs = [c for _ in edges]
            else:
                edge_cbs = [cbset() for _ in edges]
            it = dict(kind='ordered', states=states, trig=trig, loop=loop, incl=incl, edge_cbs=edge_cbs)
            if states is not None and r.random() < 0.5:
                it['p_other'] = 0.6          # Enum members / State objects in the explicit list (D27, fixed)
            items.append(it)
            for s, d in edges:
                sim.trans.append((trig, s, d))
            used_events.add(trig)
        elif kind < 0.82:
            trigs = sorted({t[0] for t in sim.trans})
            if not trigs:
                continue
            trig = r.choice(trigs)
            mine = [t for t in sim.trans if t[0] == trig]
            t = r.choice(mine)
            m = r.random()
            if hsm:
                src = None if m < 0.3 else [t[1]]
                dst = None if (m > 0.6 or t[2] is None) else [t[2]]
            else:
                src = None if m < 0.3 else sorted({t[1]} | ({r.choice(cur)} if r.random() < 0.3 else set()))
                dst = None if m > 0.6 else [t[2]] + ([r.choice(cur)] if r.random() < 0.2 else [])
            it = dict(kind='remove', trig=trig, src=src, dst=dst)
            if r.random() < 0.5:
                it['p_other'] = 0.6          # Enum members / State objects as filter elements (D28, fixed)
            items.append(it)
            sim.trans = [x for x in sim.trans
                         if not (x[0] == trig and (src is None or x[1] in src) and (dst is None or x[2] in dst))]
        else:
            # detour: transitions added and removed again by a filter that matches nothing else
            trig = ev_user(r.randint(0, nev + 1))
            s = r.choice(cur)
            d = r.choice(cur)
            if any(x[0] == trig and x[1] == s and x[2] == d for x in sim.trans):
                continue
            nadd = r.randint(1, 2)
            adds = [dict(kind='trans', trig=trig, srcs=[s], dst=['to', d], cbs=cbset()) for _ in range(nadd)]
            other = r.random() < 0.3 and not any(x[0] == trig for x in sim.trans)
            if other:
                s2 = r.choice(cur)
                adds.append(dict(kind='trans', trig=trig, srcs=[s2], dst=['none'] if not hsm else ['to', s2], cbs=cbset()))
                rem = dict(kind='remove', trig=trig, src=None, dst=None)
            else:
                rem = dict(kind='remove', trig=trig, src=[s], dst=[d])
            if r.random() < 0.4:
                rem['p_other'] = 0.6
            items.append(dict(kind='detour', adds=adds, remove=rem))
    if later and r.random() < 0.5:
        items.append(dict(kind='states', states=later))
        for s in later:
            sim.add_state(s['n'])
    if malformed:
        cur = list(sim.states)
        m = r.randrange(1 if hsm else 0, 6)   # HSM: removing an unknown trigger raises only while a model is attached
        if m == 0:
            opdef = dict(op='remove', trig=ev_user(nev + 3), src=None, dst=None)
        elif m == 1:
            opdef = dict(op='ordered', states=None, trig=0, loop=True, incl=True,
                         args=dict(conditions=['list', [None] * (len(cur) + 2)]))
        elif m == 2:
            opdef = dict(op='ordered', states=[[0, cur[0]]], trig=0, loop=True, incl=True, args={})
        elif m == 3:
            opdef = dict(op='trans', t=dict(trig=ev_user(nev + 2), src=['one', [2, 40]], dst=['to', [0, cur[0]]], cbs={}))
        elif m == 4:
            opdef = dict(op='trans', t=dict(trig=ev_user(nev + 2), src=['one', [0, cur[0]]], dst=['to', [1, 41]], cbs={}))
        else:
            opdef = dict(op='states', l=[dict(k=0, n=cur[0])])      # duplicate: ValueError on HSM only
        items.append(dict(kind='raw', opdef=opdef))
        if r.random() < 0.5:
            items.append(dict(kind='trans', trig=ev_user(0), srcs=[cur[0]], dst=['same'], cbs={}))
    return items, g, sorted(used_events), sim


def gen(rng, i, tier):
    r = rng
    malformed = (i % 9 == 8)
    hsm = r.random() < 0.35
    auto = r.random() < 0.2
    items, g, used, sim = gen_description(r, hsm, auto, malformed)
    hdr_ids = {k: g.ids(2, 0.6) for k in ('pe', 'bsc', 'asc', 'fin', 'oe', 'of')}
    rA = Real(r, hsm)
    hdr = dict(hsm=hsm, auto=auto, ignore=r.choice([None, None, True, False]), send=r.random() < 0.3)
    for k in ('pe', 'bsc', 'asc', 'fin', 'oe', 'of'):
        hdr[k] = rA.cbspec(hdr_ids[k])
    A = realise(r, hsm, items, canonical=(r.random() < 0.15))
    B = realise(r, hsm, items)
    # env: condition outcomes
    bycb = {}
    for c in range(1, g.cb + 1):
        if r.random() < 0.5:
            bycb[c] = (r.random() < 0.7, None, [])
    bypos = {p: (r.random() < 0.7, None, []) for p in range(50) if r.random() < 0.3}
    if hsm:
        bypos = {}     # positions shift when HierarchicalMachine calls on_exception/finalize for an unknown event name
    env = dict(default=r.random() < 0.8, bypos=bypos, bycb=bycb)
    evs = list(used) or [ev_user(0)]
    hist = []
    for j in range(r.randint(1, 8)):
        x = r.random()
        if x < 0.8:
            e = r.choice(evs)
        elif x < 0.9 and auto and sim.states:
            e = ev_to(r.choice(sim.states))
        else:
            e = ev_user(9)
        hist.append((r.choice([0, 0, 2]), e, 100 + j))
    hdr['graph'] = (i % 3 == 1)      # GraphMachine / HierarchicalGraphMachine (mermaid engine) instead of the plain class
    case = dict(hdr=hdr, A=A, B=B, env=env, history=hist, nstates=max([0] + sim.states) + 1)
    fix_unless_polarity(case)
    return case


def fix_unless_polarity(case):
    pass


# ====================================================================== implementation side
def ev_name(k):
    if k % 2:
        return 'to_s%d' % (k // 2)
    return 'next_state' if k == 0 else 'e%d' % (k // 2)


def ev_num(name):
    if name == 'next_state':
        return 0
    if name.startswith('to_s'):
        return 2 * int(name[4:]) + 1
    return 2 * int(name[1:])


def st_num(v):
    if isinstance(v, enum.Enum):
        v = v.name
    try:
        return int(str(v)[1:])
    except Exception:
        return 999


_PATH_TARGETS = [None] * NPATH

# The dotted-path form of a callback points into a SUBMODULE of a package that nothing else imports:
# <dir>/c13pkg_<pid>/__init__.py, /sub/__init__.py (both empty) and /sub/mod.py with the callables cb_<n>, created at
# run time.  The harness never imports the submodules itself and forgets them before every case, so the library's
# resolve_callable has to perform the import of 'c13pkg_<pid>.sub.mod' on its own.
_MOD_SRC = '''import sys


def _mk(i):
    def f(*a, **k):
        return sys.modules['c13']._PATH_TARGETS[i](*a, **k)
    f.__name__ = 'cb_%d' % i
    return f


for _i in range({n}):
    globals()['cb_%d' % _i] = _mk(_i)
'''


def ensure_pkg():
    """name of the temporary package (created once by the first process that needs it, inherited by the workers
    through the environment, removed by its creator at exit)"""
    import atexit
    import importlib
    import os
    import shutil
    import tempfile
    root = os.environ.get('VERIF_C13_PKG_ROOT')
    name = os.environ.get('VERIF_C13_PKG_NAME')
    if not (root and name and os.path.isdir(os.path.join(root, name, 'sub'))):
        root = tempfile.mkdtemp(prefix='verif-c13-')
        name = 'c13pkg_%d' % os.getpid()
        os.makedirs(os.path.join(root, name, 'sub'))
        open(os.path.join(root, name, '__init__.py'), 'w').close()
        open(os.path.join(root, name, 'sub', '__init__.py'), 'w').close()
        with open(os.path.join(root, name, 'sub', 'mod.py'), 'w') as f:
            f.write(_MOD_SRC.format(n=NPATH))
        os.environ['VERIF_C13_PKG_ROOT'] = root
        os.environ['VERIF_C13_PKG_NAME'] = name
        creator = os.getpid()

        def cleanup():
            if os.getpid() == creator:
                shutil.rmtree(root, ignore_errors=True)
        atexit.register(cleanup)
    if root not in sys.path:
        sys.path.insert(0, root)
        importlib.invalidate_caches()
    return name


PKG = ensure_pkg()


def forget_pkg():
    for k in [k for k in sys.modules if k == PKG or k.startswith(PKG + '.')]:
        del sys.modules[k]


class Builder(object):
    """executes one script on the real library"""

    def __init__(self, case, script):
        self.tr = flat._import_transitions()
        from transitions.extensions.nesting import HierarchicalMachine, NestedState
        self.case = case
        self.script = script
        h = case['hdr']
        self.hsm = h['hsm']
        self.cls = HierarchicalMachine if self.hsm else self.tr.Machine
        self.cls_kwargs = {}
        if h.get('graph'):
            # the graph variants re-declare add_transition & co.: same scripts, same machine
            self.cls = flat.get_class('HierarchicalGraphMachine' if self.hsm else 'GraphMachine')
            self.cls_kwargs = flat.class_kwargs('GraphMachine')
        self.state_cls = NestedState if self.hsm else self.tr.State
        self.world = flat.World(case['env'], h['send'])
        self.world.state_of = lambda m: st_num(getattr(m, 'state', None))
        self.world.perform = lambda a: None
        self.E = enum.Enum('E', {('s%d' % n): n for n in range(max(case['nstates'], 1) + 45)})
        self.props = {}
        self.model_attrs = {}
        self.machine = None
        self.slot_of = {}
        self.Model = type('Model', (object,), {})
        self.model = self.Model()
        self.world.model_ids[id(self.model)] = 0
        self.world.current_model = self.model

    # ---- callbacks
    def cb(self, ref, slot):
        form, c = ref
        rec = self.world.recorder(SLOTNAME[slot], c)
        rec.cb_id = c
        if form == 1:
            return rec
        if form == 0:
            name = 'cb_%s_%d' % (slot, c)
            setattr(self.model, name, rec)
            return name
        if form == 2:
            _PATH_TARGETS[c] = rec
            return '%s.sub.mod.cb_%d' % (PKG, c)
        name = 'prop_%s_%d' % (slot, c)
        setattr(self.Model, name, property(lambda self_, rec=rec: rec()))
        return name

    def cbspec(self, s, slot):
        if s is None:
            return None
        if s[0] == 'one':
            return self.cb(s[1], slot)
        return [self.cb(r, slot) for r in s[1]]

    @staticmethod
    def cb_ids(l):
        out = []
        for f in l:
            if isinstance(f, str):
                out.append(int(f.rsplit('_', 1)[1]))
            else:
                out.append(getattr(f, 'cb_id', 999))
        return out

    # ---- states
    def sref(self, r):
        form, n = r
        name = 's%d' % n
        if form == 0:
            return name
        if form == 1:
            return self.E[name]
        if self.machine is not None and name in self.machine.states:
            return self.machine.states[name]
        if name in self.pending_objs:
            return self.pending_objs[name]
        return self.state_cls(name)

    def sform(self, f):
        n = 's%d' % f['n']
        k = f['k']
        if k == 0:
            return n
        if k == 1:
            return self.E[n]
        if k == 2:
            d = dict(name=n, on_enter=self.cbspec(f['en'], 'enter'), on_exit=self.cbspec(f['ex'], 'exit'), final=f['fin'])
            if 'ign' in f:
                d['ignore_invalid_triggers'] = f['ign']
            return d
        o = self.state_cls(n, on_enter=self.cbspec(f['en'], 'enter'), on_exit=self.cbspec(f['ex'], 'exit'),
                           ignore_invalid_triggers=f['ign'], final=f['fin'])
        self.pending_objs[n] = o
        return o

    # ---- transitions
    def tkwargs(self, t):
        src = t['src']
        source = '*' if src[0] == 'wild' else self.sref(src[1]) if src[0] == 'one' else [self.sref(x) for x in src[1]]
        d = t['dst']
        dest = '=' if d[0] == 'same' else self.sref(d[1]) if d[0] == 'to' else None
        kw = dict(trigger=ev_name(t['trig']), source=source, dest=dest)
        for k in SLOTS5:
            v = self.cbspec(t['cbs'].get(k), k)
            if v is not None:
                kw[k] = v
        return kw

    def telem(self, form, t):
        kw = self.tkwargs(t)
        if form == 'kw':
            return kw
        l = [kw['trigger'], kw['source'], kw['dest']] + [kw.get(k) for k in SLOTS5]
        while len(l) > 3 and l[-1] is None:
            l.pop()
        return l

    def oarg(self, a, slot):
        if a is None:
            return None
        if a[0] == 'single':
            return self.cb(a[1], slot)
        return [self.cbspec(x, slot) for x in a[1]]

    # ---- running
    def construct(self, ops):
        h = self.case['hdr']
        kw = dict(model=None, initial=None, auto_transitions=h['auto'], send_event=h['send'],
                  ignore_invalid_triggers=h['ignore'],
                  prepare_event=self.cbspec(h['pe'], 'pe'), before_state_change=self.cbspec(h['bsc'], 'bsc'),
                  after_state_change=self.cbspec(h['asc'], 'asc'), finalize_event=self.cbspec(h['fin'], 'fin'),
                  on_exception=self.cbspec(h['oe'], 'oe'), on_final=self.cbspec(h['of'], 'of'))
        for o in ops:
            if o['op'] == 'states':
                kw['states'] = [self.sform(f) for f in o['l']]
            elif o['op'] == 'initial':
                kw['initial'] = self.sref(o['r'])
            elif o['op'] == 'transs':
                kw['transitions'] = [self.telem(f, t) for f, t in o['l']]
            elif o['op'] == 'ordered':
                kw['ordered_transitions'] = True
            elif o['op'] == 'model':
                kw['model'] = self.model
            else:
                raise RuntimeError('bad constructor op ' + o['op'])
        kw.update(self.cls_kwargs)
        self.machine = self.cls(**kw)

    def run_op(self, o):
        m = self.machine
        k = o['op']
        if k == 'states':
            kw = {}
            if o.get('en') is not None:
                kw['on_enter'] = self.cbspec(o['en'], 'enter')
            if o.get('ex') is not None:
                kw['on_exit'] = self.cbspec(o['ex'], 'exit')
            if o.get('ign') is not None:
                kw['ignore_invalid_triggers'] = o['ign']
            if o.get('fin'):
                kw['final'] = True
            forms = [self.sform(f) for f in o['l']]
            m.add_states(forms[0] if len(forms) == 1 and len(o['l']) % 2 else forms, **kw)
        elif k == 'initial':
            m.initial = self.sref(o['r'])
        elif k == 'trans':
            if (o['t']['trig'] + len(str(o['t']['cbs']))) % 2:
                m.add_transition(*self.telem('pos', o['t']))      # positional call
            else:
                m.add_transition(**self.tkwargs(o['t']))
        elif k == 'transs':
            m.add_transitions([self.telem(f, t) for f, t in o['l']])
        elif k == 'ordered':
            kw = dict(trigger=ev_name(o['trig']), loop=o['loop'], loop_includes_initial=o['incl'])
            if o['states'] is not None:
                kw['states'] = [self.sref(r) for r in o['states']]
            for s in SLOTS5:
                v = self.oarg(o['args'].get(s), s)
                if v is not None:
                    kw[s] = v
            m.add_ordered_transitions(**kw)
        elif k == 'remove':
            kw = {}
            for key, name in (('src', 'source'), ('dst', 'dest')):
                f = o[key]
                if f is None:
                    continue
                vals = [None if x is None else self.sref(x) for x in f]
                if len(vals) == 1 and vals[0] is not None and (self.hsm or len(str(o)) % 2):
                    kw[name] = vals[0]
                else:
                    kw[name] = vals
            m.remove_transition(ev_name(o['trig']), **kw)
        elif k == 'model':
            m.add_model(self.model)
        else:
            raise RuntimeError(k)

    def trans_obs(self, t):
        conds = [[self.cb_ids([c.func])[0], int(bool(c.target))] for c in t.conditions]
        return [st_num(t.source), opt(None if t.dest is None else st_num(t.dest)), self.cb_ids(t.prepare), conds,
                self.cb_ids(t.before), self.cb_ids(t.after)]

    def structure(self):
        m = self.machine
        states = [[st_num(n), self.cb_ids(s.on_enter), self.cb_ids(s.on_exit), int(bool(getattr(s, 'final', False))),
                   opt(s.ignore_invalid_triggers, lambda v: int(bool(v)))] for n, s in m.states.items()]
        events = [[ev_num(tn), [[st_num(src), [self.trans_obs(t) for t in ts]] for src, ts in ev.transitions.items()]]
                  for tn, ev in m.events.items()]
        init = m.initial
        trig = [[st_num(n), [ev_num(x) for x in m.get_triggers(n)]] for n in m.states]
        has_model = self.model in m.models
        return [states, events, opt(None if init is None else st_num(init)), trig,
                opt(st_num(self.model.state) if has_model else None)]

    def run(self):
        sc = self.script
        ops = sc['ops']
        self.pending_objs = {}
        codes = {KeyError: 0, ValueError: 1, AttributeError: 2}

        def code(e):
            for t, c in codes.items():
                if isinstance(e, t):
                    return c
            return 9
        k = sc['ctor']
        try:
            self.construct(ops[:k])
        except Exception as e:  # noqa
            # the model reports the index of the failing constructor step; the library only the exception
            return [0, code(e), None, []]
        for i in range(k, len(ops)):
            try:
                self.run_op(ops[i])
            except Exception as e:  # noqa
                return [0, code(e), i, [self.structure()]]
        st = self.structure()
        hist = []
        if self.model in self.machine.models:
            model = self.model
            world = self.world
            for kk, e, a in self.case['history']:
                tok = flat.Token(a)
                world.items = []
                name = ev_name(e)
                try:
                    if kk == 0:
                        r = model.trigger(name, tok, k=tok)
                    else:
                        r = getattr(model, name)(tok, k=tok)
                    res = [0, bool(r)]
                except BaseException as ex:  # noqa
                    res = [1, flat.classify_exc(ex)]
                hist.append([world.items, res, st_num(model.state)])
        return [1, st, hist]


def impl_build(case):
    out = [1]
    for key in ('A', 'B'):
        forget_pkg()        # the library has to import the submodule of the dotted path itself
        out.append(Builder(case, case[key]).run())
    return out


# ====================================================================== comparison
def canon(case, obs):
    """drop what C13 does not speak about: the argument/err fields of trace items (C01/C04), and the
    position of a failing constructor step (the library raises from one call)"""
    if not isinstance(obs, list) or len(obs) != 3 or obs[0] != 1:
        return obs
    out = [1]
    for key, o in zip(('A', 'B'), obs[1:]):
        o = copy.deepcopy(o)
        if o[0] == 0:
            if o[2] is None or o[2] < case[key]['ctor']:
                o[2] = -1
                o[3] = []
        else:
            defined = {e for e, _ in o[1][1]}
            for idx, call in enumerate(o[2]):
                call[0] = [[it[0], it[1], it[3], int(bool(it[6]))] for it in call[0]]
                if isinstance(call[1][1], bool):
                    call[1] = [call[1][0], int(call[1][1])]
                if case['hdr']['hsm'] and case['history'][idx][1] not in defined:
                    # an event name the machine does not know: HierarchicalMachine routes the AttributeError
                    # through on_exception/finalize, Machine does not (C09's subject, not C13's)
                    o[2][idx] = 'unknown-event-on-hsm'
        out.append(o)
    return out


def _eff(ign, h):
    if ign:
        return bool(ign[0])
    return bool(h['ignore'])


def normalise(case, o):
    """what must coincide for two scripts of one description"""
    h = case['hdr']
    if o[0] == 0:
        return ['error', o[1]]
    st, hist = o[1], o[2]
    states = [[s[0], s[1], s[2], s[3], _eff(s[4], h)] for s in st[0]]
    events = sorted([e, sorted([src, ts] for src, ts in groups)] for e, groups in st[1])
    trig = [[s, sorted(t)] for s, t in st[3]]
    return ['ok', states, events, st[2], trig, st[4], hist]


def oracle(case, obs):
    if not isinstance(obs, list) or len(obs) != 3 or obs[0] != 1:
        return 'implementation observation malformed'
    a, b = normalise(case, obs[1]), normalise(case, obs[2])
    if a == b:
        return None
    if a[0] != b[0]:
        return 'one script raises (%r), the other does not (%r)' % (a[:2], b[:2])
    names = ['status', 'states', 'transitions', 'initial', 'get_triggers', 'model state', 'history']
    for i, (x, y) in enumerate(zip(a, b)):
        if x != y:
            return 'two scripts of one description differ in %s: %r vs %r' % (names[i], x, y)
    return 'two scripts differ'


def in_envelope(case):
    return True


def nontrivial(case, obs):
    if not isinstance(obs, list) or len(obs) != 3 or obs[0] != 1:
        return False
    a, b = obs[1], obs[2]
    if a[0] != 1 or b[0] != 1:
        return False
    if case['A']['ops'] == case['B']['ops'] and case['A']['ctor'] == case['B']['ctor']:
        return False
    return any((not isinstance(call, str)) and call[1] == [0, True] for call in a[2])


def stats(case, obs, dist):
    def inc(k, n=1):
        dist[k] = dist.get(k, 0) + n
    inc('hsm_cases' if case['hdr']['hsm'] else 'machine_cases')
    if case['hdr'].get('graph'):
        inc('graph_class_cases')
    if case['hdr']['auto']:
        inc('auto_transitions_cases')
    for key in ('A', 'B'):
        sc = case[key]
        inc('scripts')
        inc('ops', len(sc['ops']))
        inc('ctor_ops', sc['ctor'])
        for o in sc['ops']:
            inc('op_' + o['op'])
            if o['op'] == 'trans' or o['op'] == 'transs':
                ts = [o['t']] if o['op'] == 'trans' else [t for _, t in o['l']]
                for t in ts:
                    inc('src_' + t['src'][0])
                    inc('dst_' + t['dst'][0])
            if o['op'] == 'states':
                for f in o['l']:
                    inc('sform_%d' % f['k'])
    if isinstance(obs, list) and len(obs) == 3:
        for o in obs[1:]:
            if o[0] == 0:
                inc('script_raised_%s' % {0: 'KeyError', 1: 'ValueError', 2: 'AttributeError'}.get(o[1], 'other'))
            else:
                for call in o[2]:
                    if isinstance(call, str):
                        inc('calls_unknown_event_on_hsm')
                        continue
                    res = call[1]
                    inc('calls')
                    if res == [0, True]:
                        inc('calls_executed')


def shrink_candidates(case):
    for i in range(len(case['history'])):
        if len(case['history']) > 1:
            c = copy.deepcopy(case)
            del c['history'][i]
            yield c
    for key in ('A', 'B'):
        sc = case[key]
        for i in range(len(sc['ops']) - 1, -1, -1):
            if sc['ops'][i]['op'] in ('model', 'initial'):
                continue
            c = copy.deepcopy(case)
            del c[key]['ops'][i]
            if i < c[key]['ctor']:
                c[key]['ctor'] -= 1
            yield c
        if sc['ctor'] > 0:
            c = copy.deepcopy(case)
            c[key]['ctor'] = 0
            yield c


# ====================================================================== hierarchical laws
# (implementation vs implementation only: the Coq model covers flat construction)
def _hsm_observe(machine, model, log, history, state_names):
    tr = flat._import_transitions()
    names = machine.get_nested_state_names()
    trans = sorted((t, tr_.source, str(tr_.dest)) for t in _all_triggers(machine) for tr_ in machine.get_transitions(t))
    trig = [[n, sorted(machine.get_triggers(n))] for n in sorted(names)]
    runs = []
    for e in history:
        del log[:]
        try:
            res = ['ret', bool(model.trigger(e))]
        except Exception as ex:  # noqa
            res = ['exc', 'MachineError' if isinstance(ex, tr.MachineError) else type(ex).__name__]
        runs.append([e, list(log), res, str(model.state)])
    return dict(states=names, transitions=trans, triggers=trig, runs=runs)


def _all_triggers(machine):
    out = set()

    def walk():
        for e in machine.events:
            out.add(e)
        for s in list(machine.states):
            with machine(s):
                walk()
    walk()
    return sorted(out)


def _nested_pair(rng):
    """nested dict ('children' or 'states') vs separator-joined names created one by one"""
    from transitions.extensions.nesting import HierarchicalMachine as HM
    paths = []      # pre-order list of paths

    def grow(prefix, depth):
        for i in range(rng.randint(1 if depth == 0 else 0, 3 if depth < 2 else 0)):
            p = prefix + ['%s%d' % ('PcgX'[depth], i)]
            paths.append(p)
            if depth < 2 and rng.random() < 0.6:
                grow(p, depth + 1)
    grow([], 0)
    joined = ['_'.join(p) for p in paths]
    triggers = ['t%d' % i for i in range(rng.randint(1, 3))]
    trans = [[rng.choice(triggers), rng.choice(joined), rng.choice(joined)] for _ in range(rng.randint(1, 6))]
    history = [rng.choice(triggers + ['nope']) for _ in range(rng.randint(1, 8))]
    init = rng.choice(joined)
    outs = []
    for variant in ('children', 'states', 'joined'):
        log = []

        def rec(kind, name):
            def f(*a, **k):
                log.append([kind, name])
            return f
        model = type('M', (object,), {})()
        if variant == 'joined':
            m = HM(model=None, initial=None, auto_transitions=False)
            for p in paths:
                m.add_states('_'.join(p), on_enter=rec('enter', '_'.join(p)), on_exit=[rec('exit', '_'.join(p))])
        else:
            def build(prefix):
                out = []
                for p in paths:
                    if p[:-1] == prefix:
                        d = dict(name=p[-1], on_enter=[rec('enter', '_'.join(p))], on_exit=rec('exit', '_'.join(p)))
                        kids = build(p)
                        if kids:
                            d[variant] = kids
                        out.append(d)
                return out
            m = HM(model=None, initial=None, states=build([]), auto_transitions=False)
        m.add_transitions([list(t) for t in trans])
        m.initial = init
        m.add_model(model)
        outs.append(_hsm_observe(m, model, log, history, joined))
    return dict(paths=joined, transitions=trans, initial=init, history=history), outs


def _remap_desc(rng, allow_auto_nested=True):
    """a machine embedded as children with remap vs the explicit nested definition whose remapped
    states leave through the remap target.  Event names come from a pool that contains 'to_'-prefixed
    names that are no automatic transitions ('to_next', 'to_x1', and - when the embedded machine has
    auto_transitions off - names of the form 'to_<state>'); the embedded machine has auto_transitions
    on or off, one or two levels (a compound state given as dict children or as a further embedded
    machine), callbacks in every slot."""
    from transitions.extensions.nesting import HierarchicalMachine as HM
    n = rng.randint(2, 4)
    sub_states = ['a%d' % i for i in range(n)]
    nrem = rng.randint(1, min(2, n - 1))
    remapped = sub_states[-nrem:]
    kept = sub_states[:-nrem]
    parents = ['idle', 'other']
    remap = {s: rng.choice(parents) for s in remapped}
    sub_auto = rng.random() < 0.5
    parent_auto = rng.random() < 0.3
    # second level: one kept state is a compound with children x, y (dict children or a further embedded machine)
    deep = None
    if rng.random() < 0.5 and (allow_auto_nested or not sub_auto):
        deep = dict(state=rng.choice(kept), how=rng.choice(['dict', 'machine']), kids=['x', 'y'][:rng.randint(1, 2)])
    pool = ['t0', 't1', 'to_next', 'to_x1', 'to_', 'to_work']
    if not sub_auto:
        pool += ['to_' + s for s in sub_states]          # user-defined events that merely look automatic
    triggers = rng.sample(pool, rng.randint(1, min(4, len(pool))))
    names = list(sub_states)
    if deep:
        names += ['%s_%s' % (deep['state'], k) for k in deep['kids']]
    sub_trans = []
    for _ in range(rng.randint(1, 7)):
        sub_trans.append([rng.choice(triggers), rng.choice(names), rng.choice(names)])
    deep_trans = []
    if deep and len(deep['kids']) > 1:
        deep_trans = [[rng.choice(triggers + ['dt']), rng.choice(deep['kids']), rng.choice(deep['kids'])]
                      for _ in range(rng.randint(0, 2))]
    top_trans = [['start', 'idle', 'work'], ['start', 'other', 'work']] + \
                [[rng.choice(triggers), rng.choice(parents), rng.choice(parents + ['work'])] for _ in range(rng.randint(0, 2))]
    history = [rng.choice(triggers + ['start', 'start', 'dt']) for _ in range(rng.randint(2, 10))]
    nt = len(sub_trans) + len(deep_trans)
    cond_val = {i: rng.random() < 0.75 for i in range(nt)}
    unless_val = {i: rng.random() < 0.2 for i in range(nt)}
    slots = {i: rng.sample(['conditions', 'unless', 'before', 'after', 'prepare'], rng.randint(0, 5)) for i in range(nt)}
    return dict(sub_states=sub_states, remap=remap, sub_auto=sub_auto, parent_auto=parent_auto, deep=deep,
                sub_transitions=sub_trans, deep_transitions=deep_trans, top_transitions=top_trans,
                history=history, cond=cond_val, unless=unless_val, slots=slots)


def _remap_run(desc):
    """build the embedded and the explicit machine of a description (also used for corpus/C13/extra/*.json)"""
    from transitions.extensions.nesting import HierarchicalMachine as HM
    sub_states, remap = desc['sub_states'], desc['remap']
    sub_auto, parent_auto, deep = desc['sub_auto'], desc['parent_auto'], desc['deep']
    sub_trans, deep_trans, top_trans = desc['sub_transitions'], desc['deep_transitions'], desc['top_transitions']
    history = desc['history']
    cond_val = {int(k): v for k, v in desc['cond'].items()}
    unless_val = {int(k): v for k, v in desc['unless'].items()}
    slots = {int(k): v for k, v in desc['slots'].items()}
    remapped = [s for s in sub_states if s in remap]
    kept = [s for s in sub_states if s not in remap]

    def top(nm):
        return nm.split('_')[0]
    outs = []
    for variant in ('embedded', 'explicit'):
        log = []

        def rec(kind, name, ret=True):
            def f(*a, **k):
                log.append([kind, name])
                return ret
            return f
        model = type('M', (object,), {})()

        def tdict(i, t, src=None, dst=None):
            d = dict(trigger=t[0], source=src or t[1], dest=dst or t[2])
            if 'conditions' in slots[i]:
                d['conditions'] = [rec('cond', 'c%d' % i, cond_val[i])]
            if 'unless' in slots[i]:
                d['unless'] = rec('unless', 'u%d' % i, unless_val[i])
            if 'before' in slots[i]:
                d['before'] = rec('before', 'b%d' % i)
            if 'after' in slots[i]:
                d['after'] = [rec('after', 'f%d' % i), rec('after', 'g%d' % i)]
            if 'prepare' in slots[i]:
                d['prepare'] = rec('prepare', 'p%d' % i)
            return d

        def sdict(s, path):
            return dict(name=s, on_enter=rec('enter', path + s), on_exit=[rec('exit', path + s)])

        def deep_def(s, path, embedded):
            d = sdict(s, path)
            kids = [sdict(k, path + s + '_') for k in deep['kids']]
            dts = [tdict(len(sub_trans) + j, t) for j, t in enumerate(deep_trans)]
            if embedded and deep['how'] == 'machine':
                d['children'] = HM(model=None, states=kids, transitions=dts, initial=deep['kids'][0], auto_transitions=False)
            else:
                d['children'] = kids
                d['initial'] = deep['kids'][0]
                if dts:
                    d['transitions'] = dts
            return d

        def state_defs(which, embedded):
            return [deep_def(s, 'work_', embedded) if deep and s == deep['state'] else sdict(s, 'work_') for s in which]
        if variant == 'embedded':
            sub = HM(model=None, states=state_defs(sub_states, True),
                     transitions=[tdict(i, t) for i, t in enumerate(sub_trans)], initial=kept[0], auto_transitions=sub_auto)
            m = HM(model=None, initial=None, auto_transitions=parent_auto,
                   states=['idle', 'other', dict(name='work', children=sub, remap=remap)])
        else:
            inner = [tdict(i, t) for i, t in enumerate(sub_trans) if top(t[1]) in kept and top(t[2]) in kept]
            m = HM(model=None, initial=None, auto_transitions=parent_auto,
                   states=['idle', 'other',
                           dict(name='work', initial=kept[0], transitions=inner, children=state_defs(kept, False))])
            m.add_transitions([tdict(i, t, src='work_' + t[1], dst=remap[t[2]])
                               for i, t in enumerate(sub_trans) if top(t[1]) in kept and t[2] in remapped])
        m.add_transitions([list(t) for t in top_trans])
        m.initial = 'idle'
        m.add_model(model)
        outs.append(_hsm_observe(m, model, log, history, None))
    return outs


def _remap_pair(rng):
    desc = _remap_desc(rng)
    return desc, _remap_run(desc)


def _extra_corpus():
    """hand-picked descriptions of the embedded-machine check: corpus/C13/extra/*.json (run first)"""
    import json
    import os
    from framework import VERIF
    d = os.path.join(VERIF, 'corpus', 'C13', 'extra')
    out = []
    if os.path.isdir(d):
        for f in sorted(os.listdir(d)):
            if f.endswith('.json'):
                out.append((f, json.load(open(os.path.join(d, f)))))
    return out


def extra_checks(tier, seed):
    import random
    flat._import_transitions()
    n = 400 if tier == 'quick' else 4000
    res = []
    # the extracted hierarchical builder (Model/HBuild.v) against the real HierarchicalMachine, two scripts per description
    import c13_h
    try:
        okh, dist, badh = c13_h.stream('hb', seed, 600 if tier == 'quick' else 8000)
    except Exception:  # noqa
        import traceback
        okh, dist, badh = False, {}, dict(kind='correspondence', correspondence='corr_C13_hbuild',
                                          error=traceback.format_exc()[-2000:])
    res.append(('hsm_builder_model_vs_library', okh, dist, badh))
    # every machine class takes the arguments of the construction methods in the positions core.Machine declares
    # (list-form transitions and positional calls rely on it)
    import inspect
    import transitions.extensions as ext

    def positional(f):
        return [p.name for p in inspect.signature(f).parameters.values()
                if p.kind in (p.POSITIONAL_ONLY, p.POSITIONAL_OR_KEYWORD)]
    sig_bad = []
    methods = ('__init__', 'add_transition', 'add_transitions', 'add_states', 'add_state', 'add_ordered_transitions',
               'remove_transition', 'get_transitions', 'add_model')
    classes = sorted(cn for cn in dir(ext) if cn.endswith('Machine'))
    for meth in methods:
        base = positional(getattr(flat.get_class('Machine'), meth))
        for cn in classes:
            got = positional(getattr(getattr(ext, cn), meth))
            if got[:len(base)] != base:
                sig_bad.append([cn, meth, got, base])
    res.append(('positional_parameter_order', not sig_bad, dict(classes=len(classes), methods=len(methods)),
                dict(kind='counterexample', correspondence='positional_parameter_order', mismatches=sig_bad,
                     failing_clause='a machine class declares the positional parameters of a construction method in another '
                                    'order than core.Machine') if sig_bad else {}))
    # states / transitions / initial given by (nested) Enum members, the member names reused on every level,
    # vs the same machine given by names: same traces, results and configurations on a random history
    import hsm
    n_en = 300 if tier == 'quick' else 5000
    bad_en, executed_en = None, 0
    for i in range(n_en):
        rng = random.Random('C13-x-enum-%d-%d' % (seed, i))
        try:
            hc = hsm.gen_case(rng, hist_len=rng.randint(2, 8), max_events=3)
            by_name = hsm.impl_hsm(dict(hc))
            by_enum = hsm.impl_hsm(dict(hc, enum=1))
        except Exception:  # noqa
            import traceback
            bad_en = dict(kind='correspondence', correspondence='hsm_enum_vs_names', description='builder raised',
                          error=traceback.format_exc()[-1500:], index=i)
            break
        executed_en += sum(1 for c in by_name[2] if c[1] == [0, True])
        if by_name != by_enum:
            bad_en = dict(kind='counterexample', correspondence='hsm_enum_vs_names', description=hc,
                          observations=[by_name, by_enum], index=i,
                          failing_clause='the machine given by nested Enum members differs from the one given by names')
            break
    res.append(('hsm_enum_vs_names', bad_en is None,
                dict(instances=n_en, executed_transitions=executed_en,
                     level='implementation-vs-implementation (Enum states are not in the Coq builder)'), bad_en or {}))
    for name, fn in (('hsm_nested_dict_vs_joined_names', _nested_pair), ('hsm_embedded_machine_remap', _remap_pair)):
        bad = None
        executed = 0
        fixed = _extra_corpus() if fn is _remap_pair else []
        for i in range(-len(fixed), n):
            rng = random.Random('C13-x-%s-%d-%d' % (name, seed, i))
            try:
                if i < 0:
                    desc = fixed[i + len(fixed)][1]
                    outs = _remap_run(desc)
                else:
                    desc, outs = fn(rng)
            except Exception as e:  # noqa
                import traceback
                bad = dict(kind='correspondence', correspondence=name, description='builder raised',
                           error=traceback.format_exc()[-1500:], index=i)
                break
            executed += sum(1 for r in outs[0]['runs'] if r[2] == ['ret', True])
            diff = [k for o in outs[1:] for k in outs[0] if o[k] != outs[0][k]]
            if diff:
                bad = dict(kind='counterexample', correspondence=name, description=desc, observations=outs,
                           failing_clause='equivalent hierarchical definitions differ in %s' % sorted(set(diff)), index=i)
                break
        res.append((name, bad is None, dict(instances=n, corpus=len(fixed), executed_transitions=executed,
                                            level='implementation-vs-implementation (partial: not modelled in Coq)'),
                    bad or {}))
    return res
