"""Flat machines: case generation, encoding for the model, and the implementation
runner (real transitions classes from /repo driven through the public API with
recording callbacks implementing `env`)."""
import copy
import os
import random
import sys

from framework import opt, REPO

SLOTS = ['prepare_event', 'prepare', 'cond', 'unless', 'before_sc', 'before', 'exit', 'enter',
         'on_final', 'after', 'after_sc', 'finalize', 'on_exception', 'on_timeout', 'on_failure']
SLOT = {n: i for i, n in enumerate(SLOTS)}


# ------------------------------------------------------------------ encoding
def enc_exn(e):
    return [e[0], e[1]]


def enc_act(a):
    return list(a)


def enc_reply(r):
    ret, exn, acts = r
    return [bool(ret), opt(exn, enc_exn), [enc_act(a) for a in acts]]


def enc_env(env):
    return [bool(env.get('default', True)),
            [[int(p), enc_reply(r)] for p, r in sorted(env.get('bypos', {}).items(), key=lambda kv: int(kv[0]))],
            [[int(c), enc_reply(r)] for c, r in sorted(env.get('bycb', {}).items(), key=lambda kv: int(kv[0]))]]


def enc_trans(t):
    return [t['src'], opt(t['dst']), t['prepare'], [[c, bool(tg)] for c, tg in t['conds']], t['before'], t['after']]


def enc_machine(m):
    return [[[s, [d['enter'], d['exit'], bool(d['final']), opt(d['ignore'], bool)]] for s, d in m['states']],
            [[e, [enc_trans(t) for t in ts]] for e, ts in m['events']],
            m['prepare_event'], m['before_sc'], m['after_sc'], m['finalize'], m['on_exception'], m['on_final'],
            bool(m['ignore']), bool(m['send'])]


def enc_case(case):
    return [enc_machine(case['machine']), enc_env(case['env']), case.get('model', 0), case['init'],
            [[k, e, a] for k, e, a in case['history']]]


# ------------------------------------------------------------------ generation
class Gen:
    """Structured, mostly valid flat configurations."""

    def __init__(self, rng, max_states=5, max_events=3, max_cands=4, max_cbs=3, malformed=False):
        self.r = rng
        self.cb = 0
        self.max_states, self.max_events, self.max_cands, self.max_cbs = max_states, max_events, max_cands, max_cbs
        self.malformed = malformed

    def cbs(self, hi=None, p_empty=0.4):
        hi = self.max_cbs if hi is None else hi
        if self.r.random() < p_empty:
            return []
        out = []
        for _ in range(self.r.randint(1, hi)):
            self.cb += 1
            out.append(self.cb)
        return out

    def machine(self):
        r = self.r
        ns = r.randint(1, self.max_states)
        states = []
        for s in range(ns):
            states.append((s, dict(enter=self.cbs(), exit=self.cbs(), final=r.random() < 0.3,
                                   ignore=r.choice([None, None, None, True, False]))))
        ne = r.randint(1, self.max_events)
        events = []
        for e in range(ne):
            ts = []
            # choose a few sources; each gets 1..max_cands candidates
            srcs = r.sample(range(ns), r.randint(1, ns))
            for src in srcs:
                for _ in range(r.randint(1, self.max_cands) if r.random() < 0.6 else 1):
                    kind = r.random()
                    if kind < 0.12:
                        dst = None                      # internal
                    elif kind < 0.27:
                        dst = src                       # reflexive
                    else:
                        dst = r.randrange(ns)
                    if self.malformed and r.random() < 0.15:
                        dst = ns + 1                    # unregistered destination
                    nc = r.choice([0, 0, 1, 1, 2, 3])
                    nu = r.choice([0, 0, 0, 1, 2])
                    conds = []
                    for _ in range(nc):
                        self.cb += 1
                        conds.append((self.cb, True))
                    for _ in range(nu):
                        self.cb += 1
                        conds.append((self.cb, False))
                    ts.append(dict(src=src, dst=dst, prepare=self.cbs(2), conds=conds,
                                   before=self.cbs(2), after=self.cbs(2)))
            r.shuffle(ts)
            events.append((e, ts))
        m = dict(states=states, events=events,
                 prepare_event=self.cbs(2), before_sc=self.cbs(2), after_sc=self.cbs(2),
                 finalize=self.cbs(2), on_exception=self.cbs(2, 0.6), on_final=self.cbs(2, 0.3),
                 ignore=r.random() < 0.25, send=r.random() < 0.4)
        return m

    def env(self, p_pass=0.7):
        """conditions: reply by callback id would make every evaluation equal; use by-position
        replies so that the same condition may answer differently in later events"""
        r = self.r
        bycb = {}
        for c in range(1, self.cb + 1):
            if r.random() < 0.5:
                bycb[c] = (r.random() < p_pass, None, [])
        bypos = {}
        for p in range(0, 60):
            if r.random() < 0.35:
                bypos[p] = (r.random() < p_pass, None, [])
        return dict(default=r.random() < 0.8, bypos=bypos, bycb=bycb)


def cond_polarity_fix(machine, env):
    """make `unless` callbacks pass with the same probability as conditions: by-cb replies for
    unless callbacks are negated"""
    unless = set()
    for _, ts in machine['events']:
        for t in ts:
            for c, tg in t['conds']:
                if not tg:
                    unless.add(c)
    for c in list(env['bycb']):
        if c in unless:
            ret, ex, acts = env['bycb'][c]
            env['bycb'][c] = (not ret, ex, acts)
    return env


def gen_case(rng, malformed=False, hist_len=None, may=False, p_unknown=0.1, p_build=0.0, p_self=0.0, p_multi=0.0):
    g = Gen(rng, malformed=malformed)
    m = g.machine()
    env = cond_polarity_fix(m, g.env())
    ns = len(m['states'])
    ne = len(m['events'])
    n = hist_len or rng.randint(1, 8)
    hist = []
    for i in range(n):
        e = rng.randrange(ne) if rng.random() >= p_unknown else ne + 3      # unknown event now and then
        k = rng.choice([0, 0, 2]) if not may else rng.choice([0, 1, 1])
        hist.append((k, e, 100 + i))
    out = dict(machine=m, env=env, model=0, init=rng.randrange(ns), history=hist, cls='Machine')
    if p_multi and rng.random() < p_multi:
        # one more event whose transitions are created by ONE add_transition call with several sources ('*' or a list)
        # and shared option lists, plus callbacks registered afterwards for the whole event with
        # machine.before_<event>(cb) / after_<event>(cb) / prepare_<event>(cb): every transition of the event gets them
        # once, after the ones it was created with
        e_new = 1 + max([e for e, _ in m['events']] + [0])
        srcs = None if rng.random() < 0.5 else rng.sample(range(ns), rng.randint(1, ns))
        dst = rng.randrange(ns)
        gcb = [900 + 10 * e_new]

        def fresh(k):
            outl = []
            for _ in range(k):
                gcb[0] += 1
                outl.append(gcb[0])
            return outl
        base = dict(prepare=fresh(rng.choice([0, 1])), before=fresh(rng.choice([0, 1, 2])), after=fresh(rng.choice([1, 2])))
        late = dict(prepare=fresh(rng.choice([0, 1])), before=fresh(rng.choice([0, 1])), after=fresh(rng.choice([1, 1, 2])))
        ts = [dict(src=sx, dst=dst, prepare=base['prepare'] + late['prepare'], conds=[],
                   before=base['before'] + late['before'], after=base['after'] + late['after'])
              for sx in (range(ns) if srcs is None else srcs)]
        m['events'].append((e_new, ts))
        out['multi'] = dict(event=e_new, sources=srcs, dst=dst, base=base, late=late)
        out['history'] = [(k, (e_new if rng.random() < 0.4 else e), a) for (k, e, a) in hist] + [(0, e_new, 190), (0, e_new, 191)]
    if p_self and rng.random() < p_self:
        out['self_model'] = 1               # the machine is its own model
    if p_build and rng.random() < p_build:
        out['build'] = rng.randint(1, 15)
        if out['build'] & 2:
            # make the call-level flag matter: the initial state leaves its setting to the add_states call
            dict(m['states'])[out['init']]['ignore'] = not m['ignore']
    return out


def gen_ordered_case(rng):
    """a flat case whose event 0 is created by Machine.add_ordered_transitions with per-position option lists;
    machine['events'][0] holds the transitions the documentation promises (states rotated so that the initial state
    comes first, position i guards states[i] -> states[i+1], the loop-closing transition uses the LAST entry and
    ends in the first state - or the second when loop_includes_initial is False)"""
    g = Gen(rng, max_states=5, max_events=2)
    m = g.machine()
    while len(m['states']) < 2:
        m = g.machine()
    ns = len(m['states'])
    all_states = [s for s, _ in m['states']]
    if rng.random() < 0.4:
        order, names = None, list(all_states)
    else:
        names = rng.sample(all_states, rng.randint(2, ns))
        order = list(names)
    init = rng.choice(names) if rng.random() < 0.8 else rng.choice(all_states)
    loop = rng.random() < 0.75
    lii = rng.random() < 0.6
    n = len(names) if loop else len(names) - 1
    lists = {}
    for key, p_none in (('conditions', 0.3), ('unless', 0.4), ('before', 0.4), ('after', 0.4), ('prepare', 0.5)):
        if rng.random() < p_none:
            lists[key] = None
            continue
        lists[key] = []
        for _ in range(n):
            l = []
            for _ in range(rng.choice([0, 1, 1, 2])):
                g.cb += 1
                l.append(g.cb)
            lists[key].append(l)
    if init in names:
        k = names.index(init)
        rot = names[k:] + names[:k]
        first = rot[0 if lii else 1]
    else:
        rot, first = list(names), names[0]

    def at(key, i):
        return [] if lists[key] is None else list(lists[key][i])

    def mk(i, src, dst):
        return dict(src=src, dst=dst, prepare=at('prepare', i),
                    conds=[(c, True) for c in at('conditions', i)] + [(c, False) for c in at('unless', i)],
                    before=at('before', i), after=at('after', i))
    ts = [mk(i, rot[i], rot[i + 1]) for i in range(len(rot) - 1)]
    if loop:
        ts.append(mk(n - 1, rot[-1], first))
    rest = [(e, t) for e, t in m['events'] if e != 0]
    m['events'] = [(0, ts)] + rest
    genv = Gen(rng)
    genv.cb = g.cb
    env = cond_polarity_fix(m, genv.env(p_pass=0.85))
    hist = [(rng.choice([0, 0, 2, 1]), 0 if rng.random() < 0.85 else rng.choice([e for e, _ in m['events']]), 100 + j)
            for j in range(rng.randint(3, 9))]
    return dict(machine=m, env=env, model=0, init=init, history=hist, cls='Machine',
                ordered=dict(event=0, order=order, loop=loop, loop_includes_initial=lii, lists=lists))


# ------------------------------------------------------------------ implementation runner
def _import_transitions():
    if REPO not in sys.path:
        sys.path.insert(0, REPO)
    import transitions  # noqa
    assert os.path.abspath(transitions.__file__).startswith(os.path.abspath(REPO)), transitions.__file__
    return transitions


class UserExc(Exception):
    def __init__(self, n):
        super().__init__(n)
        self.n = n


class BaseExc(BaseException):
    def __init__(self, n):
        super().__init__(n)
        self.n = n


# UserExn n with n >= 20 stands for a BUILT-IN exception type raised by a user callback (the library's own except
# clauses mention some of them): the model only knows "a subclass of Exception number n"
BUILTIN_EXC = {20: KeyError, 21: TypeError, 22: RuntimeError, 23: IndexError, 24: ZeroDivisionError, 25: LookupError,
               26: OSError, 27: AssertionError, 28: NotImplementedError, 29: TimeoutError, 30: ConnectionError,
               31: ArithmeticError, 32: UnicodeError, 33: EOFError, 34: BufferError, 35: StopAsyncIteration}


def pick_exn(k):
    """deterministic choice of what a raising callback raises: Exception / BaseException subclasses of the harness
    and built-in types (KeyError, TypeError, RuntimeError, ...)"""
    lst = [(3, 1), (4, 1), (3, 20), (3, 7), (4, 5), (3, 21), (3, 22), (3, 5), (3, 23), (4, 7), (3, 25), (3, 26), (3, 29),
           (3, 32), (3, 30), (3, 35), (3, 31)]
    return lst[k % len(lst)]


STALE_SCOPE_AS_VALUEERROR = [False]     # set by the re-entrant hierarchical runner (hsm.impl_hsm_reent)


def classify_exc(e):
    tr = _import_transitions()
    if STALE_SCOPE_AS_VALUEERROR[0] and isinstance(e, (AttributeError, TypeError)) and \
            ("'NoneType' object has no attribute 'get'" in str(e) or "descriptor 'get'" in str(e)):
        # an outer transition whose declaring scope was left by an event triggered from one of its own callbacks
        # crashes in reduce(dict.get, scope, tree) on None; the model (HReent.v) raises ValueError there
        return [2, 0]
    if isinstance(e, UserExc):
        return [3, e.n]
    if getattr(e, 'verif_user_exc', None) is not None:
        return [3, e.verif_user_exc]
    if isinstance(e, BaseExc):
        return [4, e.n]
    if isinstance(e, tr.MachineError):
        return [0, 0]
    if isinstance(e, AttributeError):
        return [1, 0]
    if isinstance(e, ValueError):
        return [2, 0]
    return [9, 0]


def make_exc(exn):
    kind, n = exn
    tr = _import_transitions()
    if kind == 0:
        return tr.MachineError('x')
    if kind == 1:
        return AttributeError('x')
    if kind == 2:
        return ValueError('x')
    if kind == 3 and n in BUILTIN_EXC:
        ex = BUILTIN_EXC[n]('x')
        ex.verif_user_exc = n            # recognised by classify_exc whatever the library does with the type
        return ex
    if kind == 3:
        return UserExc(n)
    return BaseExc(n)


class Token(object):
    """identity-carrying payload"""
    def __init__(self, n):
        self.n = n


class World(object):
    """shared recording state of one case"""

    def __init__(self, env, send):
        self.env = env
        self.send = send
        self.pos = 0
        self.items = []
        self.state_of = None      # callable model -> int
        self.model_ids = {}       # id(model) -> model number
        self.perform = None       # callable(action) performing a callback's action
        self.tokens = {}

    def reply(self, cb):
        env = self.env
        bp = env.get('bypos', {})
        if self.pos in bp:
            return bp[self.pos]
        if str(self.pos) in bp:
            return bp[str(self.pos)]
        bc = env.get('bycb', {})
        if cb in bc:
            return bc[cb]
        if str(cb) in bc:
            return bc[str(cb)]
        return (env.get('default', True), None, [])

    def recorder(self, slot, cb, model_of_call=None):
        world = self

        def rec(*args, **kwargs):
            ret, exn, acts = world.reply(cb)
            mypos = world.pos
            world.pos += 1
            err = None
            model = None
            if len(args) == 1 and not kwargs and type(args[0]).__name__.endswith('EventData'):
                ed = args[0]
                model = ed.model
                tok = ed.args[0] if len(ed.args) == 1 and isinstance(ed.args[0], Token) else None
                ok = tok is not None and set(ed.kwargs.keys()) == {'k'} and ed.kwargs['k'] is tok
                arg = [1, tok.n if ok else 999]
                exp = getattr(world, 'expected_event', {}).get(tok.n if tok is not None else None)
                if exp is not None and getattr(ed, 'event', None) is not None and ed.event.name != exp:
                    # the event object names another event than the one that was triggered (hierarchical machines
                    # leave event_data.event unset when no active state handles the event: not judged)
                    arg = [1, 996]
                if slot in ('on_exception', 'finalize'):
                    err = None if ed.error is None else classify_exc(ed.error)
                if slot in ('prepare', 'cond', 'unless') and getattr(ed, 'transition', None) is not None \
                        and getattr(ed, 'state', None) is not None:
                    # the event object describes the candidate being evaluated: its state is the source the
                    # candidate transition is registered for (the active leaf or the ancestor that declares it),
                    # in triggers and in may_<event> alike
                    src = ed.transition.source
                    sep = getattr(getattr(ed.machine, 'state_cls', None), 'separator', None)
                    last = src.split(sep)[-1] if (sep and isinstance(src, str)) else src
                    sname = ed.state.name       # carries the enclosing path while the state's own callbacks run
                    if last != (sname.split(sep)[-1] if (sep and isinstance(sname, str)) else sname):
                        arg = [1, 997]
            else:
                tok = args[0] if len(args) == 1 and isinstance(args[0], Token) else None
                ok = tok is not None and set(kwargs.keys()) == {'k'} and kwargs['k'] is tok
                arg = [0, tok.n if ok else 999]
            if model_of_call is not None:
                model = model_of_call
            if model is None:
                model = world.current_model
            mid = world.model_ids.get(id(model), 99)
            world.items.append([SLOT[slot], cb, mid, world.state_of(model), arg, opt(err),
                                bool(ret), [list(a) for a in acts]])
            if acts and getattr(world, 'perform_all', None) is not None:
                world.perform_all(acts, mypos)      # the harness may batch actions (e.g. one remove_model([...]) call)
            else:
                for k_act, a in enumerate(acts):
                    world.cur_pos, world.cur_k = mypos, k_act
                    world.perform(a)
            if exn is not None:
                raise make_exc(exn)
            return bool(ret)
        rec.__name__ = '%s_%d' % (slot, cb)
        return rec


class Model(object):
    pass


class FalsyModel(Model):
    """a model object that is falsy (an empty container-like model): `if model:` is not `if model is not None:`"""
    def __bool__(self):
        return False

    def __len__(self):
        return 0


def new_model(k):
    """every second model of a multi-model case is falsy"""
    return FalsyModel() if k % 2 else Model()


def build_machine(case, world, cls=None, model=None, extra_kwargs=None, models=None):
    """models: optional list of model objects; then callbacks are given by NAME and every model object gets
    one recording attribute per (slot, callback) that knows which model it belongs to"""
    tr = _import_transitions()
    m = case['machine']
    if cls is None:
        cls = tr.Machine
    pending_self = []       # (name, slot, cb) of callbacks given by name on a machine that is its own model
    if models is not None:
        def R(slot, cb):
            name = 'cb_%s_%d' % (slot, cb)
            for mod in models:
                if not hasattr(mod, name):
                    setattr(mod, name, world.recorder(slot, cb, mod))
            return name
    elif case.get('self_model') and model is None:
        # the machine is its own model (the library's default model='self'): callbacks are given by NAME and become
        # recording attributes of the machine object once it exists

        def R(slot, cb):
            name = 'cb_%s_%d' % (slot, cb)
            pending_self.append((name, slot, cb))
            return name
        model = tr.Machine.self_literal
    else:
        R = world.recorder
    # construction routes (case['build'], see gen_case): bit 1 = enter/exit callbacks registered afterwards with
    # machine.on_enter / machine.on_exit; bit 2 = states added after construction by add_states(...,
    # ignore_invalid_triggers=<not the machine's flag>) - states whose own flag equals it leave it to the call -,
    # the model by add_model(initial=...); bit 4 = states given as plain names, their callbacks and settings through the
    # keyword form add_states(name, on_enter=..., on_exit=..., ignore_invalid_triggers=..., final=...); bit 8 =
    # transitions in list form / as positional arguments
    variant = case.get('build', 0) if models is None else 0
    call_ignore = (not m['ignore']) if variant & 2 else None
    if case.get('self_model') and 'Graph' in cls.__name__:
        # a graph machine constructed without a model binds get_graph to itself; add_model('self') afterwards is refused
        # ("Model already has a get_graph attribute") - that route does not exist for graph machines
        call_ignore = None
    states = []
    later = []
    by_name = []
    for s, d in m['states']:
        sd = dict(name='s%d' % s, ignore_invalid_triggers=d['ignore'], final=d['final'])
        ent, exi = [R('enter', c) for c in d['enter']], [R('exit', c) for c in d['exit']]
        if (variant & 4) and s != case['init']:
            by_name.append(('s%d' % s, ent, exi, dict(ignore_invalid_triggers=d['ignore'], final=d['final'])))
            continue
        if variant & 1:
            later.append(('s%d' % s, ent, exi))
        else:
            sd.update(on_enter=ent, on_exit=exi)
        if call_ignore is not None and d['ignore'] == call_ignore:
            del sd['ignore_invalid_triggers']
        states.append(sd)
    model = model if model is not None else Model()
    if models is not None:
        model = models
    kw = dict(model=model, states=states, initial='s%d' % case['init'], auto_transitions=False,
              send_event=m['send'], ignore_invalid_triggers=m['ignore'],
              prepare_event=[R('prepare_event', c) for c in m['prepare_event']],
              before_state_change=[R('before_sc', c) for c in m['before_sc']],
              after_state_change=[R('after_sc', c) for c in m['after_sc']],
              finalize_event=[R('finalize', c) for c in m['finalize']],
              on_exception=[R('on_exception', c) for c in m['on_exception']],
              on_final=[R('on_final', c) for c in m['on_final']])
    if extra_kwargs:
        kw.update(extra_kwargs)
    if call_ignore is not None:
        sts, ini = kw.pop('states'), kw.pop('initial')
        kw['model'] = None
        kw['initial'] = None
        machine = cls(**kw)
        machine.add_states(sts, ignore_invalid_triggers=call_ignore)
        for name, ent, exi, kws in by_name:
            machine.add_states(name, on_enter=ent, on_exit=exi, **kws)
        machine.add_model(model, initial=ini)
    else:
        machine = cls(**kw)
        for name, ent, exi, kws in by_name:
            machine.add_states(name, on_enter=ent, on_exit=exi, **kws)
    self_mode = model is tr.Machine.self_literal
    if self_mode:
        model = machine
    for k_l, (name, ent, exi) in enumerate(later):
        # Machine.__getattr__ provides on_enter_<state>(callback) / on_exit_<state>(callback); the hierarchical classes
        # have on_enter(state, callback) / on_exit(state, callback) as well
        use_method = hasattr(type(machine), 'on_enter') and k_l % 2 == 0
        for cb in ent:
            machine.on_enter(name, cb) if use_method else getattr(machine, 'on_enter_' + name)(cb)
        for cb in exi:
            machine.on_exit(name, cb) if use_method else getattr(machine, 'on_exit_' + name)(cb)
    od = case.get('ordered')
    mu = case.get('multi')
    for e, ts in m['events']:
        if mu is not None and mu['event'] == e:
            machine.add_transition('e%d' % e, '*' if mu['sources'] is None else ['s%d' % x for x in mu['sources']],
                                   's%d' % mu['dst'], prepare=[R('prepare', c) for c in mu['base']['prepare']],
                                   before=[R('before', c) for c in mu['base']['before']],
                                   after=[R('after', c) for c in mu['base']['after']])
            for kind in ('prepare', 'before', 'after'):
                for c in mu['late'][kind]:
                    getattr(machine, '%s_e%d' % (kind, e))(R(kind, c))
            continue
        if od is not None and od['event'] == e:
            # the transitions of this event are what add_ordered_transitions is documented to create
            # (gen_ordered_case computed them); the library creates them from per-position option lists
            per = od['lists']
            slot = dict(conditions='cond', unless='unless', before='before', after='after', prepare='prepare')
            opts = {}
            for key, lists in per.items():
                if lists is not None:
                    opts[key] = [[R(slot[key], c) for c in l] for l in lists]
            machine.add_ordered_transitions(states=None if od['order'] is None else ['s%d' % x for x in od['order']],
                                            trigger='e%d' % e, loop=od['loop'],
                                            loop_includes_initial=od['loop_includes_initial'], **opts)
            continue
        for t in ts:
            args = ['e%d' % e, 's%d' % t['src'], None if t['dst'] is None else 's%d' % t['dst'],
                    [R('cond', c) for c, tg in t['conds'] if tg], [R('unless', c) for c, tg in t['conds'] if not tg],
                    [R('before', c) for c in t['before']], [R('after', c) for c in t['after']],
                    [R('prepare', c) for c in t['prepare']]]
            if variant & 8:
                # list form / positional: trigger, source, dest, conditions, unless, before, after, prepare
                machine.add_transitions([args]) if (t['src'] + e) % 2 else machine.add_transition(*args)
                continue
            machine.add_transition(args[0], args[1], args[2], conditions=args[3], unless=args[4], before=args[5],
                                   after=args[6], prepare=args[7])
    if self_mode:
        for name, slot, cb in pending_self:
            if name not in machine.__dict__:
                setattr(machine, name, world.recorder(slot, cb, machine))
    return machine, model


def state_int(model, attr='state'):
    v = getattr(model, attr)
    try:
        return int(str(v)[1:])
    except Exception:
        return 999


SYNC_CLASSES = ['Machine', 'LockedMachine', 'HierarchicalMachine', 'LockedHierarchicalMachine',
                'GraphMachine', 'LockedGraphMachine', 'HierarchicalGraphMachine', 'LockedHierarchicalGraphMachine']
ASYNC_CLASSES = ['AsyncMachine', 'HierarchicalAsyncMachine', 'AsyncGraphMachine', 'HierarchicalAsyncGraphMachine']


def get_class(name):
    _import_transitions()
    import transitions.extensions as ext
    import transitions
    if name == 'Machine':
        return transitions.Machine
    if name in ('MarkupMachine', 'HierarchicalMarkupMachine'):
        import transitions.extensions.markup as mk
        return getattr(mk, name)
    return getattr(ext, name)


def class_kwargs(name):
    return dict(graph_engine='mermaid') if 'Graph' in name else {}


def impl_flat(case):
    """observation of the real library on a flat case: per call [items, result, state]"""
    world = World(case['env'], case['machine']['send'])
    world.state_of = state_int
    world.perform = lambda a: None
    cname = case.get('cls', 'Machine')
    machine, model = build_machine(case, world, cls=get_class(cname), extra_kwargs=class_kwargs(cname))
    world.model_ids[id(model)] = case.get('model', 0)
    world.current_model = model
    out = []
    for k, e, a in case['history']:
        tok = Token(a)
        world.items = []
        name = 'e%d' % e
        world.expected_event = {a: name}
        try:
            if k == 0:
                r = model.trigger(name, tok, k=tok)
            elif k == 1:
                r = model.may_trigger(name, tok, k=tok)
            else:
                r = getattr(model, name)(tok, k=tok)
            res = [0, bool(r)]
        except BaseException as ex:  # noqa
            res = [1, classify_exc(ex)]
        out.append([world.items, res, state_int(model)])
    return [1, out]


def impl_flat_late(case):
    """impl_flat on a machine that is RECONFIGURED after events have been processed: case['late'] = (k, {event: r})
    - the last r transitions of each named event are added (add_transition, in definition order) only after the
    k-th call of the history; an event all of whose transitions are late does not exist before."""
    import copy
    world = World(case['env'], case['machine']['send'])
    world.state_of = state_int
    world.perform = lambda a: None
    cname = case.get('cls', 'Machine')
    k_late, late = case['late']
    c1 = copy.deepcopy(case)
    held = []
    evs = []
    for e, ts in c1['machine']['events']:
        r = late.get(e, late.get(str(e), 0))
        keep, rest = (ts[:len(ts) - r], ts[len(ts) - r:]) if r else (ts, [])
        held += [(e, t) for t in rest]
        if keep:
            evs.append((e, keep))
    c1['machine']['events'] = evs
    machine, model = build_machine(c1, world, cls=get_class(cname), extra_kwargs=class_kwargs(cname))
    world.model_ids[id(model)] = case.get('model', 0)
    world.current_model = model
    R = world.recorder
    out = []
    for j, (k, e, a) in enumerate(case['history']):
        if j == k_late:
            for ev, t in held:
                machine.add_transition('e%d' % ev, 's%d' % t['src'], None if t['dst'] is None else 's%d' % t['dst'],
                                       conditions=[R('cond', c) for c, tg in t['conds'] if tg],
                                       unless=[R('unless', c) for c, tg in t['conds'] if not tg],
                                       before=[R('before', c) for c in t['before']],
                                       after=[R('after', c) for c in t['after']],
                                       prepare=[R('prepare', c) for c in t['prepare']])
        tok = Token(a)
        world.items = []
        name = 'e%d' % e
        world.expected_event = {a: name}
        try:
            if k == 0:
                r = model.trigger(name, tok, k=tok)
            elif k == 1:
                r = model.may_trigger(name, tok, k=tok)
            else:
                r = getattr(model, name)(tok, k=tok)
            res = [0, bool(r)]
        except BaseException as ex:  # noqa
            res = [1, classify_exc(ex)]
        out.append([world.items, res, state_int(model)])
    return [1, out]


def trim_flat(case):
    """at most one callback per list and one check per transition: the gathered stages of the asyncio engine then
    have nothing to interleave and it runs exactly the callbacks of the synchronous one"""
    m = case['machine']
    for key in ('prepare_event', 'before_sc', 'after_sc', 'finalize', 'on_exception', 'on_final'):
        m[key] = m[key][:1]
    for s, d in m['states']:
        d['enter'], d['exit'] = d['enter'][:1], d['exit'][:1]
    for e, ts in m['events']:
        for t in ts:
            for key in ('prepare', 'before', 'after', 'conds'):
                t[key] = t[key][:1]
    return case


def impl_flat_async(case):
    """impl_flat on the flat asyncio classes: every call awaited to completion on one event loop"""
    import asyncio
    world = World(case['env'], case['machine']['send'])
    world.state_of = state_int
    world.perform = lambda a: None
    cname = case.get('cls', 'AsyncMachine')
    loop = asyncio.new_event_loop()
    asyncio.set_event_loop(loop)
    base = world.recorder

    def arecorder(slot, cb, model_of_call=None):
        """three kinds of callbacks: plain function; coroutine function that suspends before it logs itself; plain
        function RETURNING an awaitable (a Task) that does the same - the library must await all of them"""
        inner = base(slot, cb, model_of_call)
        kind = cb % 3
        if kind == 0 or not case.get('awaitables'):
            return inner

        async def co(*args, **kwargs):
            for _ in range(1 if kind == 1 else 5):     # long enough for a later stage to overtake a result that is not awaited
                await asyncio.sleep(0)
            return inner(*args, **kwargs)
        if kind == 1:
            co.__name__ = inner.__name__
            return co

        def returns_task(*args, **kwargs):
            return asyncio.ensure_future(co(*args, **kwargs))
        returns_task.__name__ = inner.__name__
        return returns_task
    world.recorder = arecorder
    try:
        machine, model = build_machine(case, world, cls=get_class(cname), extra_kwargs=class_kwargs(cname))
        world.model_ids[id(model)] = case.get('model', 0)
        world.current_model = model
        out = []
        for k, e, a in case['history']:
            tok = Token(a)
            world.items = []
            name = 'e%d' % e
            world.expected_event = {a: name}
            try:
                if k == 0:
                    r = _call(loop, model.trigger, name, tok, k=tok)
                elif k == 1:
                    r = _call(loop, model.may_trigger, name, tok, k=tok)
                else:
                    r = _call(loop, getattr(model, name), tok, k=tok)
                res = [0, bool(r)]
            except BaseException as ex:  # noqa
                res = [1, classify_exc(ex)]
            out.append([world.items, res, state_int(model)])
        return [1, out]
    finally:
        loop.close()


# ------------------------------------------------------------------ C04: survivor vs fresh machine, every class
def _call(loop, f, *a, **k):
    import inspect
    r = f(*a, **k)
    if inspect.isawaitable(r):
        r = loop.run_until_complete(r)
    return r


_BLOCKED_BEFORE = [False]


def impl_survivor(case):
    """case: flat machine, deterministic env (bycb), history, 'cls', 'queued', 'crash_cb', 'crash_exn', 'split'.
    Machine A runs history[:split] where the FIRST invocation of callback crash_cb raises; then both A (the
    survivor) and a fresh machine B of the same class placed in A's state run history[split:].  Returns the
    continuation observations of A and B (they must be equal) and what the crashing call did."""
    import asyncio
    cname = case['cls']
    loop = asyncio.new_event_loop()
    try:
        def make(crashing):
            env = dict(default=case['env'].get('default', True), bypos={}, bycb=dict(case['env'].get('bycb', {})))
            world = World(env, case['machine']['send'])
            world.state_of = state_int
            world.perform = lambda a: None
            fired = [not crashing]
            base_reply = world.reply

            def reply(cb):
                ret, exn, acts = base_reply(cb)
                if cb == case['crash_cb'] and not fired[0]:
                    fired[0] = True
                    return (ret, tuple(case['crash_exn']), [])
                return (ret, None, [])
            world.reply = reply
            world.disarm = lambda: fired.__setitem__(0, True)
            kw = dict(class_kwargs(cname))
            kw['queued'] = case.get('queued', False)
            machine, model = build_machine(case, world, cls=get_class(cname), extra_kwargs=kw)
            world.model_ids[id(model)] = 0
            world.current_model = model
            return world, machine, model

        def run(world, model, hist):
            out = []
            for k, e, a in hist:
                tok = Token(a)
                world.items = []
                try:
                    r = _call(loop, model.trigger, 'e%d' % e, tok, k=tok)
                    res = [0, bool(r)]
                except BaseException as ex:  # noqa
                    res = [1, classify_exc(ex)]
                out.append([[it[:2] + it[3:] for it in world.items], res, state_int(model)])
            return out
        wa, ma, a = make(True)
        pre = run(wa, a, case['history'][:case['split']])
        wa.disarm()
        wb, mb, b = make(False)
        _call(loop, mb.set_state, 's%d' % state_int(a), b) if False else mb.set_state('s%d' % state_int(a), b)
        if 'Locked' in cname:
            # a different thread must be able to use the survivor: no lock / owner identity may be left behind
            import threading
            box = {}

            def other():
                box['r'] = run(wa, a, case['history'][case['split']:])
            th = threading.Thread(target=other, daemon=True)
            th.start()
            th.join(3 if _BLOCKED_BEFORE[0] else 45)     # generous once (loaded host), short after a first real block
            if 'r' not in box:
                _BLOCKED_BEFORE[0] = True
            cont_a = box.get('r', 'another thread blocks forever on the survivor')
        else:
            cont_a = run(wa, a, case['history'][case['split']:])
        cont_b = run(wb, b, case['history'][case['split']:])
        extra = []
        if hasattr(ma, '_transition_queue'):
            extra.append(len(ma._transition_queue))
        return dict(pre=pre, survivor=cont_a, fresh=cont_b, leftovers=extra)
    finally:
        loop.close()
