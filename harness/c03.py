"""C03 — hierarchical dispatch and transition resolution: real hierarchical classes vs the Coq engine, plus a
relational oracle (order-agnostic between regions) on the implementation's trace alone."""
import copy
import itertools
import random
import flat
import hsm

PID = 'C03'
KIND = 3
IMPL = ('hsm', 'impl_hsm')
COUNTS = dict(quick=1000, thorough=50000)
CLASSES = ['HierarchicalMachine', 'LockedHierarchicalMachine', 'HierarchicalGraphMachine']
RULE = ('cases = random state trees (depth <= 3, parallel inside parallel allowed) with placements of 1-4 transitions '
        'per event on leaves, their ancestors and sibling regions, declared globally or inside a state definition; '
        'every transition has a prepare and a before callback (so every evaluated candidate and every executed '
        'transition is visible), every state an exit callback; condition values drawn per callback; configurations '
        'reached by 0-4 earlier events. 4 of 5 cases are single-scope (each event declared in one scope), every 5th '
        'declares an event in two scopes (KF-C03-1 class). Oracle on the implementation alone: V1 offered source '
        'active when offered; V2 candidates of a source in definition order up to the first pass; V3 innermost '
        'first (every active strict descendant declaring the event was offered before); V3b no ancestor-or-self of '
        'an executed source is offered afterwards; V6 result True iff a transition executed, False iff offered and '
        'all blocked, MachineError/AttributeError/False-when-ignored iff nothing was offered. Non-trivial: an event '
        'offered to >= 2 sources or executed in >= 2 regions; distinct by case hash.')
ASSUMPTIONS = ['callbacks do not raise and do not trigger (C04/C05)', 'async classes: C07',
               'destinations of locally declared transitions are relative to the declaring state']
THEOREMS = ['C03_deepest_active_ancestor', 'C03_exit_set', 'C03_exit_set_reachable', 'C03_exit_below_base', 'C03_enter_set',
            'C03_enter_below_base', 'C03_frame', 'C03_transition_trace', 'C03_offers', 'C03_innermost_first', 'C03_result_iff', 'C03_invalid_iff_undeclared', 'C03_undeclared_is_invalid', 'C03_no_internal_error', 'C03_initial_good', 'C03_history_no_internal_error', 'C03_no_internal_error_reachable', 'C03_quiet_offer_order', 'C03_quiet_trigger_order',
            'C03_mixed_scope_refuted']


def gen(rng, i, tier):
    mixed = (i % 5 == 4)
    # every 8th case: parallel states whose initial list names a strict subset of their children (a transition may
    # then target a child that is not active while several siblings are)
    c = hsm.gen_case(rng, p_parallel=(0.8 if i % 5 == 2 else 0.4), max_children=(4 if i % 5 == 2 else 3), single_scope=not mixed, max_events=2, p_subset=(0.7 if i % 8 == 5 else 0.0), p_enum=0.2, p_sep=0.15, p_queued=0.1, p_reuse=0.15, p_build=0.3)
    if i % 5 == 2:
        hsm.add_cross_region(c, rng)
    n = [0]

    def fresh():
        n[0] += 1
        return 7000 + n[0]
    for p, d in hsm.all_defs(c['machine']):
        if not d['exit']:
            d['exit'] = [fresh()]
        if not d['enter']:
            d['enter'] = [fresh()]
        for e, ts in d['events']:
            for t in ts:
                if not t['prepare']:
                    t['prepare'] = [fresh()]
                if not t['before']:
                    t['before'] = [fresh()]
    for e, ts in c['machine']['events']:
        for t in ts:
            if not t['prepare']:
                t['prepare'] = [fresh()]
            if not t['before']:
                t['before'] = [fresh()]
    c['history'] = [(0, e, a) for (k, e, a) in c['history']]
    if i % 6 == 3:
        # invalid / unknown events in (nested) parallel configurations with per-state ignore flags:
        # MachineError / AttributeError / False must depend on ALL active leaves
        for p, d in hsm.all_defs(c['machine']):
            if len(d['children']) >= 2:
                d['initial'] = [x['name'] for x in d['children']]
            d['ignore'] = rng.choice([True, True, False, None])
        c['machine']['ignore'] = rng.random() < 0.5
        c['history'] = [(0, rng.choice([0, 1, 7, 8]), 100 + j) for j in range(rng.randint(2, 5))]
    c['cls'] = CLASSES[i % len(CLASSES)]
    if i % 7 == 3:
        c['attr'] = 'mode'          # custom model_attribute
    c['mixed'] = mixed
    return c


def canon(case, obs):
    return hsm.canon_queued(case, obs)


def enc(case):
    return hsm.enc_case(case)


def _multi_scope_events(case):
    return {e for e, scs in hsm.event_scopes(case['machine']).items() if len(scs) > 1}


def classify_known(case, mo, io):
    if mo is None and _multi_scope_events(case):
        return 'KF-C03-1'
    return None


def _transitions(case):
    """list of (event, scope, abs source, index within (event, scope, source), prepare cb, before cb)"""
    out = []
    m = case['machine']

    def add(evs, scope):
        for e, ts in evs:
            cnt = {}
            for t in ts:
                src = tuple(scope) + tuple(t['src'])
                k = cnt.get(src, 0)
                cnt[src] = k + 1
                out.append(dict(event=e, scope=tuple(scope), src=src, idx=k, prep=t['prepare'][0], before=t['before'][0]))
    add(m['events'], [])
    for p, d in hsm.all_defs(m):
        add(d['events'], p)
    return out


def oracle(case, obs):
    if not isinstance(obs, list) or obs[0] != 1:
        return None
    trs = _transitions(case)
    by_prep = {t['prep']: t for t in trs}
    by_before = {t['before']: t for t in trs}
    defs = {tuple(p): d for p, d in hsm.all_defs(case['machine'])}
    enter_owner = {d['enter'][0]: p for p, d in defs.items() if d['enter']}
    cfg = obs[1]
    for si, ((k, e, a), (items, res, cfg_after)) in enumerate(zip(case['history'], obs[2])):
        start_nodes = set(hsm.forest_nodes(cfg))
        declaring = {}
        for t in trs:
            if t['event'] == e:
                declaring.setdefault(t['src'], []).append(t)
        offered = []                   # [src, scope, [idx...], executed]
        entered_now = set()            # states (re-)entered during this event are not owed an offer
        executed_sources = []
        for it in items:
            slot, cb = it[0], it[1]
            if slot == 1 and cb in by_prep and by_prep[cb]['event'] == e:
                t = by_prep[cb]
                seen = set(hsm.forest_nodes(it[3]))
                if t['src'] not in seen:
                    return 'call %d: V1 transition offered from %r which is not active' % (si, t['src'])
                if offered and offered[-1][0] == t['src'] and offered[-1][1] == t['scope'] and not offered[-1][3]:
                    offered[-1][2].append(t['idx'])
                else:
                    for o in offered:
                        if o[0] == t['src'] and o[1] == t['scope']:
                            return 'call %d: V1 source %r offered twice' % (si, t['src'])
                    for s_exec in executed_sources:
                        if s_exec[:len(t['src'])] == t['src']:
                            return 'call %d: V3b %r offered although %r already executed a transition' % (si, t['src'], s_exec)
                    # V3 innermost first (within what was active at that moment)
                    for q, tl in declaring.items():
                        if q != t['src'] and q[:len(t['src'])] == t['src'] and q in seen and q in start_nodes \
                                and q not in entered_now:
                            if not any(o[0] == q for o in offered):
                                return 'call %d: V3 ancestor %r offered before its active descendant %r' % (si, t['src'], q)
                    offered.append([t['src'], t['scope'], [t['idx']], False])
            elif slot == 7 and cb in enter_owner:
                entered_now.add(enter_owner[cb])
            elif slot == 5 and cb in by_before and by_before[cb]['event'] == e:
                t = by_before[cb]
                if not offered or offered[-1][0] != t['src']:
                    return 'call %d: executed transition of %r without being offered' % (si, t['src'])
                offered[-1][3] = True
                executed_sources.append(t['src'])
        for o in offered:
            if o[2] != list(range(len(o[2]))):
                return 'call %d: V2 candidates of %r evaluated in order %r' % (si, o[0], o[2])
        any_exec = any(o[3] for o in offered)
        if res[0] == 0 and res[1] == 'queued':
            pass        # queued machine: trigger() answers True whatever happened (value masked)
        elif res[0] == 0:
            if res[1] != any_exec and offered:
                return 'call %d: V6 result %r but executed=%r' % (si, res[1], any_exec)
            if not offered and res[1] is not False and res[1] != 0:
                return 'call %d: V6 nothing offered but result True' % si
        else:
            if offered and res[1][0] in (0, 1):
                return 'call %d: V6 %r raised although the event was offered' % (si, res[1])
        cfg = cfg_after
    return None


def nontrivial(case, obs):
    if not isinstance(obs, list) or obs[0] != 1:
        return False
    for items, res, cfg in obs[2]:
        if sum(1 for it in items if it[0] == 0) >= 2 or sum(1 for it in items if it[0] == 5) >= 2:
            return True
        srcs = {it[1] for it in items if it[0] == 1}
        if len(srcs) >= 2:
            return True
    return False


def stats(case, obs, dist):
    if case.get('enum'):
        dist['cases_with_enum_named_states'] = dist.get('cases_with_enum_named_states', 0) + 1
    if case.get('sep'):
        dist['cases_with_custom_separator'] = dist.get('cases_with_custom_separator', 0) + 1
    if case.get('queued'):
        dist['cases_on_queued_machines'] = dist.get('cases_on_queued_machines', 0) + 1
    if not isinstance(obs, list) or obs[0] != 1:
        return
    for items, res, cfg in obs[2]:
        dist['calls'] = dist.get('calls', 0) + 1
        nb = sum(1 for it in items if it[0] == 5)
        key = 'executed_transitions_%s' % (nb if nb < 3 else '3+')
        dist[key] = dist.get(key, 0) + 1
        if res[0] == 1:
            dist['raised'] = dist.get('raised', 0) + 1
    dist['cls_' + case['cls']] = dist.get('cls_' + case['cls'], 0) + 1
    if case.get('mixed'):
        dist['mixed_scope_cases'] = dist.get('mixed_scope_cases', 0) + 1


def extra_checks(tier, seed):
    """the asyncio copy of the dispatch (_trigger_event_nested / trigger_nested of HierarchicalAsyncMachine): the same
    event declared in several scopes (state definitions and globally), conditions that block, parallel regions;
    coroutine callbacks that suspend; complete traces against the synchronous Coq engine"""
    n = 300 if tier == 'quick' else 8000
    cases, bad = hsm.async_stream('C03a', seed, n, p_parallel=0.4, single_scope=False, max_events=2)
    multi = sum(1 for c in cases if _multi_scope_events(c))
    detail = dict(cases=len(cases), disagreements=len(bad), cases_with_an_event_in_several_scopes=multi)
    out = []
    if bad:
        c, m, i = bad[0]
        out.append(('async_dispatch', False, detail,
                    dict(kind='counterexample', stream='HierarchicalAsyncMachine dispatch, mixed scopes', case=c, model_obs=m, impl_obs=i)))
    else:
        out.append(('async_dispatch', True, detail, {}))
    # systematic sweep: every (setup state, source, destination or internal, declaring scope) combination on a
    # catalogue of state trees - quick tier: a seeded sample, thorough tier: all of them (exhaustive for the catalogue)
    import random
    allc = hsm.systematic_cases()
    if tier == 'quick':
        cases = random.Random('C03s-%d' % seed).sample(allc, 2500)
    else:
        cases = allc
    for k, c in enumerate(cases):
        c['cls'] = CLASSES[k % len(CLASSES)]
    mo, io = hsm.run_pairs(cases)
    bad = [(c, m, i) for c, m, i in zip(cases, mo, io) if m != i]
    executed = sum(1 for m in mo if isinstance(m, list) and m[0] == 1 and m[2] and m[2][-1][1] == [0, True])
    detail = dict(catalogue=len(allc), cases=len(cases), exhaustive_for_the_catalogue=(len(cases) == len(allc)),
                  last_event_executed=executed, disagreements=len(bad))
    if bad:
        c, m, i = bad[0]
        out.append(('systematic_scope_source_destination', False, detail,
                    dict(kind='counterexample', stream='systematic (setup, source, destination, scope) sweep', case=c, model_obs=m, impl_obs=i)))
    else:
        out.append(('systematic_scope_source_destination', True, detail, {}))
    # machines reconfigured after events have been processed: all global transitions of one event are added by
    # add_transition after the k-th call (the event is not triggered before); the Coq engine runs the complete machine
    n4 = 300 if tier == 'quick' else 6000
    cases = []
    for i in range(n4):
        rng = random.Random('C03l-%d-%d' % (seed, i))
        c = hsm.gen_case(rng, p_parallel=0.4, single_scope=(i % 2 == 0), max_events=3, hist_len=rng.randint(3, 6), p_sep=0.1)
        glob = [e for e, ts in c['machine']['events'] if ts]
        if not glob:
            continue
        e_late = rng.choice(glob)
        k = rng.randint(1, len(c['history']) - 1)
        others = [e for e in range(4) if e != e_late]
        c['history'] = [(kk, (ev if (j >= k or ev != e_late) else rng.choice(others)), a) for j, (kk, ev, a) in enumerate(c['history'])]
        c['history'][k] = (0, e_late, c['history'][k][2])
        c['late_event'] = (k, e_late)
        c['cls'] = CLASSES[i % len(CLASSES)]
        cases.append(c)
    mo, io = hsm.run_pairs(cases)
    bad = [(c, m, i) for c, m, i in zip(cases, mo, io) if m != i]
    detail = dict(cases=len(cases), disagreements=len(bad))
    if bad:
        c, m, i = bad[0]
        out.append(('transitions_added_after_events', False, detail,
                    dict(kind='counterexample', stream='add_transition after events have been processed (hierarchical)', case=c, model_obs=m, impl_obs=i)))
    else:
        out.append(('transitions_added_after_events', True, detail, {}))
    return out
