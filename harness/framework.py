"""Shared machinery of all checks: Coq build + proof-obligation accounting, the
extracted-model driver, parallel execution of the implementation side, comparison,
shrinking, verdict protocol, evidence."""
import fcntl
import hashlib
import json
import multiprocessing
import os
import random
import re
import subprocess
import sys
import time

VERIF = os.path.dirname(os.path.dirname(os.path.abspath(__file__)))
COQ = os.path.join(VERIF, 'coq')
OCAML = os.path.join(VERIF, 'ocaml')
DRIVER = os.path.join(OCAML, 'driver')
REPO = os.environ.get('VERIF_REPO', '/repo')

FORBIDDEN = re.compile(r'\b(Admitted|admit|Axiom|Parameter|Conjecture|Admit Obligations|bypass_check)\b'
                       r'|Unset\s+Guard|Unset\s+Positivity|Unset\s+Universe|type-in-type|impredicative-set')

TRUSTED_BASE = [
    "Coq 8.16.1 kernel (coqc); vm_compute used for Examples/finite tables; native_compute not used",
    "axioms: none — every property theorem prints 'Closed under the global context'",
    "extraction: ExtrOcamlBasic only (bool, option, unit, list, prod, sumbool, sumor mapped; nat stays inductive); OCaml 4.13.1; ocaml/driver.ml (S-expression reader/printer, 70 lines)",
    "correspondence harness (Python): generators, recording callbacks, canonicalisation — differential testing, bounded by the printed input distribution",
    "modelled, not verified: the Python runtime (dict order, partial, attribute lookup, exceptions)",
]


# ------------------------------------------------------------------ S-expressions
def to_sx(x):
    if isinstance(x, bool):
        return '1' if x else '0'
    if isinstance(x, int):
        assert x >= 0, x
        return str(x)
    if x is None:
        return '()'
    return '(' + ' '.join(to_sx(y) for y in x) + ')'


def opt(x, f=lambda y: y):
    """option encoding: None -> [], value -> [f(value)]"""
    return [] if x is None else [f(x)]


def from_sx(s):
    toks = re.findall(r'\(|\)|\d+', s)
    pos = 0

    def one():
        nonlocal pos
        t = toks[pos]
        pos += 1
        if t == '(':
            out = []
            while toks[pos] != ')':
                out.append(one())
            pos += 1
            return out
        return int(t)
    return one()


# ------------------------------------------------------------------ build
def _run(cmd, cwd, timeout):
    p = subprocess.run(cmd, cwd=cwd, shell=True, stdout=subprocess.PIPE, stderr=subprocess.STDOUT,
                       timeout=timeout, text=True)
    return p.returncode, p.stdout


def coq_flags():
    return '-Q Model M -Q Proofs P -Q Props Props -Q Generated G -Q Extract X'


def build(tier='quick', generated_hook=None, pid=None):
    """(Re)build the Coq development and the extracted driver.  Returns (ok, log)."""
    log = []
    os.makedirs(os.path.join(COQ, 'Generated'), exist_ok=True)
    lock = open(os.path.join(VERIF, '.build.lock'), 'w')
    fcntl.flock(lock, fcntl.LOCK_EX)
    try:
        # every Generated/*.v is rewritten from the library under test before every build, whichever property is
        # being checked: a file left behind by a run against another tree must never decide this one
        hooks = []
        for modname in ('c09', 'c14'):
            try:
                hooks.append(__import__(modname).generated_hook)
            except Exception as e:          # noqa
                log.append('generated hook of %s not available: %r' % (modname, e))
        if generated_hook and generated_hook not in hooks:
            hooks.append(generated_hook)
        for h in hooks:
            try:
                h()
            except Exception as e:          # noqa
                if h is generated_hook:
                    raise
                log.append('generated hook %r failed: %r' % (h, e))
        vfiles = []
        for d in ('Model', 'Proofs', 'Props', 'Generated', 'Extract'):
            dd = os.path.join(COQ, d)
            if os.path.isdir(dd):
                vfiles += sorted(os.path.join(d, f) for f in os.listdir(dd) if f.endswith('.v'))
        listing = '\n'.join(vfiles)
        stamp = os.path.join(COQ, '.vfiles')
        old = open(stamp).read() if os.path.exists(stamp) else ''
        if old != listing or not os.path.exists(os.path.join(COQ, 'Makefile')):
            rc, out = _run('coq_makefile -f _CoqProject %s -o Makefile' % ' '.join(vfiles), COQ, 120)
            log.append(out)
            open(stamp, 'w').write(listing)
        # (the thorough tier's from-scratch build happens in a private copy, see clean_copy_build: the shared tree is
        # never cleaned, other checks may be using it)
        rc, out = _run('timeout 1500 make -k -j16', COQ, 1520)
        log.append(out)
        if rc != 0:
            # some file does not compile.  A broken proof belongs to the properties whose statements depend on it:
            # this property's check goes on iff its own statements and the executable model still build
            if pid is None:
                return False, '\n'.join(log)
            # the executable model must build; whether Props/<pid>.v still checks is decided by proof_obligations
            # (a broken statement of this property is then reported AFTER the search for a concrete failing input)
            rc, out = _run('timeout 1500 make -j16 %s' % ' '.join(_needed_targets(pid)[1:]), COQ, 1520)
            log.append(out)
            if rc != 0:
                return False, '\n'.join(log)
            _run('timeout 1500 make -j16 %s' % _needed_targets(pid)[0], COQ, 1520)
        rc, out = _run('timeout 300 make', OCAML, 320)
        log.append(out)
        if rc != 0 or not os.path.exists(DRIVER):
            return False, '\n'.join(log)
        return True, '\n'.join(log)
    finally:
        fcntl.flock(lock, fcntl.LOCK_UN)


def _needed_targets(pid, base=None):
    base = base or COQ
    t = ['Props/%s.vo' % pid]
    ex = os.path.join(base, 'Extract')
    if os.path.isdir(ex):
        t += sorted('Extract/%s.vo' % f[:-2] for f in os.listdir(ex) if f.endswith('.v'))
    return t


def forbidden_scan():
    bad = []
    for root, _, files in os.walk(COQ):
        for f in files:
            if f.endswith('.v'):
                p = os.path.join(root, f)
                txt = open(p).read()
                # strip comments (non-nested is enough for our sources)
                txt = re.sub(r'\(\*.*?\*\)', '', txt, flags=re.S)
                for m in FORBIDDEN.finditer(txt):
                    bad.append('%s: %s' % (os.path.relpath(p, COQ), m.group(0)))
    return bad


def clean_copy_build(pid=None):
    """thorough tier: copy the sources of the development into a private directory and build everything from
    scratch there (full .vo build).  Returns (ok, directory, log); the caller removes the directory."""
    import shutil
    dst = os.path.join(VERIF, '.thorough-%d' % os.getpid())
    shutil.rmtree(dst, ignore_errors=True)
    lock = open(os.path.join(VERIF, '.build.lock'), 'w')
    fcntl.flock(lock, fcntl.LOCK_SH)
    try:
        vfiles = []
        for d in ('Model', 'Proofs', 'Props', 'Generated', 'Extract'):
            dd = os.path.join(COQ, d)
            os.makedirs(os.path.join(dst, 'coq', d), exist_ok=True)
            if os.path.isdir(dd):
                for f in sorted(os.listdir(dd)):
                    if f.endswith('.v'):
                        shutil.copy(os.path.join(dd, f), os.path.join(dst, 'coq', d, f))
                        vfiles.append(os.path.join(d, f))
        shutil.copy(os.path.join(COQ, '_CoqProject'), os.path.join(dst, 'coq', '_CoqProject'))
        os.makedirs(os.path.join(dst, 'ocaml'), exist_ok=True)     # Extract.v writes ../ocaml/model.ml
    finally:
        fcntl.flock(lock, fcntl.LOCK_UN)
    cq = os.path.join(dst, 'coq')
    rc, out = _run('coq_makefile -f _CoqProject %s -o Makefile' % ' '.join(vfiles), cq, 120)
    rc, out2 = _run('timeout 2400 make -k -j16', cq, 2420)
    if rc != 0 and pid is not None:
        rc, out3 = _run('timeout 2400 make -j16 %s' % ' '.join(_needed_targets(pid, cq)), cq, 2420)
        out2 += out3
    return rc == 0, dst, (out + out2)[-4000:]


def proof_obligations(pid, tier='quick'):
    """Re-check Props/<pid>.v: returns dict(obligations, discharged, names, assumptions, log)."""
    src = os.path.join(COQ, 'Props', pid + '.v')
    txt = open(src).read()
    names = re.findall(r'^\s*(?:Theorem|Lemma|Corollary|Example)\s+(\w+)', txt, flags=re.M)
    prints = re.findall(r'Print Assumptions\s+(\w+)', txt)
    lock = open(os.path.join(VERIF, '.build.lock'), 'w')
    fcntl.flock(lock, fcntl.LOCK_SH)       # no rebuild of the shared tree while this file is compiled
    try:
        rc, out = _run('timeout 900 coqc %s Props/%s.v' % (coq_flags(), pid), COQ, 920)
    finally:
        fcntl.flock(lock, fcntl.LOCK_UN)
    closed = out.count('Closed under the global context')
    axioms = re.findall(r'^Axioms:\n(.*?)(?=\n\S|\Z)', out, flags=re.S | re.M)
    ok = rc == 0
    discharged = len(names) if ok and closed == len(prints) and len(prints) > 0 else 0
    res = dict(obligations=len(names), discharged=discharged, names=names,
               print_assumptions=len(prints), closed=closed, axioms=axioms, rc=rc,
               checker_cmd='make -C coq -j16 && coqc %s Props/%s.v' % (coq_flags(), pid))
    if not ok or discharged != len(names):
        res['log'] = out[-4000:]
    if tier == 'thorough' and ok and os.environ.get('VERIF_NO_COQCHK') != '1':
        # from-scratch build of the whole development in a private copy, Props/<pid>.v re-checked there by coqc
        # (Print Assumptions) and by the independent checker coqchk
        import shutil
        okc, dst, logc = clean_copy_build(pid)
        try:
            res['checker_cmd'] = ('(private copy of coq/) coq_makefile && make -j16 && coqc %s Props/%s.v && coqchk -o %s Props.%s'
                                  % (coq_flags(), pid, coq_flags(), pid))
            if not okc:
                res['discharged'] = 0
                res['log'] = 'clean build of the private copy failed:\n' + logc
                return res
            cq = os.path.join(dst, 'coq')
            rc1, out1 = _run('timeout 900 coqc %s Props/%s.v' % (coq_flags(), pid), cq, 920)
            if rc1 != 0 or out1.count('Closed under the global context') != len(prints):
                res['discharged'] = 0
                res['log'] = 'private copy: ' + out1[-4000:]
                return res
            rc2, out2 = _run('timeout 1500 coqchk -o %s Props.%s' % (coq_flags(), pid), cq, 1520)
            res['coqchk_rc'] = rc2
            res['coqchk_tail'] = out2[-1500:]
            if rc2 != 0:
                res['discharged'] = 0
                res['log'] = out2[-4000:]
        finally:
            shutil.rmtree(dst, ignore_errors=True)
    return res


# ------------------------------------------------------------------ model driver
def run_model(kind, cases_sx):
    """cases_sx: list of python nested lists; returns list of parsed observations."""
    if not cases_sx:
        return []
    inp = '\n'.join('%d %s' % (kind, to_sx(c)) for c in cases_sx) + '\n'
    p = subprocess.run([DRIVER], input=inp, stdout=subprocess.PIPE, stderr=subprocess.PIPE, text=True,
                       timeout=3600)
    if p.returncode != 0:
        raise RuntimeError('driver failed: ' + p.stderr[-2000:])
    lines = p.stdout.strip().split('\n')
    if len(lines) != len(cases_sx):
        raise RuntimeError('driver returned %d lines for %d cases' % (len(lines), len(cases_sx)))
    return [from_sx(l) for l in lines]


def run_model_vm(kind_expr, cases_sx, tag):
    """Cross-check of extraction: evaluate the same cases with vm_compute inside coqc."""
    def coq_sx(x):
        if isinstance(x, bool):
            return 'N %d' % (1 if x else 0)
        if isinstance(x, int):
            return 'N %d' % x
        if x is None:
            return 'L []'
        return 'L [' + '; '.join(coq_sx(y) for y in x) + ']'
    d = os.path.join(COQ, 'Scratch')
    os.makedirs(d, exist_ok=True)
    path = os.path.join(d, 'cases_%s.v' % tag)
    with open(path, 'w') as f:
        f.write('From Coq Require Import List. Import ListNotations.\nFrom M Require Import Sx Dispatch.\n')
        f.write('Fixpoint pr (x : sx) : sx := x.\n')
        for i, c in enumerate(cases_sx):
            f.write('Definition c%d : sx := %s.\nEval vm_compute in (dispatch %s c%d).\n' % (i, coq_sx(c), kind_expr, i))
    rc, out = _run('timeout 1200 coqc %s Scratch/cases_%s.v' % (coq_flags(), tag), COQ, 1220)
    for ext in ('.v', '.vo', '.vok', '.vos', '.glob'):
        try:
            os.remove(os.path.join(d, 'cases_%s%s' % (tag, ext)))
        except OSError:
            pass
    try:
        os.remove(os.path.join(d, '.cases_%s.aux' % tag))
    except OSError:
        pass
    if rc != 0:
        raise RuntimeError('vm_compute cross-check failed to compile: ' + out[-2000:])
    res = []
    for chunk in re.split(r'\n\s*: sx\s*', out):
        m = re.search(r'=\s*(.*)$', chunk, flags=re.S)
        if not m:
            continue
        res.append(_parse_coq_sx(m.group(1)))
    return res


def _parse_coq_sx(s):
    toks = re.findall(r'N|L|\[|\]|;|\d+|\(|\)', s)
    pos = 0

    def one():
        nonlocal pos
        while toks[pos] == '(':
            pos += 1
        t = toks[pos]
        pos += 1
        if t == 'N':
            v = int(toks[pos])
            pos += 1
            r = v
        elif t == 'L':
            assert toks[pos] == '['
            pos += 1
            r = []
            while toks[pos] != ']':
                if toks[pos] == ';':
                    pos += 1
                    continue
                r.append(one())
            pos += 1
        else:
            raise ValueError('bad coq sx token %r' % t)
        while pos < len(toks) and toks[pos] == ')':
            pos += 1
        return r
    return one()


# ------------------------------------------------------------------ implementation side
def _impl_worker(args):
    modname, fn, case = args
    sys.path.insert(0, os.path.join(VERIF, 'harness'))
    mod = __import__(modname)
    try:
        return getattr(mod, fn)(case)
    except BaseException as e:  # the harness itself failed: never silently pass
        import traceback
        return {'harness_error': '%s: %s' % (type(e).__name__, e), 'tb': traceback.format_exc()[-1500:]}


def run_impl(modname, fn, cases, procs=None):
    procs = procs or min(16, os.cpu_count() or 4)
    if len(cases) < 8:
        return [_impl_worker((modname, fn, c)) for c in cases]
    with multiprocessing.Pool(procs) as pool:
        return pool.map(_impl_worker, [(modname, fn, c) for c in cases], chunksize=max(1, len(cases) // (procs * 8)))


# ------------------------------------------------------------------ evidence / verdict
def case_hash(case):
    return hashlib.sha1(json.dumps(case, sort_keys=True).encode()).hexdigest()[:12]


def write_replay(pid, payload):
    os.makedirs(os.path.join(VERIF, 'replays'), exist_ok=True)
    h = case_hash(payload)
    path = os.path.join(VERIF, 'replays', '%s-%s.json' % (pid, h))
    with open(path, 'w') as f:
        json.dump(payload, f, indent=1, sort_keys=True)
    return os.path.relpath(path, VERIF)


def write_evidence(pid, tier, seed, coverage, assumptions, wall, violations):
    os.makedirs(os.path.join(VERIF, 'evidence'), exist_ok=True)
    ev = dict(property_id=pid, tier=tier, seed=seed, level='proof', coverage=coverage,
              assumptions=assumptions, wall_s=round(wall, 2), violations=violations)
    with open(os.path.join(VERIF, 'evidence', pid + '.json'), 'w') as f:
        json.dump(ev, f, indent=1, sort_keys=True)


def load_known_findings(pid):
    p = os.path.join(VERIF, 'known_findings.json')
    if not os.path.exists(p):
        return []
    return [k for k in json.load(open(p)) if k.get('property') == pid and k.get('status') == 'known']


def load_corpus(pid):
    d = os.path.join(VERIF, 'corpus', pid)
    out = []
    if os.path.isdir(d):
        for f in sorted(os.listdir(d)):
            if f.endswith('.json'):
                out.append(json.load(open(os.path.join(d, f))))
    return out


def shrink(case, still_fails, candidates_fn, budget=400):
    """Greedy delta-debugging: candidates_fn(case) yields smaller variants."""
    cur = case
    n = 0
    progress = True
    while progress and n < budget:
        progress = False
        for cand in candidates_fn(cur):
            n += 1
            if n >= budget:
                break
            try:
                if still_fails(cand):
                    cur = cand
                    progress = True
                    break
            except Exception:
                continue
    return cur
