"""C13, hierarchical part: construction scripts for HierarchicalMachine against the Coq builder
(Model/HBuild.v, dispatch kind 17).  From one abstract description (state trees with callbacks /
final / ignore / initial, transitions declared in nested scopes, global transitions, embedded
machines with and without remap, removals, add-then-remove detours in the global and in nested
scopes) two scripts are derived:
  * a subtree as nested dict ('children' or 'states' per dict), as the parent followed by
    separator-joined names one by one (pre-order), or as another HierarchicalMachine embedded
    as children;
  * an embedded machine with remap, or the explicit nested definition of the kept states plus
    the transitions that leave through the remap target;
  * detours: transitions on a fresh trigger (global, or in a nested dict's 'transitions')
    that are removed again, or nothing.
Both scripts run on the real library (structure read back through machine.states / state.states /
state.events / state.initial ...) and on the extracted builder; model == impl per script is the
correspondence, impl(A) == impl(B) after normalisation the oracle."""
import copy
import random

import flat
import hsm
from framework import opt

KIND = 17


# ====================================================================== encoding
def enc_attrs(a):
    ign = a.get('ign', 'absent')
    ign_sx = [] if ign == 'absent' else [opt(ign, bool)]
    return [a['enter'], a['exit'], a['onfinal'], bool(a['final']), ign_sx, a['initial']]


# A State OBJECT of a nested state given to add_transition used to be registered under its bare local name
# (state.name); fixed in /repo (983083c: named by its path), so object and name are equivalent on every level.
NESTED_OBJ_IS_BARE_NAME = False


def model_ts(ts):
    """the transitions the model is given: shorthands ('*', '=') inside a nested definition unfolded by the
    generator's own expansion, object references resolved as the library resolves them"""
    out = []
    for e, t in ts:
        if 'expand' in t:
            out += [[e, x] for x in t['expand']]
            continue
        if t.get('src_obj') or t.get('dst_obj'):
            t = dict(t)
            if t.get('src_obj') and NESTED_OBJ_IS_BARE_NAME:
                t['src'] = t['src'][-1:]
            if t.get('dst_obj') and t['dst'] is not None and NESTED_OBJ_IS_BARE_NAME:
                t['dst'] = t['dst'][-1:]
        out.append([e, t])
    return out


def enc_ts(ts):
    return [[e, hsm.enc_htrans(t)] for e, t in model_ts(ts)]


def _resolved(d, ign):
    d = dict(d, ignore=ign if d['ignore'] is None else d['ignore'])
    d['children'] = [_resolved(c, ign) for c in d['children']]
    return d


def enc_sub(s, ign):
    # the states of the machine to be embedded carry the machine-level default where they have no own flag
    return [[hsm.enc_sdef(_resolved(d, ign)) for d in s['states']], hsm.enc_events(s['events']), s['initial']]


def enc_form(f, ign):
    if f[0] == 'name':
        return [0, f[1], enc_attrs(f[2])]
    if f[0] == 'dict':
        return [1, f[1], enc_attrs(f[2]), bool(f[3]), [enc_form(c, ign) for c in f[4]], enc_ts(f[5])]
    return [2, f[1], enc_attrs(f[2]), enc_sub(f[3], ign), [[k, v] for k, v in f[4]]]


def enc_op(o, ign):
    if o[0] == 'states':
        return [0, [enc_form(f, ign) for f in o[1]]]
    if o[0] == 'trans':
        return [1, enc_ts(o[1])]
    return [2, o[1], o[2], o[3]]


def enc(case):
    return [opt(case['ign'], bool), [enc_op(o, case['ign']) for o in case['A']], [enc_op(o, case['ign']) for o in case['B']]]


# ====================================================================== generation
DEFAULT_ATTRS = dict(enter=[], exit=[], onfinal=[], final=False, initial=[])


def attrs_of(d, dict_form):
    a = dict(enter=d['enter'], exit=d['exit'], onfinal=d['onfinal'], final=d['final'], initial=d['initial'])
    if d['ignore'] is not None:
        a['ign'] = d['ignore']
    return a


def is_default(d):
    return not d['enter'] and not d['exit'] and not d['onfinal'] and not d['final'] and not d['initial'] \
        and d['ignore'] is None


def has_local(d):
    return bool(d['events']) or any(has_local(c) for c in d['children'])


def flat_ts(events):
    return [[e, t] for e, ts in events for t in ts]


def real_dict(rng, d, strip_trig=None, name_leaves=True):
    """nested dict; leaves with default attributes may be plain names"""
    if name_leaves and not d['children'] and not d['events'] and is_default(d) and rng.random() < 0.5:
        return ['name', [d['name']], dict(DEFAULT_ATTRS)]
    ts = fold_wild(rng, [x for x in flat_ts(d['events']) if x[0] != strip_trig])
    return ['dict', d['name'], attrs_of(d, True), rng.random() < 0.5,
            [real_dict(rng, c, strip_trig) for c in d['children']], ts]


def fold_wild(rng, ts):
    """a contiguous group generated as the unfolding of source='*' (dest a state, None or '=') inside a nested
    definition is given to the library as that shorthand (half of the time); the model always gets the unfolding"""
    out = []
    i = 0
    while i < len(ts):
        w = ts[i][1].get('wild')
        if w is None:
            out.append(ts[i])
            i += 1
            continue
        j = i
        while j < len(ts) and ts[j][0] == ts[i][0] and ts[j][1].get('wild') == w:
            j += 1
        group = ts[i:j]
        if j - i == w[1] and rng.random() < 0.6:       # the complete group: fold
            t0 = group[0][1]
            out.append([ts[i][0], dict(t0, src='*', dst=w[2], expand=[dict(x[1]) for x in group])])
        else:
            out += group
        i = j
    return out


def real_names(d, prefix=(), rng=None):
    """the parent, then the separator-joined descendants one by one (pre-order); a parent whose keyword
    arguments equal its first child's may be left to be created on the fly by that child's joined name"""
    p = list(prefix) + [d['name']]
    out = [['name', p, attrs_of(d, False)]]
    if rng is not None and d['children'] and attrs_of(d, False) == attrs_of(d['children'][0], False) and rng.random() < 0.7:
        out = []
    for c in d['children']:
        out += real_names(c, p, rng)
    return out


def sub_of(d, strip_trig=None):
    """the children of d as a machine description (d's own transitions become its global ones)"""
    def strip(x):
        x = copy.deepcopy(x)

        def go(y):
            y['events'] = [(e, ts) for e, ts in y['events'] if e != strip_trig]
            for c in y['children']:
                go(c)
        go(x)
        return x
    return dict(states=[strip(c) for c in d['children']],
                events=[(e, list(ts)) for e, ts in d['events'] if e != strip_trig],
                initial=list(d['initial'][:1]))


def remap_moved(n, sub, remap):
    """documented meaning of remap, written independently of the model: transitions declared at the top
    level of the embedded machine whose destination is remapped leave from <n>_<source> to the target;
    transitions from remapped states disappear"""
    keys = {k: v for k, v in remap}
    kept, moved = [], []
    for e, ts in sub['events']:
        k2 = []
        for t in ts:
            if len(t['src']) == 1 and t['src'][0] in keys:
                continue
            if t['dst'] is not None and len(t['dst']) == 1 and t['dst'][0] in keys:
                moved.append([e, dict(t, src=[n] + t['src'], dst=list(keys[t['dst'][0]]))])
            else:
                k2.append(t)
        if k2:
            kept.append((e, k2))
    return kept, moved


def gen_case(rng, i=0):
    g = hsm.HGen(rng, max_depth=3, max_children=3, p_parallel=0.2)
    r = rng
    ntop = r.randint(1, 3)
    tops = [g.sdef(1) for _ in range(ntop)]
    ne = r.randint(1, 3)
    # names reused on several levels: some nested states are called like a top-level state or like a state of
    # another branch (only siblings have to differ); a relative name then reads like a global one
    pool = [t['name'] for t in tops]
    reused = set()

    def rename(d):
        for c in d['children']:
            pool.append(c['name'])
        for c in d['children']:
            if r.random() < 0.4:
                new = r.choice(pool)
                if new != c['name'] and new not in [x['name'] for x in d['children']]:
                    d['initial'] = [new if x == c['name'] else x for x in d['initial']]
                    c['name'] = new
                    reused.add(new)
            rename(c)
    for t in tops:
        rename(t)

    def all_paths(ds, prefix=()):
        out = []
        for d in ds:
            p = list(prefix) + [d['name']]
            out.append(p)
            out += all_paths(d['children'], p)
        return out

    # transitions declared in nested scopes
    def add_local(d):
        inside = all_paths(d['children'], ())
        if inside and r.random() < 0.45:
            by = {}
            for _ in range(r.randint(1, 3)):
                by.setdefault(r.randrange(ne), []).append(g.trans(inside, 0))
            d['events'] = sorted(by.items())
        if d['children'] and r.random() < 0.3:
            # source='*' declared inside this state: all its children (dest a state / None), or with dest '=' all
            # its descendants (names relative to the state); unfolded here, folded back by some realisations
            wid[0] += 1
            e = r.randrange(ne)
            proto = g.trans([[d['children'][0]['name']]], 0)
            mode = r.random()
            if mode < 0.5:
                srcs = all_paths(d['children'], ())
                group = [dict(proto, src=p, dst=p) for p in srcs]
                dst = '='
            else:
                srcs = [[c['name']] for c in d['children']]
                tgt = None if mode < 0.6 else r.choice(inside)
                group = [dict(proto, src=p, dst=tgt) for p in srcs]
                dst = tgt
            for x in group:
                x['wild'] = [wid[0], len(group), dst]
            evs = dict((k, list(v)) for k, v in d['events'])
            evs.setdefault(e, [])
            evs[e] = evs[e] + group
            d['events'] = sorted(evs.items())
        for c in d['children']:
            add_local(c)
    wid = [0]
    for t in tops:
        add_local(t)

    def share(d):
        # some compounds get the same keyword arguments as their first child (on-the-fly creation of the parent)
        if d['children'] and not d['initial'] and r.random() < 0.4:
            c = d['children'][0]
            # keyword arguments of the add_states call that creates parent(s) and leaf from one joined name:
            # final=True, callbacks, ignore_invalid_triggers - all of them reach every state created by the call
            if r.random() < 0.6:
                d['final'] = True
            if r.random() < 0.5:
                d['ignore'] = r.choice([True, False])
            if not d['enter'] and r.random() < 0.5:
                d['enter'] = g.cbs(2, 0.0)
            if not d['onfinal'] and r.random() < 0.5:
                d['onfinal'] = g.cbs(2, 0.0)
            for k in ('enter', 'exit', 'onfinal', 'final', 'ignore'):
                c[k] = d[k]
            c['initial'] = []
        for c in d['children']:
            share(c)
    for t in tops:
        share(t)
    fresh = [ne + 5]

    def fresh_trig():
        fresh[0] += 1
        return fresh[0]
    A, B = [], []
    known = []          # absolute paths existing so far

    def realise_tree(script_rng, d, out):
        """one top-level subtree -> ops"""
        choices = ['dict']
        if not has_local(d):
            choices += ['names', 'names']
        if d['children']:
            choices += ['embed']
        c = script_rng.choice(choices)
        if c == 'dict':
            out.append(['states', [real_dict(script_rng, d, name_leaves=True)]])
        elif c == 'names':
            for f in real_names(d, (), script_rng):
                out.append(['states', [f]])
        else:
            out.append(['states', [['embed', d['name'], dict(attrs_of(d, True), initial=[] if r_keep_initial(d) else d['initial']),
                                    sub_of(d), []]]])

    def r_keep_initial(d):
        # the embedding state takes the embedded machine's initial state when it has none of its own
        return len(d['initial']) <= 1

    items = []
    for t in tops:
        items.append(('tree', t))
    # an embedded machine with remap
    if r.random() < 0.6:
        host = g.sdef(3)              # a leaf-like definition used for the embedding state's attributes
        host['children'] = []
        host['initial'] = []
        kids = [g.sdef(2) for _ in range(r.randint(2, 4))]
        for k in kids:
            add_local(k)
        nrem = r.randint(1, min(2, len(kids) - 1))
        rem = kids[-nrem:]
        kept = kids[:-nrem]
        targets = all_paths(tops)
        remap = [[k['name'], r.choice(targets)] for k in rem]
        top_names = [[k['name']] for k in kids] + [p for p in all_paths(kids) if len(p) > 1 and p[0] in [k['name'] for k in kept]]
        by = {}
        for _ in range(r.randint(1, 6)):
            by.setdefault(r.randrange(ne), []).append(g.trans(top_names, 0))
        sub = dict(states=kids, events=sorted(by.items()), initial=[kept[0]['name']] if r.random() < 0.8 else [])
        items.insert(r.randint(1, len(items)), ('remap', host, sub, remap, kept))
    # global transitions, removals, detours
    for _ in range(r.randint(1, 5)):
        x = r.random()
        if x < 0.5:
            items.append(('gtrans', r.randrange(ne)))
        elif x < 0.75:
            items.append(('remove',))
        else:
            # on a fresh trigger (removed by name), or on a trigger that nested scopes declare, too (removed by a
            # destination filter that matches nothing else)
            items.append(('detour', fresh_trig()) if r.random() < 0.4 else ('detour_f', r.randrange(ne)))
    # a nested-scope detour: some compound carries transitions on a fresh trigger that are removed again
    nested_detour = None
    compounds = [t for t in tops if t['children']]
    if compounds and r.random() < 0.4:
        nested_detour = (r.choice(compounds), fresh_trig())

    rA, rB = random.Random(r.random()), random.Random(r.random())
    SINK = 99      # a top-level state no generated transition targets: destination of filtered detours
    A.append(['states', [['name', [SINK], dict(DEFAULT_ATTRS)]]])
    B.append(['states', [['name', [SINK], dict(DEFAULT_ATTRS)]]])
    for it in items:
        if it[0] == 'tree':
            d = it[1]
            for script, sr in ((A, rA), (B, rB)):
                if nested_detour and nested_detour[0] is d and sr.random() < 0.6:
                    # the dict with extra transitions on a fresh trigger, removed right away
                    dd = copy.deepcopy(d)
                    trig = nested_detour[1]

                    def decorate(y):
                        inside = all_paths(y['children'], ())
                        if inside and sr.random() < 0.7:
                            y['events'] = list(y['events']) + [(trig, [g2.trans(inside, 0) for _ in range(sr.randint(1, 2))])]
                        for c in y['children']:
                            decorate(c)
                    g2 = hsm.HGen(sr)
                    g2.cb = 500
                    decorate(dd)
                    script.append(['states', [real_dict(sr, dd)]])
                    script.append(['remove', trig, [], []])
                else:
                    realise_tree(sr, d, script)
            known += all_paths([d])
        elif it[0] == 'remap':
            _, host, sub, remap, kept = it
            n = host['name']
            a = attrs_of(host, True)
            for script, sr in ((A, rA), (B, rB)):
                if sr.random() < 0.5:
                    script.append(['states', [['embed', n, a, sub, remap]]])
                else:
                    kept_ev, moved = remap_moved(n, sub, remap)
                    a2 = dict(a, initial=a['initial'] or sub['initial'])
                    if sr.random() < 0.5:
                        # the kept part as a dict
                        ch = [real_dict(sr, k, name_leaves=False) for k in kept]
                        script.append(['states', [['dict', n, a2, sr.random() < 0.5, ch, flat_ts(kept_ev)]]])
                    else:
                        # the kept part as an embedded machine without remap
                        script.append(['states', [['embed', n, a, dict(states=kept, events=kept_ev, initial=sub['initial']), []]]])
                    if moved:
                        script.append(['trans', moved])
            known += [[n] + p for p in all_paths(kept)] + [[n]]
        elif it[0] == 'gtrans':
            ts = [[it[1], g.trans(known, 0)] for _ in range(r.randint(1, 3))] if known else []
            if ts:
                for script, sr in ((A, rA), (B, rB)):
                    # states of any level: by name or by State object, per script (equivalent)
                    mine = []
                    for e, t in ts:
                        t = dict(t)
                        if sr.random() < 0.3:
                            t['src_obj'] = True
                        if t['dst'] is not None and sr.random() < 0.3:
                            t['dst_obj'] = True
                        mine.append([e, t])
                    if sr.random() < 0.5:
                        script.append(['trans', mine])
                    else:
                        for t in mine:
                            script.append(['trans', [t]])
        elif it[0] == 'remove':
            trig = r.randrange(ne)
            x = r.random()
            sp = [] if x < 0.35 or not known else r.choice(known)
            dp = [] if x > 0.65 or not known else r.choice(known)
            amb = [p for p in known if p[-1] in reused]
            if amb and r.random() < 0.5:
                # dest-only / source-only filters on names that occur on several levels
                p = r.choice(amb)
                q = r.choice([p, [p[-1]]])
                sp, dp = ([], q) if r.random() < 0.6 else (q, [])
            if r.random() < 0.3 and known:
                # a path relative to some nested scope (exercises the scope-wise matching of the library)
                p = r.choice(known)
                sp = p[1:] if len(p) > 1 else sp
            A.append(['remove', trig, sp, dp])
            B.append(['remove', trig, sp, dp])
        elif it[0] == 'detour_f':
            trig = it[1]
            if not known:
                continue
            for script, sr in ((A, rA), (B, rB)):
                if sr.random() < 0.5:
                    g3 = hsm.HGen(sr)
                    g3.cb = 800
                    src = sr.choice(known)
                    ts = []
                    for _ in range(sr.randint(1, 2)):
                        t = g3.trans(known, 0)
                        t['src'], t['dst'] = (src if sr.random() < 0.7 else sr.choice(known)), [SINK]
                        ts.append([trig, t])
                    script.append(['trans', ts])
                    if all(t['src'] == src for _, t in ts) and sr.random() < 0.5:
                        script.append(['remove', trig, src, [SINK]])
                    else:
                        script.append(['remove', trig, [], [SINK]])
        else:
            trig = it[1]
            if not known:
                continue
            for script, sr in ((A, rA), (B, rB)):
                if sr.random() < 0.5:
                    g3 = hsm.HGen(sr)
                    g3.cb = 700
                    script.append(['trans', [[trig, g3.trans(known, 0)] for _ in range(sr.randint(1, 3))]])
                    script.append(['remove', trig, [], []])
    if i % 10 == 9 and known:
        # a raising call, the same in both scripts: a separator-joined name that exists already
        bad = ['states', [['name', r.choice(known), dict(DEFAULT_ATTRS)]]]
        A.append(bad)
        B.append(bad)
        if r.random() < 0.5:
            more = ['remove', 0, [], []]
            A.append(more)
            B.append(more)
    hist = [r.randrange(ne + 1) for _ in range(r.randint(2, 7))]
    # NestedState.separator of a subclass of the state class (every third case)
    sep = ['.', '/', '->'][(i // 3) % 3] if i % 3 == 2 else '_'
    return dict(ign=r.choice([None, None, True, False]), A=A, B=B, history=hist, sep=sep)


# ====================================================================== implementation side
SEP = {'cur': '_'}


def sname(p):
    return SEP['cur'].join('s%d' % n for n in p)


def cb(ids):
    return ['cb%d' % c for c in ids]


def cbid(l):
    return [int(str(x)[2:]) for x in l]


def tdict(e, t):
    if t['src'] == '*':
        return dict(tdict(e, dict(t, src=[0], dst=None)), source='*',
                    dest='=' if t['dst'] == '=' else None if t['dst'] is None else sname(t['dst']))
    return dict(trigger='e%d' % e, source=sname(t['src']), dest=None if t['dst'] is None else sname(t['dst']),
                conditions=cb([c for c, tg in t['conds'] if tg]), unless=cb([c for c, tg in t['conds'] if not tg]),
                before=cb(t['before']), after=cb(t['after']), prepare=cb(t['prepare']))


def kw_of(a, name_form):
    kw = {}
    if a['enter']:
        kw['on_enter'] = cb(a['enter'])
    if a['exit']:
        kw['on_exit'] = cb(a['exit'])
    if a['onfinal']:
        kw['on_final'] = cb(a['onfinal'])
    if a['final']:
        kw['final'] = True
    if 'ign' in a:
        kw['ignore_invalid_triggers'] = a['ign']
    if a['initial']:
        kw['initial'] = 's%d' % a['initial'][0] if len(a['initial']) == 1 else ['s%d' % i for i in a['initial']]
    return kw


def sdict_of_sdef(d):
    """a machine description (sdefn dict) as nested dict for building the machine to be embedded"""
    out = dict(name='s%d' % d['name'], on_enter=cb(d['enter']), on_exit=cb(d['exit']), on_final=cb(d['onfinal']),
               final=d['final'])
    if d['ignore'] is not None:
        out['ignore_invalid_triggers'] = d['ignore']
    if d['children']:
        out['children'] = [sdict_of_sdef(c) for c in d['children']]
    if d['initial']:
        out['initial'] = 's%d' % d['initial'][0] if len(d['initial']) == 1 else ['s%d' % i for i in d['initial']]
    if d['events']:
        out['transitions'] = [tdict(e, t) for e, ts in d['events'] for t in ts]
    return out


def build_form(HM, f, ign):
    if f[0] == 'dict':
        d = dict(name='s%d' % f[1], **kw_of(f[2], False))
        if f[4]:
            d['children' if f[3] else 'states'] = [build_form(HM, c, ign) for c in f[4]]
        if f[5]:
            d['transitions'] = [tdict(e, t) for e, t in f[5]]
        return d
    if f[0] == 'name':
        return sname(f[1])
    sub = f[3]
    m = HM(model=None, states=[sdict_of_sdef(d) for d in sub['states']],
           initial=('s%d' % sub['initial'][0]) if sub['initial'] else None, auto_transitions=False,
           ignore_invalid_triggers=ign)
    for e, ts in sub['events']:
        for t in ts:
            m.add_transition(**tdict(e, t))
    d = dict(name='s%d' % f[1], **kw_of(f[2], False))
    d['children' if f[1] % 2 else 'states'] = m
    if f[4]:
        d['remap'] = {'s%d' % k: sname(v) for k, v in f[4]}
    return d


def pth(s):
    try:
        return [int(x[1:]) for x in s.split(SEP['cur'])]
    except ValueError:
        return [999]        # not a path of state names in this machine's separator


def read_events(events):
    out = []
    for name, ev in events.items():
        ts = []
        for src, lst in ev.transitions.items():
            for t in lst:
                ts.append([pth(t.source), opt(None if t.dest is None else pth(t.dest)), cbid(t.prepare),
                           [[cbid([c.func])[0], int(bool(c.target))] for c in t.conditions], cbid(t.before), cbid(t.after)])
        out.append([int(name[1:]), ts])
    return out


def read_states(states):
    out = []
    for name, s in states.items():
        ini = s.initial
        ini = [] if ini is None else [int(x[1:]) for x in (ini if isinstance(ini, (list, tuple)) else [ini])]
        out.append([int(name[1:]), cbid(s.on_enter), cbid(s.on_exit), cbid(s.on_final), int(bool(s.final)),
                    opt(s.ignore_invalid_triggers, lambda v: int(bool(v))), ini, read_events(s.events),
                    read_states(s.states)])
    return out


def run_script(case, ops):
    flat._import_transitions()
    from transitions.extensions.nesting import HierarchicalMachine as HM
    SEP['cur'] = case.get('sep', '_')
    HM = hsm.with_sep(HM, SEP['cur'])
    m = HM(model=None, initial=None, auto_transitions=False, ignore_invalid_triggers=case['ign'])
    model = CbModel()

    def with_objs(e, t):
        kw = tdict(e, t)
        if t.get('src_obj'):
            kw['source'] = m.get_state(kw['source'])
        if t.get('dst_obj') and t['dst'] is not None:
            kw['dest'] = m.get_state(kw['dest'])
        return kw
    err = []
    for i, o in enumerate(ops):
        if not m.models and m.states:
            # the model is registered as soon as a state exists: later calls have to keep it up to date
            m.add_model(model, initial=list(m.states)[0])
        try:
            if o[0] == 'states':
                forms = o[1]
                if len(forms) == 1 and forms[0][0] == 'name':
                    m.add_states(sname(forms[0][1]), **kw_of(forms[0][2], True))
                else:
                    m.add_states([build_form(HM, f, case['ign']) for f in forms])
            elif o[0] == 'trans':
                if len(o[1]) == 1 and o[1][0][0] % 2:
                    m.add_transition(**with_objs(*o[1][0]))
                else:
                    m.add_transitions([with_objs(e, t) for e, t in o[1]])
            else:
                kw = {}
                if o[2]:
                    kw['source'] = sname(o[2])
                if o[3]:
                    kw['dest'] = sname(o[3])
                try:
                    m.remove_transition('e%d' % o[1], **kw)
                except AttributeError:
                    # delattr(model, trigger) for a trigger the registered model has no method for (nothing of that
                    # name was ever added): the removal itself is done; the builder model has no model object
                    pass
        except Exception as e:  # noqa
            code = {KeyError: 0, ValueError: 1, AttributeError: 2}.get(type(e), 9)
            err = [code, i]
            break
    # structure, read through the public objects
    names = m.get_nested_state_names()
    st = read_states(m.states)
    assert names == [sname(p) for p in tree_paths(st)], (names, st)
    # the convenience methods model.<trigger>() on a short history (compared between the two scripts only)
    runs = []
    if not err:
        if not m.models and m.states:
            m.add_model(model, initial=list(m.states)[0])
        tr = flat._import_transitions()
        for e in case.get('history', []):
            try:
                res = ['ret', bool(getattr(model, 'e%d' % e)())]
            except Exception as ex:  # noqa
                res = ['exc', 'MachineError' if isinstance(ex, tr.MachineError) else type(ex).__name__]
            runs.append([e, res, str(getattr(model, 'state', None))])
    return [st, read_events(m.events), err, runs]


class CbModel(object):
    """every callback name 'cb<N>' resolves to a function; nothing else does"""

    def __getattr__(self, name):
        if name.startswith('cb') and name[2:].isdigit():
            n = int(name[2:])
            return lambda *a, **k: n % 3 != 0
        raise AttributeError(name)


def tree_paths(st, prefix=()):
    out = []
    for d in st:
        p = list(prefix) + [d[0]]
        out.append(p)
        out += tree_paths(d[8], p)
    return out


def impl(case):
    return [1, run_script(case, case['A']), run_script(case, case['B'])]


# ====================================================================== comparison
def _sort_events(evs, by_trigger):
    out = [[e, sorted(ts, key=lambda t: t[0])] for e, ts in evs]       # stable: per-source order is kept
    return sorted(out, key=lambda x: x[0]) if by_trigger else out


def _canon_states(st, by_trigger):
    return [[d[0], d[1], d[2], d[3], int(d[4]), [int(x) for x in d[5]], d[6], _sort_events(d[7], by_trigger),
             _canon_states(d[8], by_trigger)] for d in st]


def canon_obs(o, by_trigger=False):
    if not isinstance(o, list) or o[0] != 1:
        return o
    return [1] + [[_canon_states(x[0], by_trigger), _sort_events(x[1], by_trigger), x[2]] for x in o[1:]]


def oracle(case, impl_obs):
    o = canon_obs(impl_obs, by_trigger=True)
    a, b = o[1], o[2]
    if bool(a[2]) != bool(b[2]):
        return 'one script raises, the other does not: %r vs %r' % (a[2], b[2])
    if a[2]:
        return None if a[2][0] == b[2][0] else 'different exception types'
    if a[0] != b[0]:
        return 'state trees differ'
    if a[1] != b[1]:
        return 'global events differ'
    # model.<trigger>() is compared for the triggers that still have transitions somewhere: a trigger without any
    # may or may not have left a method behind (embedding registers the methods before remap drops events)
    def trigs(st, evs):
        out = {e for e, ts in evs if ts}
        for d in st:
            out |= trigs(d[8], d[7])
        return out
    live = trigs(a[0], a[1])
    ra = [x for x in (impl_obs[1][3] if len(impl_obs[1]) > 3 else []) if x[0] in live]
    rb = [x for x in (impl_obs[2][3] if len(impl_obs[2]) > 3 else []) if x[0] in live]
    if ra != rb:
        return 'model.<trigger>() histories differ: %r vs %r' % (ra, rb)
    return None


def corpus():
    import json
    import os
    import framework as F
    d = os.path.join(F.VERIF, 'corpus', 'C13', 'hbuild')
    out = []
    if os.path.isdir(d):
        for f in sorted(os.listdir(d)):
            if f.endswith('.json'):
                out.append(json.load(open(os.path.join(d, f))))
    return out


def stream(tag, seed, n):
    """returns (ok, detail, replay_payload)"""
    import framework as F
    fixed = corpus()
    cases = fixed + [gen_case(random.Random('C13-h-%s-%d-%d' % (tag, seed, i)), i) for i in range(n)]
    mo = F.run_model(KIND, [enc(c) for c in cases])
    io = F.run_impl('c13_h', 'impl', cases)
    dist = dict(cases=n, corpus=len(fixed), raised=0, custom_separator=0, wildcard_shorthands=0, state_object_refs=0, ops=0, embed=0, embed_remap=0, names=0, dicts=0, removes=0, nested_local=0, differing_scripts=0,
                states=0)
    bad = None
    for c, m, i in zip(cases, mo, io):
        if isinstance(i, dict):
            bad = bad or dict(kind='correspondence', correspondence='corr_C13_hbuild', case=c, error=i)
            continue
        cm, ci = canon_obs(m), canon_obs(i)
        if cm != ci and bad is None:
            import main as M
            bad = dict(kind='counterexample', correspondence='corr_C13_hbuild', case=c, model_obs=cm, impl_obs=ci,
                       first_difference=M.first_diff(cm, ci),
                       theorem='HBuild.hexec = what /repo builds (Props/C13.v hierarchical laws are about HBuild)')
        msg = oracle(c, i)
        if msg and bad is None:
            bad = dict(kind='oracle', case=c, impl_obs=ci, failing_clause='two hierarchical scripts of one description: ' + msg)
        dist['differing_scripts'] += c['A'] != c['B']
        dist['custom_separator'] += c.get('sep', '_') != '_'
        txt = repr(c['A']) + repr(c['B'])
        dist['wildcard_shorthands'] += txt.count("'expand'")
        dist['state_object_refs'] += txt.count("_obj'")
        dist['raised'] += bool(i[1][2])
        dist['states'] += len(tree_paths(i[1][0]))
        for o in c['A'] + c['B']:
            dist['ops'] += 1
            if o[0] == 'states':
                for f in o[1]:
                    if f[0] == 'embed':
                        dist['embed_remap' if f[4] else 'embed'] += 1
                    elif f[0] == 'name':
                        dist['names'] += 1
                    else:
                        dist['dicts'] += 1
                        dist['nested_local'] += bool(f[5]) or any(x[0] == 'dict' and x[5] for x in f[4])
            elif o[0] == 'remove':
                dist['removes'] += 1
    return bad is None, dist, bad or {}
