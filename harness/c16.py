"""C16 — diagrams depict the machine: correspondence of the real GraphMachine /
HierarchicalGraphMachine (Mermaid backend, the only one importable here) with the Coq model
coq/Model/Diagram.v.  The text of model.get_graph().draw(None) and of
model.get_graph(show_roi=True).draw(None) is parsed back into the model's abstract lines
after construction and after every step of a history (events, add_states, add_transition,
remove_transition)."""
import copy
import enum
import os
import re
import sys

PID = 'C16'
KIND = 7
IMPL = ('c16', 'impl')
COUNTS = dict(quick=700, thorough=12000)
RULE = ('cases = random flat machines (2-6 states, plain or Enum states, labels, final flags, on_enter/on_exit '
        'lists) and hierarchical machines (2-4 top-level states, nesting depth <= 3, initial substates, parallel '
        'states in the cases without events) with 1-8 transitions (1-4 triggers, internal / reflexive ones, '
        'conditions / unless with fixed values, custom labels), display options show_conditions / '
        'show_auto_transitions / show_state_attributes drawn independently, auto_transitions off in 35 %, any state as initial, and a history '
        'of 0-7 steps: model.trigger(event) (known triggers, to_<state>, unknown names), add_states (top level, '
        'leaf or compound; 45 % as one call with a list: that state first, then 1-2 further states), add_transition, remove_transition (with and without source/dest filters), get_graph(force_new=True); '
        'the diagrams are fetched through the model\'s get_graph or (50 %) the machine\'s get_graph(title, force_new, '
        'show_roi), each keyword on its own; in 40 % of '
        'the cases with events (non-Enum, all states simple) 1-3 on_enter callbacks fire follow-up events from inside '
        'the callback (chains A -e1-> B, on_enter of B fires e2, B -e2-> C; budget 1-3 per call; also in on_exit lists, '
        'and callbacks that regenerate the graph); 30 % of all cases use the async, 20 % the locked graph machine classes; every 9th '
        'case is a static "wide" case (more states / transitions, no history).  After construction and after '
        'every step the full and the region-of-interest diagram are parsed and compared (edge lines as a set, '
        'labels of one edge as a multiset).  Non-trivial: the model state changed at least once during the '
        'history, or the machine has nested states and some region-of-interest view differs from the full view; '
        'distinct by hash of the case.')
ASSUMPTIONS = ['only the Mermaid backend exists in this sandbox (python modules graphviz / pygraphviz are not '
               'installed): every case uses graph_engine="mermaid"; the graphviz backends are not exercised',
               'one model per graph machine (40 % of the cases keep the state in a custom model_attribute, half of those with a '
               'second plain Machine managing the same model under "state"; flat machines with a custom attribute have '
               'auto_transitions=False, see KF-C14-3); callbacks do not raise; callbacks that call back into the machine are (i) on_enter / '
               'on_exit callbacks firing a follow-up event with model.trigger (unqueued synchronous machines, nesting bounded '
               'by a per-call counter 1-3, failing follow-ups swallowed by the callback) and (ii) callbacks calling '
               'model.get_graph(force_new=True), both on machines whose states are all simple (either machine class); '
               'on_exit callbacks of these two kinds leave a stale active style: known findings KF-C16-3 / KF-C16-2, '
               'classified only for the oracle clause "styled active but not current" directly after an event and never for '
               'a model/implementation disagreement',
               '30 % of the cases run on AsyncGraphMachine / HierarchicalAsyncGraphMachine (asyncio.run around every '
               'trigger; an async machine runs the callbacks of one list concurrently, so a follow-up-event callback - a coroutine '
               'awaiting model.trigger - is the only callback of its list there (length 1 = sequential); task scheduling of '
               'longer lists is C08\'s subject; no custom transition labels: AsyncTransition has no '
               'label keyword; compound states added after construction are in the envelope for every class since D43); '
               '20 % of the cases run on LockedGraphMachine / LockedHierarchicalGraphMachine '
               '(same synchronous runner, one thread)',
               '30 % of the hierarchical cases use a state class with another separator (".", "/", "\u21a6") and '
               'auto_transitions=False; transitions are registered at the root scope with full state names or declared inside the definition of a '
               'compound state (relative names; the triggers of one scope are used in no other scope: no mixed-scope '
               'precedence; state names are distinct over the whole machine, see the final report on relative names in '
               'the previous style); tags and timeout state '
               'attributes (show_state_attributes) are not covered; header lines (title, direction, classDef) and '
               'indentation of the Mermaid text are skipped by the parser',
               'the order of edge lines and of the labels within one edge line is not compared (dict order)']
THEOREMS = ['C16_states_once', 'C16_nesting', 'C16_parallel_separated', 'C16_edges', 'C16_edges_user',
            'C16_edges_scoped', 'C16_edges_only', 'C16_label', 'C16_marks', 'C16_styles', 'C16_styles_exit_refuted',
            'C16_styles_regen_refuted', 'C16_roi',
            'C16_refresh', 'C16_added_state', 'C16_added_states', 'C16_added_transition', 'C16_removed_transition', 'C16_example_wf',
            'C16_example_nested']

REPO = os.environ.get('VERIF_REPO', '/repo')
TEXTS = ['A', 'B', 'C', 'D', 'E', 'F', 'G', 'H', 'idle', 'run', 'S1', 'S2', 'x', 'y', 'z', 'p', 'q', 'On', 'Off',
         'k9', 'w', 'm1', 'm2', 'Wait', 'Done', 'n0', 'n1', 'n2', 'u', 'v', 'R', 'T', 'aa', 'bb', 'cc', 'dd', 'ee',
         'ff', 'gg', 'hh', 'J', 'K', 'L', 'M', 'N', 'O', 'P', 'Q']
TRIGGERS = ['go', 'ev1', 'tick', 'next', 'advance']
CONDS = ['c0', 'c1', 'c2', 'c3']
CBS = ['cbA', 'cbB', 'cbC']
LABEL_ALPHA = 'abcXYZ019 .-+()[]!&/'
# compound states added after construction (stale root 'children' in the markup, see the final report)
ADD_COMPOUND = True
# the same on HierarchicalAsyncGraphMachine / LockedHierarchicalGraphMachine (D43, fixed)
ASYNC_ADD_COMPOUND = True
# callbacks that fire a follow-up event from inside the callback (nested processing on an unqueued machine)
ACT_CBS = ['fwA', 'fwB', 'fwC']
# callbacks that regenerate the model's graph from inside the callback: model.get_graph(force_new=True)
REGEN_CBS = ['rgA', 'rgB']
# acting / regenerating callbacks in on_exit lists: the model mirrors the library (a stale 'active' style remains,
# Props/C16.v C16_styles_exit_refuted / C16_styles_regen_refuted); known findings KF-C16-3 / KF-C16-2
EXIT_ACTS = True


def _import_transitions():
    if REPO not in sys.path:
        sys.path.insert(0, REPO)
    import transitions  # noqa
    assert os.path.abspath(transitions.__file__).startswith(os.path.abspath(REPO)), transitions.__file__
    return transitions


# ------------------------------------------------------------------ generation
def _label(rng):
    n = rng.randint(1, 8)
    s = ''.join(rng.choice(LABEL_ALPHA) for _ in range(n)).strip()
    return s or 'L'


def _node(rng, ids, depth, allow_comp, allow_par, plain=False):
    i = ids.pop(0)
    nd = dict(id=i, text=TEXTS[i], label=None, final=False, enter=[], exit=[], par=False, ini=None, kids=[])
    if not plain:
        if rng.random() < 0.25:
            nd['label'] = _label(rng)
        nd['final'] = rng.random() < 0.2
        nd['enter'] = [rng.choice(CBS) for _ in range(rng.choice([0, 0, 1, 2]))]
        nd['exit'] = [rng.choice(CBS) for _ in range(rng.choice([0, 0, 0, 1, 2]))]
    if allow_comp and depth < 3 and len(ids) > 3 and rng.random() < (0.5 if depth == 1 else 0.3):
        nk = rng.randint(1, 3)
        nd['kids'] = [_node(rng, ids, depth + 1, True, allow_par) for _ in range(nk)]
        if allow_par and nk >= 2 and rng.random() < 0.35:
            nd['par'] = True
        elif rng.random() < 0.75:
            nd['ini'] = rng.choice(nd['kids'])['id']
    return nd


def _paths(forest, pfx=()):
    out = []
    for nd in forest:
        p = list(pfx) + [nd['id']]
        out.append(p)
        out += _paths(nd['kids'], p)
    return out


def _trans(rng, paths, val, trig=None):
    src = rng.choice(paths)
    r = rng.random()
    dst = None if r < 0.15 else (src if r < 0.27 else rng.choice(paths))
    t = dict(trig=trig or rng.choice(TRIGGERS[:rng.randint(1, len(TRIGGERS))]), label=None, src=src, dst=dst,
             conds=[], unless=[])
    if rng.random() < 0.15:
        t['label'] = _label(rng)
    if rng.random() < 0.4:
        t['conds'] = [[c, val[c]] for c in (rng.choice(CONDS) for _ in range(rng.randint(1, 2)))]
    if rng.random() < 0.25:
        t['unless'] = [[c, val[c]] for c in (rng.choice(CONDS) for _ in range(rng.randint(1, 2)))]
    return t


# separator of nested state names used while a case runs on the library (NestedState.separator of the case's state class)
_SEP = ['_']


def _full_text(forest, path):
    out = []
    for i in path:
        nd = [n for n in forest if n['id'] == i][0]
        out.append(nd['text'])
        forest = nd['kids']
    return _SEP[0].join(out)


def gen(rng, i, tier):
    wide = (i % 9 == 8)
    hsm = rng.random() < 0.6
    with_events = (not wide) and rng.random() < 0.75
    use_enum = (not hsm) and rng.random() < 0.2
    nested = with_events and not use_enum and rng.random() < 0.4
    ids = list(range(len(TEXTS)))
    perm = ids[:]
    rng.shuffle(perm)
    ids = perm
    if hsm:
        ntop = rng.randint(2, 6 if wide else 4)
        forest = [_node(rng, ids, 1, not nested, not with_events) for _ in range(ntop)]
    else:
        ntop = rng.randint(2, 9 if wide else 6)
        forest = [_node(rng, ids, 1, False, False, plain=use_enum) for _ in range(ntop)]
    val = {c: rng.random() < 0.7 for c in CONDS}
    paths = _paths(forest)
    trans = [_trans(rng, paths, val) for _ in range(rng.randint(1, 16 if wide else 8))]
    opts = dict(conds=rng.random() < 0.5, auto=rng.random() < 0.25, attrs=rng.random() < 0.35)
    case = dict(kind='hsm' if hsm else 'flat', enum=use_enum, opts=opts, states=forest, trans=trans,
                initial=rng.choice(paths), ops=[], val=val, acts={}, budget=0, regen=[], autos=rng.random() >= 0.35,
                cls=_pick_cls(rng.random()))
    case['scoped'] = _scoped(rng, forest, val) if hsm else []
    # the attribute of the model that holds the state; with a custom one optionally a second, plain machine that
    # manages the same model under 'state' (sharing the top-level state names, resting in some state)
    # the diagrams are fetched with the model's get_graph or with the machine's (get_combined_graph alias)
    case['via'] = 'machine' if rng.random() < 0.5 else 'model'
    # hierarchical machines whose state class uses another separator than '_' (no automatic transitions then: the
    # model builds the names of the to_<state> events with '_')
    case['sep'] = rng.choice(['.', '/', u'\u21a6']) if (hsm and rng.random() < 0.3) else '_'
    if case['sep'] != '_':
        case['autos'] = False
    case['mattr'] = 'state' if rng.random() < 0.6 else rng.choice(['phase', 'mode'])
    case['decoy'] = rng.choice(forest)['id'] if (case['mattr'] != 'state' and rng.random() < 0.5) else None
    if case['mattr'] != 'state' and not hsm:
        # a flat machine names its automatic events to_<attribute>_<state>; the markup does not recognise them as
        # automatic and always exports them (KF-C14-3, C14's subject): flat custom-attribute cases have none
        case['autos'] = False
    if nested:
        _add_acts(rng, case, val)
    if wide:
        return _fit_class(case)
    cur_forest = copy.deepcopy(forest)
    cur_trans = list(trans)
    for _ in range(rng.randint(0, 7)):
        r = rng.random()
        paths = _paths(cur_forest)
        if with_events and r < 0.65:
            q = rng.random()
            if q < 0.2:
                ev = 'to_' + _full_text(cur_forest, rng.choice(paths))
            elif q < 0.24:
                ev = 'nosuch'
            elif case['scoped'] and q < 0.5:
                ev = rng.choice(case['scoped'])[1]['trig']
            elif cur_trans and q < 0.8:
                ev = rng.choice(cur_trans)['trig']
            else:
                ev = rng.choice(TRIGGERS)
            case['ops'].append(['ev', ev])
        elif r < 0.75 and not use_enum and len(ids) > 4:
            nd = _node(rng, ids, 1, hsm and ADD_COMPOUND and not nested
                       and (ASYNC_ADD_COMPOUND or case['cls'] != 'async'), hsm and not with_events)
            if nested and rng.random() < 0.4:
                nd['enter'].insert(rng.randint(0, len(nd['enter'])), rng.choice(sorted(case['acts']) or ACT_CBS[:1]))
            cur_forest.append(nd)
            if rng.random() < 0.45 and len(ids) > 6:
                # one add_states call with a list: the (possibly compound) state first, then further states
                more = [_node(rng, ids, 1, False, False) for _ in range(rng.randint(1, 2))]
                cur_forest.extend(more)
                case['ops'].append(['addsl', [nd] + more])
            else:
                case['ops'].append(['adds', nd])
        elif r < 0.8:
            # get_graph(force_new=True): a fresh graph object (styling reset, current state active)
            case['ops'].append(['mregen'])
        elif r < 0.92 or not cur_trans:
            t = _trans(rng, paths, val)
            cur_trans.append(t)
            case['ops'].append(['addt', t])
        else:
            t = rng.choice(cur_trans)
            src = t['src'] if rng.random() < 0.6 else None
            dst = t['dst'] if (t['dst'] is not None and rng.random() < 0.5) else None
            case['ops'].append(['remt', t['trig'], src, dst])

            def gone(u):
                return (u['trig'] == t['trig'] and (src is None or u['src'] == src)
                        and (dst is None or u['dst'] == dst))
            cur_trans = [u for u in cur_trans if not gone(u)]
    return _fit_class(case)


def _scoped(rng, forest, val, pfx=()):
    """transitions declared inside the definition of a compound state (its own 'transitions' list): names relative to
    that state; normal, reflexive and internal ones; at every depth, also in parallel states and their regions.  The
    triggers of one scope are used nowhere else."""
    out = []
    for nd in forest:
        if not nd['kids']:
            continue
        scope = list(pfx) + [nd['id']]
        if rng.random() < 0.55:
            rel = _paths(nd['kids'])
            for _ in range(rng.randint(1, 3)):
                t = _trans(rng, rel, val, trig='loc%d%s' % (nd['id'], rng.choice('ab')))
                out.append([scope, t])
        out += _scoped(rng, nd['kids'], val, scope)
    return out


def _added(o):
    """top-level states an op adds"""
    return [o[1]] if o[0] == 'adds' else (list(o[1]) if o[0] == 'addsl' else [])


def _pick_cls(r):
    """machine class family: asyncio 30 %, locked 20 %, plain 50 %"""
    return 'async' if r < 0.3 else ('locked' if r < 0.5 else 'sync')


def _fit_class(case):
    """async graph machines use AsyncTransition, which has no 'label' keyword (custom edge labels are a feature of
    TransitionGraphSupport only): no custom transition labels in async cases"""
    if case['cls'] == 'async':
        for t in case['trans'] + [o[1] for o in case['ops'] if o[0] == 'addt'] + [x[1] for x in case.get('scoped', [])]:
            t['label'] = None
        # an async machine runs the callbacks of one list concurrently (asyncio.gather) and a follow-up event has to
        # be awaited from a coroutine callback: task scheduling / cancellation is C08's subject, not modelled here.
        # A list of length 1 is sequential: a callback list that holds a follow-up callback is cut down to that one.
        for nd in _all_nodes(case['states']) + [n for o in case['ops'] for a in _added(o) for n in _all_nodes([a])]:
            for key in ('enter', 'exit'):
                acting = [c for c in nd[key] if c in case['acts']]
                if acting:
                    nd[key] = acting[:1]
    return case


def _add_acts(rng, case, val):
    """state callbacks that fire follow-up events: chains src --e1--> dst with an on_enter callback of dst firing
    e2 for which dst has a transition, plus a few acting callbacks at random places"""
    forest, trans = case['states'], case['trans']
    case['budget'] = rng.randint(1, 3)
    byid = {nd['id']: nd for nd in forest}
    for cb in ACT_CBS[:rng.randint(1, len(ACT_CBS))]:
        cands = [t for t in trans if t['dst'] is not None]
        if not cands or rng.random() < 0.3:
            t1 = dict(trig=rng.choice(TRIGGERS), label=None, src=[rng.choice(forest)['id']],
                      dst=[rng.choice(forest)['id']], conds=[], unless=[])
            trans.append(t1)
        else:
            t1 = rng.choice(cands)
        dst = byid[t1['dst'][0]]
        leaving = [t for t in trans if t['src'] == t1['dst'] and t['dst'] is not None]
        if leaving and rng.random() < 0.7:
            e2 = rng.choice(leaving)['trig']
        else:
            e2 = rng.choice(TRIGGERS)
            trans.append(dict(trig=e2, label=None, src=t1['dst'], dst=[rng.choice(forest)['id']], conds=[], unless=[]))
        case['acts'][cb] = e2
        dst['enter'].insert(rng.randint(0, len(dst['enter'])), cb)
        if rng.random() < 0.4:
            nd = rng.choice(forest)
            nd['enter'].insert(rng.randint(0, len(nd['enter'])), cb)
        if EXIT_ACTS and rng.random() < 0.4:
            nd = rng.choice(forest)
            nd['exit'].insert(rng.randint(0, len(nd['exit'])), cb)
    if rng.random() < 0.4:
        for cb in REGEN_CBS[:rng.randint(1, len(REGEN_CBS))]:
            case['regen'].append(cb)
            nd = rng.choice(forest)
            key = 'exit' if (EXIT_ACTS and rng.random() < 0.4) else 'enter'
            nd[key].insert(rng.randint(0, len(nd[key])), cb)
    if rng.random() < 0.5:
        case['initial'] = rng.choice([t['src'] for t in trans])
    if rng.random() < 0.6:
        # start in the source of the last chain and fire it first
        case['initial'] = t1['src']
        case['ops'].append(['ev', t1['trig']])


# ------------------------------------------------------------------ encoding for the model
def _s(txt):
    return [ord(c) for c in txt]


def _opt(x, f):
    return [] if x is None else [f(x)]


def enc_node(nd):
    ini = [1] if nd['par'] else ([0, nd['ini']] if nd['ini'] is not None else [])
    return [nd['id'], _s(nd['text']), _opt(nd['label'], _s), nd['final'], [_s(c) for c in nd['enter']],
            [_s(c) for c in nd['exit']], bool(nd['kids']), ini, [enc_node(k) for k in nd['kids']]]


def enc_trans(t):
    return [_s(t['trig']), _opt(t['label'], _s), t['src'], _opt(t['dst'], lambda d: d),
            [[_s(c), v] for c, v in t['conds']], [[_s(c), v] for c, v in t['unless']]]


def enc_op(o):
    if o[0] == 'ev':
        return [0, _s(o[1])]
    if o[0] == 'adds':
        return [1, enc_node(o[1])]
    if o[0] == 'addsl':
        return [4, [enc_node(n) for n in o[1]]]
    if o[0] == 'mregen':
        return [4, []]      # regeneration without a change of the machine: add_states([]) in the model
    if o[0] == 'addt':
        return [2, enc_trans(o[1])]
    return [3, _s(o[1]), _opt(o[2], lambda d: d), _opt(o[3], lambda d: d)]


def enc(case):
    o = case['opts']
    return [[o['conds'], o['auto'], o['attrs'], case['kind'] == 'hsm', bool(case['enum']), bool(case.get('autos', True))],
            [enc_node(n) for n in case['states']], [enc_trans(t) for t in case['trans']],
            case['initial'], [enc_op(x) for x in case['ops']],
            [[_s(c), _s(e)] for c, e in sorted(case.get('acts', {}).items())], case.get('budget', 0),
            [_s(c) for c in case.get('regen', [])],
            [[sc, enc_trans(t)] for sc, t in case.get('scoped', [])]]


# ------------------------------------------------------------------ implementation side
def _flatten(x):
    if isinstance(x, (list, tuple)):
        out = []
        for y in x:
            out += _flatten(y)
        return out
    return [x.name if isinstance(x, enum.Enum) else x]


class _Names(object):
    """full-name text <-> path of ids for the current forest"""

    def __init__(self, forest):
        self.forest = copy.deepcopy(forest)

    def text(self, path):
        return _full_text(self.forest, path)

    def path(self, text):
        out = []
        forest = self.forest
        for part in text.split(_SEP[0]):
            nd = [n for n in forest if n['text'] == part]
            if not nd:
                return [999, ] + _s(text)      # a name that is no state of the machine
            out.append(nd[0]['id'])
            forest = nd[0]['kids']
        return out


_STYLE = {'default': 0, 'active': 1, 'previous': 2, 'parallel': 3, 'inactive': 4}
_RE_DECL = re.compile(r'^state "(.*)" as (\S+)$')
_RE_OPEN = re.compile(r'^state (\S+) \{$')
_RE_CLASS = re.compile(r'^Class (\S+) s_(\w+)$')
_RE_INIT = re.compile(r'^\[\*\] --> (\S+)$')
_RE_FINAL = re.compile(r'^(\S+) --> \[\*\]$')
_RE_EDGE = re.compile(r'^(\S+) --> ([^\s:]+): (.*)$')


def parse_mermaid(text, names):
    lines = text.split('\n')
    assert lines[0] == '---' and lines[2] == '---' and lines[3] == 'stateDiagram-v2', lines[:4]
    out = []
    for raw in lines[4:]:
        l = raw.lstrip(' ')
        if not l.strip() or l.startswith('direction ') or l.startswith('classDef '):
            continue
        m = _RE_DECL.match(l)
        if m:
            out.append([0, names.path(m.group(2)), _s(m.group(1))])
            continue
        m = _RE_OPEN.match(l)
        if m:
            out.append([3, names.path(m.group(1))])
            continue
        if l == '}':
            out.append([4])
            continue
        if l == '--':
            out.append([5])
            continue
        m = _RE_CLASS.match(l)
        if m:
            out.append([2, names.path(m.group(1)), _STYLE.get(m.group(2), 9)])
            continue
        m = _RE_INIT.match(l)
        if m:
            out.append([6, names.path(m.group(1))])
            continue
        m = _RE_FINAL.match(l)
        if m:
            out.append([1, names.path(m.group(1))])
            continue
        m = _RE_EDGE.match(l)
        if m:
            out.append([7, names.path(m.group(1)), names.path(m.group(2)), [_s(x) for x in m.group(3).split(' | ')]])
            continue
        out.append([99, _s(l)])
    return out


def _rel_cfg(nd, t):
    cfg = dict(trigger=t['trig'], source=_full_text(nd['kids'], t['src']),
               dest=None if t['dst'] is None else _full_text(nd['kids'], t['dst']))
    if t['label'] is not None:
        cfg['label'] = t['label']
    if t['conds']:
        cfg['conditions'] = [c for c, _ in t['conds']]
    if t['unless']:
        cfg['unless'] = [c for c, _ in t['unless']]
    return cfg


def _state_cfg(nd, hsm, scoped=(), pfx=()):
    cfg = {'name': nd['text']}
    if nd['label'] is not None:
        cfg['label'] = nd['label']
    if nd['final']:
        cfg['final'] = True
    if nd['enter']:
        cfg['on_enter'] = list(nd['enter'])
    if nd['exit']:
        cfg['on_exit'] = list(nd['exit'])
    if nd['kids']:
        here = list(pfx) + [nd['id']]
        kids = [_state_cfg(k, hsm, scoped, here) for k in nd['kids']]
        own = [_rel_cfg(nd, t) for sc, t in scoped if sc == here]
        if own:
            cfg['transitions'] = own
        if nd['par']:
            cfg['parallel'] = kids
        else:
            cfg['children'] = kids
            if nd['ini'] is not None:
                cfg['initial'] = [k['text'] for k in nd['kids'] if k['id'] == nd['ini']][0]
    if len(cfg) == 1:
        return nd['text']
    return cfg


def impl(case):
    _SEP[0] = case.get('sep', '_')
    try:
        return _impl(case)
    finally:
        _SEP[0] = '_'


def _impl(case):
    tr = _import_transitions()
    from transitions.extensions import GraphMachine, HierarchicalGraphMachine
    from transitions.extensions.nesting import NestedState
    hsm = case['kind'] == 'hsm'
    is_async = case.get('cls', 'sync') == 'async'
    if is_async:
        import asyncio
        from transitions.extensions import AsyncGraphMachine, HierarchicalAsyncGraphMachine
        from transitions.extensions.asyncio import AsyncState, NestedAsyncState
    names = _Names(case['states'])
    val = case['val']

    class LState(tr.State):
        def __init__(self, *args, **kwargs):
            self.label = kwargs.pop('label', None)
            super(LState, self).__init__(*args, **kwargs)

    class LNested(NestedState):
        separator = case.get('sep', '_')

        def __init__(self, *args, **kwargs):
            self.label = kwargs.pop('label', None)
            super(LNested, self).__init__(*args, **kwargs)

    class FlatM(GraphMachine):
        state_cls = LState

    class HsmM(HierarchicalGraphMachine):
        state_cls = LNested

    if case.get('cls') == 'locked':
        from transitions.extensions import LockedGraphMachine, LockedHierarchicalGraphMachine

        class FlatM(LockedGraphMachine):  # noqa: F811
            state_cls = LState

        class HsmM(LockedHierarchicalGraphMachine):  # noqa: F811
            state_cls = LNested

    if is_async:
        class LAState(AsyncState):
            def __init__(self, *args, **kwargs):
                self.label = kwargs.pop('label', None)
                super(LAState, self).__init__(*args, **kwargs)

        class LANested(NestedAsyncState):
            separator = case.get('sep', '_')

            def __init__(self, *args, **kwargs):
                self.label = kwargs.pop('label', None)
                super(LANested, self).__init__(*args, **kwargs)

        class FlatM(AsyncGraphMachine):  # noqa: F811
            state_cls = LAState

        class HsmM(HierarchicalAsyncGraphMachine):  # noqa: F811
            state_cls = LANested

    class Model(object):
        pass
    for c in CONDS:
        setattr(Model, c, (lambda v: (lambda self, *a, **k: v))(val[c]))
    for c in CBS:
        setattr(Model, c, lambda self, *a, **k: None)

    def acting(ev):
        def cb(self, *a, **k):
            if self.budget_ > 0:
                self.budget_ -= 1
                try:
                    self.trigger(ev)
                except (tr.MachineError, AttributeError):
                    pass
        return cb

    def acting_async(ev):
        async def cb(self, *a, **k):
            if self.budget_ > 0:
                self.budget_ -= 1
                try:
                    await self.trigger(ev)
                except (tr.MachineError, AttributeError):
                    pass
        return cb
    for c, ev in case.get('acts', {}).items():
        setattr(Model, c, (acting_async if is_async else acting)(ev))
    for c in case.get('regen', []):
        setattr(Model, c, lambda self, *a, **k: self.get_graph(force_new=True))
    Model.budget_ = 0
    model = Model()

    en = None
    if case['enum']:
        en = enum.Enum('St', [nd['text'] for nd in case['states']])

    def sref(path):
        if en is not None and len(path) == 1 and names.text(path) in en.__members__:
            return en[names.text(path)]
        return names.text(path)

    def tcfg(t):
        cfg = dict(trigger=t['trig'], source=sref(t['src']), dest=None if t['dst'] is None else sref(t['dst']))
        if t['label'] is not None:
            cfg['label'] = t['label']
        if t['conds']:
            cfg['conditions'] = [c for c, _ in t['conds']]
        if t['unless']:
            cfg['unless'] = [c for c, _ in t['unless']]
        return cfg

    o = case['opts']
    states = en if en is not None else [_state_cfg(nd, hsm, case.get('scoped', [])) for nd in case['states']]
    kw = dict(model=model, states=states, initial=sref(case['initial']),
              transitions=[tcfg(t) for t in case['trans']], graph_engine='mermaid',
              auto_transitions=bool(case.get('autos', True)), model_attribute=case.get('mattr', 'state'),
              show_conditions=o['conds'], show_auto_transitions=o['auto'], show_state_attributes=o['attrs'])
    machine = (HsmM if hsm else FlatM)(**kw)
    mattr = case.get('mattr', 'state')
    if case.get('decoy') is not None and mattr != 'state':
        # bound after the graph machine: its convenience methods are skipped where the names are taken, it only
        # owns model.state, which never changes
        tr.Machine(model, states=[nd['text'] for nd in case['states']], initial=names.text([case['decoy']]),
                   auto_transitions=False)
        assert model.state == names.text([case['decoy']])

    getter = machine.get_graph if case.get('via', 'model') == 'machine' else model.get_graph

    def observe(full_graph=None):
        cur = [names.path(s) for s in _flatten(getattr(model, mattr))]
        full = parse_mermaid((full_graph or getter()).draw(None), names)
        roi = parse_mermaid(getter(show_roi=True).draw(None), names)
        return [cur, full, roi]

    obs = [observe()]
    for op in case['ops']:
        if op[0] == 'ev':
            model.budget_ = case.get('budget', 0)
            try:
                if is_async:
                    async def _go(name=op[1]):
                        return await model.trigger(name)
                    asyncio.run(_go())
                else:
                    model.trigger(op[1])
            except (tr.MachineError, AttributeError):
                pass
        elif op[0] == 'adds':
            names.forest.append(copy.deepcopy(op[1]))
            machine.add_states(_state_cfg(op[1], hsm))
        elif op[0] == 'addsl':
            names.forest.extend(copy.deepcopy(op[1]))
            machine.add_states([_state_cfg(nd, hsm) for nd in op[1]])
        elif op[0] == 'addt':
            machine.add_transition(**tcfg(op[1]))
        elif op[0] == 'mregen':
            obs.append(observe(getter(force_new=True)))
            continue
        else:
            machine.remove_transition(op[1], '*' if op[2] is None else sref(op[2]),
                                      '*' if op[3] is None else sref(op[3]))
        obs.append(observe())
    return [1, obs]


# ------------------------------------------------------------------ comparison
def _canon_view(lines):
    rest = [l for l in lines if l[0] != 7]
    edges = sorted([7, l[1], l[2], sorted(l[3])] for l in lines if l[0] == 7)
    return rest + edges


def canon(case, obs):
    if not isinstance(obs, list) or not obs or obs[0] != 1:
        return obs
    return [1, [[cur, _canon_view(full), _canon_view(roi)] for cur, full, roi in obs[1]]]


def _has_nesting(case):
    return any(nd['kids'] for nd in case['states'])


def nontrivial(case, obs):
    if not isinstance(obs, list) or not obs or obs[0] != 1:
        return False
    curs = {repr(m[0]) for m in obs[1]}
    if len(curs) >= 2:
        return True
    return _has_nesting(case) and any(m[1] != m[2] for m in obs[1])


def in_envelope(case):
    # events only on machines without parallel states; unique sibling texts by construction
    def has_par(forest):
        return any(nd['par'] or has_par(nd['kids']) for nd in forest)
    forests = [case['states']] + [_added(o) for o in case['ops']]
    if any(o[0] == 'ev' for o in case['ops']) and any(has_par(f) for f in forests):
        return False
    acts = case.get('acts', {})
    if acts or case.get('regen'):
        # callbacks that call back into the machine: machines whose states are all simple
        nodes = [nd for f in forests for nd in _all_nodes(f)]
        if any(nd['kids'] for nd in nodes):
            return False
    return True


def _top(case, k):
    """top-level ids after the first k ops"""
    ids = [nd['id'] for nd in case['states']]
    for o in case['ops'][:k]:
        ids += [nd['id'] for nd in _added(o)]
    return ids


def oracle(case, obs):
    """The styling / declaration clauses of the property, evaluated on the implementation's observation alone."""
    return _oracle(case, obs)[0]


def classify_known(case, model_obs, impl_obs):
    """Known findings KF-C16-2 / KF-C16-3.  Only for a failure of the oracle clause 'styled active but not current'
    (model_obs is None: main.py passes the model's observation only for model/implementation disagreements, which
    are never classified), directly after an event, on a machine where some on_exit callback fires a follow-up event
    (KF-C16-3) or regenerates the graph (KF-C16-2)."""
    if model_obs is not None:
        return None
    msg, kind, k, state = _oracle(case, canon(case, impl_obs))
    if kind != 'stale-active' or k == 0 or case['ops'][k - 1][0] != 'ev':
        return None
    forests = [case['states']] + [_added(o) for o in case['ops'][:k - 1]]
    nodes = [nd for f in forests for nd in _all_nodes(f)]
    acts, regen = case.get('acts', {}), case.get('regen', [])
    exit_act = any(c in acts for nd in nodes for c in nd['exit'])
    exit_regen = any(c in regen for nd in nodes for c in nd['exit'])
    prev_cur = canon(case, impl_obs)[1][k - 1][0]
    if exit_regen and state in prev_cur and any(c in regen for nd in nodes if [nd['id']] == state for c in nd['exit']):
        return 'KF-C16-2'       # the source of the outer transition stays active: regenerated while leaving it
    if exit_act:
        return 'KF-C16-3'
    if exit_regen:
        return 'KF-C16-2'
    return None


def _oracle(case, obs):
    if not isinstance(obs, list) or not obs or obs[0] != 1:
        return 'no observation', 'none', 0, None
    r = _oracle_msg(case, obs)
    if r is None:
        return None, None, 0, None
    return r if isinstance(r, tuple) else (r, 'other', 0, None)


def _oracle_msg(case, obs):
    for k, (cur, full, roi) in enumerate(obs[1]):
        decls = [l[1] for l in full if l[0] == 0]
        if len(decls) != len({tuple(d) for d in decls}):
            return 'a state is declared twice (moment %d)' % k
        depth = 0
        for l in full:
            depth += 1 if l[0] == 3 else (-1 if l[0] == 4 else 0)
            if depth < 0:
                return 'unbalanced block (moment %d)' % k
        if depth != 0:
            return 'unbalanced block (moment %d)' % k
        act = [l[1] for l in full if l[0] == 2 and l[2] == 1]
        for a in act:
            if a not in cur:
                return ('state %r styled active but not current (moment %d)' % (a, k), 'stale-active', k, a)
        for c in cur:
            if len(c) == 1 and c not in act:
                return 'current top-level state %r not styled active (moment %d)' % (c, k)
        if len([l for l in full if l[0] == 2 and l[2] == 2]) > 1:
            return 'two states styled previous (moment %d)' % k
        rdecl = [l[1] for l in roi if l[0] == 0]
        for c in cur:
            if c not in rdecl:
                return 'region of interest lacks the active state %r (moment %d)' % (c, k)
    return None


def stats(case, obs, dist):
    def inc(k, n=1):
        dist[k] = dist.get(k, 0) + n
    inc('kind_' + case['kind'])
    if case['enum']:
        inc('enum_states')
    if case.get('acts'):
        inc('with_follow_up_callbacks')
    if case.get('regen'):
        inc('with_regenerating_callbacks')
    inc('class_' + case.get('cls', 'sync'))
    inc('graphs_via_' + case.get('via', 'model'))
    if case.get('sep', '_') != '_':
        inc('custom_separator')
    if case.get('mattr', 'state') != 'state':
        inc('custom_model_attribute')
    if case.get('decoy') is not None:
        inc('second_machine_on_state')
    if not case.get('autos', True):
        inc('auto_transitions_off')
    if case.get('cls') == 'async' and case.get('acts'):
        inc('async_with_follow_up_callbacks')
    for k in ('conds', 'auto', 'attrs'):
        if case['opts'][k]:
            inc('opt_' + k)
    for o in case['ops']:
        inc('op_' + o[0])
        if o[0] == 'addsl' and o[1][0]['kids']:
            inc('add_states_list_compound_first')
    inc('states_total', len(_paths(case['states'])))
    inc('transitions_total', len(case['trans']))
    inc('scoped_transitions', len(case.get('scoped', [])))
    inc('scoped_internal', sum(1 for _, t in case.get('scoped', []) if t['dst'] is None))
    inc('scoped_depth2', sum(1 for sc, _ in case.get('scoped', []) if len(sc) >= 2))
    if any(nd['par'] for nd in _all_nodes(case['states'])):
        inc('with_parallel')
    if _has_nesting(case):
        inc('with_nesting')
    if isinstance(obs, list) and obs and obs[0] == 1:
        inc('moments', len(obs[1]))
        inc('state_changes', sum(1 for a, b in zip(obs[1], obs[1][1:]) if a[0] != b[0]))
        inc('roi_differs', sum(1 for m in obs[1] if m[1] != m[2]))
        inc('previous_styled', sum(1 for m in obs[1] if any(l[0] == 2 and l[2] == 2 for l in m[1])))
        inc('parallel_configurations', sum(1 for m in obs[1] if len(m[0]) > 1))


def _all_nodes(forest):
    out = []
    for nd in forest:
        out.append(nd)
        out += _all_nodes(nd['kids'])
    return out


def shrink_candidates(case):
    for i in range(len(case['ops']) - 1, -1, -1):
        c = copy.deepcopy(case)
        del c['ops'][i]
        yield c
    for i in range(len(case['trans'])):
        if len(case['trans']) > 1:
            c = copy.deepcopy(case)
            del c['trans'][i]
            yield c
    for key in ('conds', 'auto', 'attrs'):
        if case['opts'][key]:
            c = copy.deepcopy(case)
            c['opts'][key] = False
            yield c
    if case.get('decoy') is not None:
        c = copy.deepcopy(case)
        c['decoy'] = None
        yield c
    for cb in sorted(case.get('acts', {})):
        c = copy.deepcopy(case)
        del c['acts'][cb]
        yield c
    for cb in case.get('regen', []):
        c = copy.deepcopy(case)
        c['regen'].remove(cb)
        yield c
    if case.get('cls') in ('async', 'locked'):
        c = copy.deepcopy(case)
        c['cls'] = 'sync'
        yield c
    for i, t in enumerate(case['trans']):
        for key in ('conds', 'unless'):
            if t[key]:
                c = copy.deepcopy(case)
                c['trans'][i][key] = []
                yield c
        if t['label'] is not None:
            c = copy.deepcopy(case)
            c['trans'][i]['label'] = None
            yield c
    for i in range(len(case.get('scoped', []))):
        c = copy.deepcopy(case)
        del c['scoped'][i]
        yield c
    used = {tuple(case['initial'])}
    for sc, t in case.get('scoped', []):
        used.add(tuple(sc + t['src']))
        if t['dst'] is not None:
            used.add(tuple(sc + t['dst']))
    for t in case['trans'] + [o[1] for o in case['ops'] if o[0] == 'addt']:
        used.add(tuple(t['src']))
        if t['dst'] is not None:
            used.add(tuple(t['dst']))
    for o in case['ops']:
        if o[0] == 'remt':
            for x in o[2:]:
                if x is not None:
                    used.add(tuple(x))
    used_ids = {i for p in used for i in p}

    def drop(forest, target):
        out = []
        for nd in forest:
            if nd['id'] == target:
                continue
            nd = dict(nd, kids=drop(nd['kids'], target))
            if not nd['kids']:
                nd['par'] = False
                nd['ini'] = None
            elif nd['ini'] is not None and nd['ini'] not in [k['id'] for k in nd['kids']]:
                nd['ini'] = None
            out.append(nd)
        return out
    for nd in _all_nodes(case['states']):
        if nd['id'] not in used_ids and not any(k['id'] in used_ids for k in _all_nodes(nd['kids'])):
            c = copy.deepcopy(case)
            c['states'] = drop(c['states'], nd['id'])
            if len(c['states']) >= 1:
                yield c
    for nd in _all_nodes(case['states']):
        for key, dflt in (('label', None), ('final', False), ('enter', []), ('exit', [])):
            if nd[key]:
                c = copy.deepcopy(case)
                for x in _all_nodes(c['states']):
                    if x['id'] == nd['id']:
                        x[key] = dflt
                yield c
