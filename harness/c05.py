"""C05 — queued processing: run-to-completion, FIFO, exactly-once, discard on raise, remove_model exactness.
Real Machine / HierarchicalMachine (flat configurations) with queued=True and 1-3 models, callbacks that
trigger further events on any model, remove models, or raise; compared with Queue.drain instantiated with
the flat engine."""
import copy
import random
import flat
from framework import opt

PID = 'C05'
KIND = 1
IMPL = ('c05', 'impl_queue')
COUNTS = dict(quick=1200, thorough=40000)
CLASSES = ['Machine', 'HierarchicalMachine', 'LockedMachine']
RULE = ('cases = flat machines (C01 generator, finalize_event non-empty so that every processed event is visible) '
        'with queued=True and 1-3 models in arbitrary states; env replies at random positions carry actions: '
        'trigger(event) on any model (nested payload identifies the arrival), remove_model(any model), raise '
        '(Exception/BaseException); histories of 1-4 top-level triggers. Observed per top-level call: the complete '
        'item sequence (each item carries its event\'s payload, hence event blocks), the return value of every nested '
        'trigger, the result/exception, every model\'s state and the registered models afterwards. Non-trivial: a '
        'call processed >= 2 events, or discarded pending events (raise/remove); distinct by case hash.')
ASSUMPTIONS = ['callbacks call remove_model only for registered models (guarded in the harness) and trigger only known events',
               'every third case runs without a queue on the re-entrant engine (Reent.v): nested triggers are processed inside the calling callback']
THEOREMS = ['C05_deferred', 'C05_fifo_once', 'C05_top', 'C05_raise_discards', 'C05_remove_exact', 'C05_head_stays',
            'C05_nothing_lost', 'C05_example', 'C05_unqueued_nested', 'C05_reentrant_refines_flat', 'C05_hsm_top',
            'C05_hsm_unqueued_nested', 'C05_hsm_reentrant_refines']


def gen(rng, i, tier):
    c = flat.gen_case(rng, malformed=False, hist_len=1, p_unknown=0.0)
    m = c['machine']
    if not m['finalize']:
        m['finalize'] = [900]
    nm = rng.randint(1, 3)
    ns = len(m['states'])
    ne = len(m['events'])
    c['models'] = [(k, rng.randrange(ns)) for k in range(nm)]
    c['history'] = [(rng.randrange(nm), rng.randrange(ne), 100 + j) for j in range(rng.randint(1, 4))]
    bypos = {}
    for p in range(0, 50):
        x = rng.random()
        if x < 0.10:
            acts = []
            for _ in range(rng.randint(1, 2)):
                if rng.random() < 0.75:
                    acts.append((0, rng.randrange(nm), rng.randrange(ne)))
                else:
                    acts.append((1, rng.randrange(nm)))
            bypos[p] = (rng.random() < 0.7, None, acts)
        elif x < 0.13:
            bypos[p] = (True, flat.pick_exn(p + i), [])
        elif x < 0.35:
            bypos[p] = (rng.random() < 0.7, None, [])
    if i % 6 == 4 and nm >= 2:
        # bias: one callback queues events for several models and then removes those models with ONE
        # remove_model([...]) call while their events are pending
        c['batch_removals'] = 1
        ms = list(range(nm))
        rng.shuffle(ms)
        gone = ms[:rng.randint(2, nm)] if nm > 2 else ms
        acts = [(0, k, rng.randrange(ne)) for k in gone for _ in range(rng.randint(1, 2))]
        rng.shuffle(acts)
        bypos[rng.randint(0, 3)] = (True, None, acts[:4] + [(1, k) for k in gone])
    c['env']['bypos'] = bypos
    c['cls'] = CLASSES[(i // 3) % len(CLASSES)]
    c['queued'] = (i % 3 != 2)          # every third case: no queue (immediate, re-entrant processing)
    if not c['queued'] and 'Hierarchical' in c['cls']:
        # re-entrant state changes of the same model before the outer transition's state change: the hierarchical
        # classes exit the state that is active NOW, Machine the declared source (KF-C09-1) - flat classes only here
        c['cls'] = 'Machine'
    del c['init']
    return c


def enc(case):
    return [flat.enc_machine(case['machine']), flat.enc_env(case['env']),
            [[m, s] for m, s in case['models']], [[m, e, a] for m, e, a in case['history']], bool(case.get('queued', True))]


def canon(case, obs):
    """both sides -> per call [items, result, states, registered models, processed arrival ids, nested ok]"""
    if isinstance(obs, dict):
        return obs
    if obs[0] not in (1, 2):
        return obs
    queued = case.get('queued', True)
    if obs[1] and isinstance(obs[1][0], dict):      # implementation side: already canonical
        if not queued:
            return [2, [[o['items'], o['result'], o['states'], o['models']] for o in obs[1]]]
        return [1, [[o['items'], o['result'], o['states'], o['models'], o['processed'], o['nested_true']] for o in obs[1]]]
    if obs[0] == 2:
        return [2, [[st[0], st[1], st[2], st[3]] for st in obs[1]]]
    out = []
    for step in obs[1]:
        if step == [9]:
            out.append('out-of-fuel')
            continue
        blocks, res, states, models, qlen, dropped = step
        items = [it for b in blocks for it in b[4]]
        processed = [b[0] for b in blocks if b[4]]
        out.append([items, res, states, models, processed, 1])
    return [1, out]


def impl_queue(case):
    tr = flat._import_transitions()
    world = flat.World(case['env'], case['machine']['send'])
    world.state_of = flat.state_int
    models = [flat.new_model(k) for k, _ in enumerate(case['models'])]
    for (k, _), mod in zip(case['models'], models):
        world.model_ids[id(mod)] = k
    cname = case.get('cls', 'Machine')
    c2 = dict(case)
    c2['init'] = case['models'][0][1]
    machine, _ = flat.build_machine(c2, world, cls=flat.get_class(cname), models=models,
                                    extra_kwargs=dict(queued=bool(case.get('queued', True)), **flat.class_kwargs(cname)))
    for (k, s0), mod in zip(case['models'], models):
        machine.set_state('s%d' % s0, mod)
    st = dict(next_id=0, payload_id={}, act_k={}, nested=[])

    def call_trigger(mod, e, payload):
        tok = flat.Token(payload)
        st['payload_id'][payload] = st['next_id']
        st['next_id'] += 1
        return mod.trigger('e%d' % e, tok, k=tok)

    def perform(a):
        cur_payload = world.items[-1][4][1]
        cur = st['payload_id'].get(cur_payload, 0)
        k = st['act_k'].get(cur, 0)
        st['act_k'][cur] = k + 1
        if a[0] == 0:
            if case.get('queued', True):
                r = call_trigger(models[a[1]], a[2], 1000 + 16 * cur + k)
                st['nested'].append(r is True)
            else:
                call_trigger(models[a[1]], a[2], 2000 + 8 * world.cur_pos + world.cur_k)
        else:
            if models[a[1]] in machine.models:
                machine.remove_model(models[a[1]])
    world.perform = perform

    def perform_all(acts, mypos):
        """like performing the actions one by one, except that a run of consecutive remove_model actions becomes
        ONE call remove_model([m1, m2, ...]) (same effect by C05_remove_exact: exactly their pending events go)"""
        i = 0
        while i < len(acts):
            a = acts[i]
            if a[0] == 1 and case.get('batch_removals'):
                j = i
                group = []
                while j < len(acts) and acts[j][0] == 1:
                    cur = st['payload_id'].get(world.items[-1][4][1], 0)
                    st['act_k'][cur] = st['act_k'].get(cur, 0) + 1
                    mod = models[acts[j][1]]
                    if mod in machine.models and not any(mod is g for g in group):
                        group.append(mod)
                    j += 1
                if group:
                    machine.remove_model(group)         # list form, also for a single model
                i = j
            else:
                world.cur_pos, world.cur_k = mypos, i
                perform(a)
                i += 1
    world.perform_all = perform_all
    out = []
    for (m, e, a) in case['history']:
        world.items = []
        st['nested'] = []
        try:
            r = call_trigger(models[m], e, a)
            res = [0, 1 if r is True else (0 if r is False else 7)]
            if not case.get('queued', True):
                res = [0, bool(r)]
        except BaseException as ex:  # noqa
            res = [1, flat.classify_exc(ex)]
        processed = []
        for it in world.items:
            pid = st['payload_id'].get(it[4][1], 999)
            if not processed or processed[-1] != pid:
                processed.append(pid)
        out.append(dict(items=world.items, result=res,
                        states=[[k, flat.state_int(mod)] for (k, _), mod in zip(case['models'], models)],
                        models=[world.model_ids[id(x)] for x in machine.models],
                        processed=processed, nested_true=1 if all(st['nested']) else 0))
    return [1 if case.get('queued', True) else 2, out]


def nontrivial(case, obs):
    if not isinstance(obs, list) or obs[0] not in (1, 2):
        return False
    for step in obs[1]:
        if isinstance(step, list) and len(step) >= 5 and (len(step[4]) >= 2 or step[1][0] == 1):
            return True
        if isinstance(step, list) and len(step) == 4:
            payloads = {tuple(it[4]) for it in step[0]}
            if len(payloads) >= 2:                   # a nested event ran inside the call
                return True
    return False


def stats(case, obs, dist):
    if isinstance(obs, list) and obs[0] == 2:
        for step in obs[1]:
            n = len({tuple(it[4]) for it in step[0]})
            key = 'unqueued_events_in_call_%s' % (n if n < 4 else '4+')
            dist[key] = dist.get(key, 0) + 1
            if step[1][0] == 1:
                dist['unqueued_calls_raising'] = dist.get('unqueued_calls_raising', 0) + 1
        return
    if not isinstance(obs, list) or obs[0] != 1:
        return
    for step in obs[1]:
        if not isinstance(step, list):
            dist['out_of_fuel'] = dist.get('out_of_fuel', 0) + 1
            continue
        n = len(step[4])
        key = 'events_per_call_%s' % (n if n < 4 else '4+')
        dist[key] = dist.get(key, 0) + 1
        if step[1][0] == 1:
            dist['calls_raising'] = dist.get('calls_raising', 0) + 1
        if len(step[3]) < len(case['models']):
            dist['calls_after_a_removal'] = dist.get('calls_after_a_removal', 0) + 1
    dist['cls_' + case['cls']] = dist.get('cls_' + case['cls'], 0) + 1


def shrink_candidates(case):
    h = case['history']
    for i in range(len(h)):
        if len(h) > 1:
            c = copy.deepcopy(case)
            del c['history'][i]
            yield c
    for p in list(case['env']['bypos']):
        c = copy.deepcopy(case)
        del c['env']['bypos'][p]
        yield c
    m = case['machine']
    for ei, (e, ts) in enumerate(m['events']):
        for ti in range(len(ts)):
            if len(ts) > 1:
                c = copy.deepcopy(case)
                del c['machine']['events'][ei][1][ti]
                yield c


# ------------------------------------------------------------------ the asyncio classes' queues
def impl_async_queue(case):
    """one C05 program on AsyncMachine / HierarchicalAsyncMachine with queued=True or queued='model' (harness of C09)"""
    import c09
    flat._import_transitions()
    import transitions.extensions as ext
    cls = getattr(ext, case['acls'])
    flags = (1 if 'Graph' in case['acls'] else 0, 1 if 'Hierarchical' in case['acls'] else 0, 0, 1)
    try:
        obs, free = c09.run_queue_on(case, cls, flags, 'mermaid' if flags[0] else None)
        return [1, c09.name_exns(obs)]
    except BaseException as ex:  # noqa
        return dict(harness_error='%s: %s' % (type(ex).__name__, ex))


def extra_checks(tier, seed):
    """the per-model / shared queues of the asyncio classes: the same programs (callbacks that trigger, remove models,
    raise) awaited one at a time on AsyncMachine and HierarchicalAsyncMachine with queued=True and - for one-model
    cases - queued='model', compared with Queue.drain; restricted to cases in which the licensed async difference
    (all checks of a transition evaluated, gathered stage lists) cannot show (C09's envelope)."""
    import c09
    import framework as F
    n = 1200 if tier == 'quick' else 12000
    cases = handcrafted_async_removals()
    for i in range(n):
        rng = random.Random('C05a-%d-%d' % (seed, i))
        c = c09.gen_queue(rng)
        c['acls'] = ['AsyncMachine', 'HierarchicalAsyncMachine', 'AsyncGraphMachine', 'HierarchicalAsyncGraphMachine'][i % 4]
        if i % 2 == 0 or c.get('queued') == 2:
            c['batch_removals'] = 1     # removals of one callback become one remove_model([...]) call (list form)
        if len(c['models']) == 1 and i % 3 != 0:
            c['self_model'] = 1         # the machine is its own model (model='self')
        cases.append(c)
    mo = F.run_model(1, [c09.enc_queue(c) + [True] for c in cases])
    io = F.run_impl('c05', 'impl_async_queue', cases)
    compared = raised = model_mode = 0
    bad = None
    for c, m, i in zip(cases, mo, io):
        if not isinstance(m, list) or m[0] != 1:
            continue
        base = c09.name_exns(c09.canon_queue_steps(m[1]))
        if 'out-of-fuel' in base or not c09.async_envelope(c, c09._base_items(c, base)):
            continue
        compared += 1
        model_mode += 1 if c['queued'] == 2 else 0
        raised += 1 if any(isinstance(st, list) and st[1][0] == 1 for st in base) else 0
        if isinstance(i, dict) or i[1] != base:
            bad = bad or (c, base, i)
    detail = dict(cases=len(cases), compared_inside_the_async_envelope=compared, with_queued_model=model_mode,
                  with_a_raising_call=raised, disagreements=0 if bad is None else 1)
    # "without a queue, an event triggered from a callback is processed immediately and completely before the
    # triggering callback returns" on the asyncio classes (callbacks await the nested trigger; Reent.v is the model)
    import c18
    _n, _ok, _detail, _rep = c18.async_flat_reentrant_stream(tier, seed + 900)
    unq = ('unqueued_nested_asyncio', _ok, _detail, _rep)
    if bad:
        c, m, i = bad
        return [unq, ('async_queues', False, detail,
                 dict(kind='counterexample', stream='asyncio classes, queued=True / queued=\'model\'', case=c, model_obs=m,
                      impl_obs=i, theorem='corr_C05 (Queue.drain = the asyncio classes\' queued processing)')),
                hsm_queue_stream(tier, seed), hsm_reent_stream(tier, seed)]
    return [unq, ('async_queues', True, detail, {}), hsm_queue_stream(tier, seed), hsm_reent_stream(tier, seed)]


def handcrafted_async_removals():
    """run first in the asyncio queue stream: a callback of the event in progress defers two further events of its own
    model and then removes that model (list form) - on the four asyncio classes, one or two models, queued=True and
    queued='model' (only the removed model has events, so the shared-queue model predicts the per-model queues too)"""
    def sd(enter=()):
        return dict(enter=list(enter), exit=[], final=False, ignore=None)

    def tr(src, dst, after=()):
        return dict(src=src, dst=dst, prepare=[], conds=[], before=[], after=list(after))
    out = []
    for acls in ['AsyncMachine', 'HierarchicalAsyncMachine', 'AsyncGraphMachine', 'HierarchicalAsyncGraphMachine']:
        for nm in (1, 2):
            for q in (1, 2):
                m = dict(states=[[0, sd()], [1, sd()], [2, sd([60])], [3, sd([61])]],
                         events=[[0, [tr(0, 1, [50])]], [1, [tr(st, 2) for st in range(4)]], [2, [tr(st, 3) for st in range(4)]]],
                         prepare_event=[], before_sc=[], after_sc=[], finalize=[900], on_exception=[], on_final=[],
                         ignore=False, send=False)
                env = dict(default=True, bypos={}, bycb={50: (True, None, [[0, 0, 1], [0, 0, 2], [1, 0]])})
                out.append(dict(machine=m, env=env, model=0, history=[(0, 0, 100)] + ([(1, 2, 101)] if nm > 1 else []),
                                models=[(k, 0) for k in range(nm)], queued=q, sub='queue', acls=acls, batch_removals=1))
    return out


# ------------------------------------------------------------------ queued HIERARCHICAL machines
def gen_hsm_queue(rng, i):
    import hsm
    c = hsm.gen_case(rng, p_parallel=0.3, max_events=2, hist_len=1)
    m = c['machine']
    if not m['finalize']:
        m['finalize'] = [900]
    tops = [d['name'] for d in m['states']]
    nm = rng.randint(1, 2)
    c['models'] = [(k, [rng.choice(tops)]) for k in range(nm)]
    evs = sorted({e for e, _ in m['events']} | {e for _, d in hsm.all_defs(m) for e, _ in d['events']}) or [0]
    c['history'] = [(rng.randrange(nm), rng.choice(evs), 100 + j) for j in range(rng.randint(1, 4))]
    bypos = {}
    for p in range(0, 60):
        x = rng.random()
        if x < 0.10:
            acts = []
            for _ in range(rng.randint(1, 2)):
                if rng.random() < 0.8:
                    acts.append((0, rng.randrange(nm), rng.choice(evs)))
                else:
                    acts.append((1, rng.randrange(nm)))
            bypos[p] = (rng.random() < 0.7, None, acts)
        elif x < 0.12:
            bypos[p] = (True, flat.pick_exn(p + i), [])
        elif x < 0.35:
            bypos[p] = (rng.random() < 0.7, None, [])
    c['env'] = dict(default=c['env']['default'], bypos=bypos,
                    bycb={k: (r[0], None, []) for k, r in c['env']['bycb'].items()})
    c['cls'] = ['HierarchicalMachine', 'LockedHierarchicalMachine', 'HierarchicalGraphMachine'][i % 3]
    c['init'] = c['models'][0][1]
    c['queued'] = 1
    return c


def enc_hsm_queue(case):
    import hsm
    return [hsm.enc_hmachine(case['machine']), flat.enc_env(case['env']),
            [[k, p] for k, p in case['models']], [[m, e, a] for m, e, a in case['history']]]


def canon_hsm_queue(obs):
    """model side (Queue.drain blocks over the hierarchical engine) -> per call [items, result, configurations,
    registered models, processed arrival ids]"""
    if not isinstance(obs, list) or obs[0] != 1:
        return obs
    out = []
    for step in obs[2]:
        if step == [9]:
            out.append('out-of-fuel')
            continue
        blocks, res, cfgs, models, qlen = step
        out.append([[it for b in blocks for it in b[4]], res, cfgs, models, [b[0] for b in blocks if b[4]]])
    return [1, obs[1], out]


def impl_hsm_queue(case):
    import hsm
    flat._import_transitions()
    world = flat.World(case['env'], case['machine']['send'])
    cname = case['cls']
    models = [flat.new_model(k) for k, _ in enumerate(case['models'])]
    base_recorder = world.recorder

    def named(slot, cb, model_of_call=None):
        # callbacks by NAME: every model object gets one recording attribute per (slot, callback) that knows its model
        name = 'cb_%s_%d' % (slot, cb)
        for mod in models:
            if not hasattr(mod, name):
                setattr(mod, name, base_recorder(slot, cb, mod))
        return name
    world.recorder = named
    world.state_of = hsm.state_forest
    machine, _ = hsm.build_hsm(case, world, flat.get_class(cname), extra_kwargs=flat.class_kwargs(cname), model=[])
    for (k, ini), mod in zip(case['models'], models):
        world.model_ids[id(mod)] = k
        machine.add_model(mod, initial=hsm.sname(ini))
    init = [[k, world.state_of(mod)] for (k, _), mod in zip(case['models'], models)]
    st = dict(next_id=0, payload_id={}, act_k={})

    def call_trigger(mod, e, payload):
        tok = flat.Token(payload)
        st['payload_id'][payload] = st['next_id']
        st['next_id'] += 1
        return mod.trigger('e%d' % e, tok, k=tok)

    def perform(a):
        cur = st['payload_id'].get(world.items[-1][4][1], 0)
        k = st['act_k'].get(cur, 0)
        st['act_k'][cur] = k + 1
        if a[0] == 0:
            call_trigger(models[a[1]], a[2], 1000 + 16 * cur + k)
        elif models[a[1]] in machine.models:
            machine.remove_model(models[a[1]])
    world.perform = perform
    out = []
    for (m, e, a) in case['history']:
        world.items = []
        try:
            r = call_trigger(models[m], e, a)
            res = [0, 1 if r is True else (0 if r is False else 7)]
        except BaseException as ex:  # noqa
            res = [1, flat.classify_exc(ex)]
        processed = []
        for it in world.items:
            pid = st['payload_id'].get(it[4][1], 999)
            if not processed or processed[-1] != pid:
                processed.append(pid)
        out.append([world.items, res, [[k, world.state_of(mod)] for (k, _), mod in zip(case['models'], models)],
                    [world.model_ids[id(x)] for x in machine.models], processed])
    return [1, init, out]


def hsm_queue_stream(tier, seed):
    """queued hierarchical machines (nested / parallel states, 1-2 models) whose callbacks trigger further events,
    remove models or raise, against Queue.drain instantiated with the hierarchical engine (HsmQueueIO.v); the
    theorems of Props/C05.v are about Queue.drain for EVERY step function, hence for this instance too"""
    import framework as F
    n = 300 if tier == 'quick' else 8000
    cases = [gen_hsm_queue(random.Random('C05h-%d-%d' % (seed, i)), i) for i in range(n)]
    mo = [canon_hsm_queue(o) for o in F.run_model(15, [enc_hsm_queue(c) for c in cases])]
    io = F.run_impl('c05', 'impl_hsm_queue', cases)
    bad = [(c, m, i) for c, m, i in zip(cases, mo, io) if m != i]
    multi = sum(1 for m in mo if isinstance(m, list) and m[0] == 1 for st in m[2] if isinstance(st, list) and len(st[4]) >= 2)
    raised = sum(1 for m in mo if isinstance(m, list) and m[0] == 1 for st in m[2] if isinstance(st, list) and st[1][0] == 1)
    detail = dict(cases=len(cases), disagreements=len(bad), calls_processing_two_or_more_events=multi, calls_raising=raised)
    if bad:
        c, m, i = bad[0]
        return ('hierarchical_queued_programs', False, detail,
                dict(kind='counterexample', stream='queued hierarchical machines', case=c, model_obs=m, impl_obs=i,
                     theorem='corr_C05 (Queue.drain over Hsm.trigger_event = the queued hierarchical classes)'))
    return ('hierarchical_queued_programs', True, detail, {})


def hsm_reent_stream(tier, seed):
    """the unqueued clause on hierarchical machines: a trigger issued from a callback is processed immediately and
    completely inside that callback (HReent.v, the hierarchical engine over a callback runner that performs actions)"""
    import hsm
    n = 300 if tier == 'quick' else 8000
    cases, bad, nested = hsm.reent_stream('C05r', seed, n, p_parallel=0.3)
    detail = dict(cases=len(cases), disagreements=len(bad), nested_triggers_processed=nested)
    if bad:
        c, m, i = bad[0]
        return ('hierarchical_unqueued_nested', False, detail,
                dict(kind='counterexample', stream='unqueued hierarchical machine, callbacks that trigger events', case=c,
                     model_obs=m, impl_obs=i, theorem='corr_C05 (HReent.hrtrigger = the unqueued hierarchical classes)'))
    return ('hierarchical_unqueued_nested', True, detail, {})
