"""C18 — on_final: hierarchical machines with final flags and on_final callbacks everywhere; the real
HierarchicalMachine is compared with the Coq engine (whose _final_check is characterised by Props/C18.v) and an
implementation-only oracle written from the property's own wording is evaluated on every executed transition."""
import copy
import random
import flat
import hsm

PID = 'C18'
KIND = 3
IMPL = ('hsm', 'impl_hsm')
COUNTS = dict(quick=800, thorough=30000)
CLASSES = ['HierarchicalMachine', 'LockedHierarchicalMachine', 'HierarchicalGraphMachine']
RULE = ('cases = random state trees (depth <= 3, <= 3 children, exclusive and parallel compounds, final flags on '
        '35% of the leaves; in every 5th case also on compounds = the KF-C18-1 class), every state has enter and '
        'on_final callbacks (so entered states and fired on_final are visible), machine-level on_final, global and '
        'local transitions incl. re-entering final states and changing a single region; histories of 1-6 events. '
        'Oracle on the implementation alone: after each group of enter items, the on_final items must be exactly '
        '(children before parents, machine last) those of the active states that are final-and-just-entered or '
        'whose active children all count as final with one of them touched by the transition. Non-trivial: some '
        'transition fired >= 1 on_final list; distinct by case hash.')
ASSUMPTIONS = ['callbacks do not raise and do not trigger (C04/C05)', 'async classes: C07']
THEOREMS = ['C18_flat', 'C18_characterisation', 'C18_root', 'C18_wording', 'C18_final_compound_refuted', 'C18_example']


def gen(rng, i, tier):
    c = hsm.gen_case(rng, p_final_compound=(0.5 if i % 5 == 4 else 0.0), p_enum=0.15, p_reuse=0.25,
                      p_parallel=(0.7 if i % 4 == 1 else 0.3), max_depth=(4 if i % 6 == 3 else 3), p_build=0.2, p_sep=0.1)
    cb = [0]
    for p, d in hsm.all_defs(c['machine']):
        for key in ('enter', 'onfinal'):
            if not d[key]:
                cb[0] += 1
                d[key] = [5000 + cb[0]]
    if not c['machine']['on_final'] and i % 3 != 2:
        c['machine']['on_final'] = [4999]       # (every third case keeps a machine without machine-level on_final)
    c['env'] = dict(default=True, bypos={p: r for p, r in c['env']['bypos'].items() if r[1] is None},
                    bycb={k: r for k, r in c['env']['bycb'].items() if r[1] is None})
    c['history'] = [(0, e, a) for (k, e, a) in c['history']]
    c['cls'] = CLASSES[i % len(CLASSES)]
    return c


def enc(case):
    return hsm.enc_case(case)


def _final_compound(case):
    return any(d['final'] and d['children'] for _, d in hsm.all_defs(case['machine']))


def classify_known(case, mo, io):
    if _final_compound(case) and (mo is None or mo == io):
        return 'KF-C18-1'
    return None


def oracle(case, obs):
    if not isinstance(obs, list) or obs[0] != 1:
        return None
    defs = {tuple(p): d for p, d in hsm.all_defs(case['machine'])}
    enter_owner, onf_owner = {}, {}
    for p, d in defs.items():
        for cb in d['enter']:
            enter_owner[cb] = p
        for cb in d['onfinal']:
            onf_owner[cb] = p
    mach_onf = list(case['machine']['on_final'])

    def expected(cfg, entered):
        out = []

        def pc(node, prefix):          # property's "counts as final"
            n, ch = node
            p = prefix + (n,)
            return defs[p]['final'] or (bool(ch) and all(pc(c, p) for c in ch))

        def touched(node, prefix):
            n, ch = node
            p = prefix + (n,)
            return p in entered or any(touched(c, p) for c in ch)

        def walk(node, prefix):
            n, ch = node
            p = prefix + (n,)
            for c in ch:
                walk(c, p)
            if (defs[p]['final'] and p in entered) or (ch and all(pc(c, p) for c in ch) and any(touched(c, p) for c in ch)):
                out.extend(defs[p]['onfinal'])
        for t in cfg:
            walk(t, ())
        if cfg and all(pc(t, ()) for t in cfg) and any(touched(t, ()) for t in cfg):
            out.extend(mach_onf)
        return out
    for si, (items, res, cfg) in enumerate(obs[2]):
        i = 0
        while i < len(items):
            if items[i][0] == 7:                       # group of enter items
                entered = set()
                j = i
                while j < len(items) and items[j][0] == 7:
                    entered.add(enter_owner.get(items[j][1], ()))
                    j += 1
                k = j
                got = []
                while k < len(items) and items[k][0] == 8:
                    got.append(items[k][1])
                    k += 1
                conf = items[j - 1][3]
                exp = expected(conf, entered)
                if got != exp:
                    return 'call %d: on_final callbacks %r, expected %r after entering %r' % (si, got, exp, sorted(entered))
                i = k
            else:
                i += 1
    return None


def nontrivial(case, obs):
    if not isinstance(obs, list) or obs[0] != 1:
        return False
    return any(it[0] == 8 for step in obs[2] for it in step[0])


def stats(case, obs, dist):
    if case.get('enum'):
        dist['cases_with_enum_named_states'] = dist.get('cases_with_enum_named_states', 0) + 1
    if not isinstance(obs, list) or obs[0] != 1:
        return
    for items, res, cfg in obs[2]:
        n = sum(1 for it in items if it[0] == 8)
        dist['on_final_items'] = dist.get('on_final_items', 0) + n
        if any(it[1] in case['machine']['on_final'] and it[0] == 8 for it in items):
            dist['machine_on_final_fired'] = dist.get('machine_on_final_fired', 0) + 1
        if res == [0, True]:
            dist['executed'] = dist.get('executed', 0) + 1
    if _final_compound(case):
        dist['cases_with_final_compound'] = dist.get('cases_with_final_compound', 0) + 1
    dist['cls_' + case['cls']] = dist.get('cls_' + case['cls'], 0) + 1


def extra_checks(tier, seed):
    """asynchronous hierarchical classes, on_final callbacks that really suspend: children's on_final callbacks must
    COMPLETE before their parents' start, the machine's last (completion order = the synchronous model's order)"""
    n = 250 if tier == 'quick' else 8000
    import framework as F
    cases = []
    for i in range(n):
        rng = random.Random('C18a-%d-%d' % (seed, i))
        c = hsm.gen_case(rng, p_parallel=0.4, p_enum=0.15)
        k = [0]
        for p, d in hsm.all_defs(c['machine']):
            if not d['onfinal']:
                k[0] += 1
                d['onfinal'] = [5300 + k[0]]
            if not d['children'] and rng.random() < 0.6:
                d['final'] = True
        if not c['machine']['on_final']:
            c['machine']['on_final'] = [5299]
        hsm.trim_lists(c)
        c['history'] = [(0, e, a) for (kk, e, a) in c['history']]
        c['env'] = dict(default=True, bypos={}, bycb={kk: r for kk, r in c['env']['bycb'].items() if r[1] is None})
        c['cls'] = ['HierarchicalAsyncMachine', 'HierarchicalAsyncGraphMachine'][i % 2]
        cases.append(c)
    mo = F.run_model(3, [hsm.enc_case(c) for c in cases])
    io = F.run_impl('hsm', 'impl_hsm_async', cases)
    bad = [(c, m, i) for c, m, i in zip(cases, mo, io) if m != i]
    fired = sum(1 for o in mo for st in o[2] if sum(1 for it in st[0] if it[0] == 8) >= 2)
    detail = dict(cases=len(cases), disagreements=len(bad), calls_with_two_or_more_on_final_items=fired)
    out = []
    if bad:
        c, m, i = bad[0]
        out.append(('async_suspending_on_final', False, detail,
                    dict(kind='counterexample', stream='HierarchicalAsyncMachine with suspending on_final callbacks', case=c, model_obs=m, impl_obs=i)))
    else:
        out.append(('async_suspending_on_final', True, detail, {}))
    out.append(flat_stream(tier, seed))
    out.append(async_flat_reentrant_stream(tier, seed))
    return out


def impl_async_unqueued(case):
    """an unqueued flat asyncio machine whose callbacks await triggers of the models: the nested event is processed
    inside the awaiting callback; payload numbering of the re-entrant engine (2000 + 8 * position + k)"""
    import asyncio
    import flat
    flat._import_transitions()
    import transitions.extensions as ext
    world = flat.World(case['env'], case['machine']['send'])
    world.state_of = flat.state_int
    models = [flat.new_model(k) for k, _ in enumerate(case['models'])]
    for (k, _), mod in zip(case['models'], models):
        world.model_ids[id(mod)] = k
    base = world.recorder
    world.perform_all = lambda acts, mypos: setattr(world, '_pending', (list(acts), mypos))

    def arecorder(slot, cb, model_of_call=None):
        inner = base(slot, cb, model_of_call)

        def rec(*a, **k):
            world._pending = None
            exc = None
            r = None
            try:
                r = inner(*a, **k)
            except BaseException as ex:  # noqa — raised after the actions, as in the model
                exc = ex
            pend = world._pending
            if not pend:
                if exc is not None:
                    raise exc
                return r

            async def later():
                acts, mypos = pend
                for kk, act in enumerate(acts):
                    if act[0] == 0:
                        tok = flat.Token(2000 + 8 * mypos + kk)
                        await models[act[1]].trigger('e%d' % act[2], tok, k=tok)
                if exc is not None:
                    raise exc
                return r
            return later()
        rec.__name__ = inner.__name__
        return rec
    world.recorder = arecorder
    loop = asyncio.new_event_loop()
    asyncio.set_event_loop(loop)
    try:
        c2 = dict(case)
        c2['init'] = case['models'][0][1]
        machine, _ = flat.build_machine(c2, world, cls=getattr(ext, case['acls']), models=models,
                                        extra_kwargs=dict(queued=False, **flat.class_kwargs(case['acls'])))
        for (k, s0), mod in zip(case['models'], models):
            machine.set_state('s%d' % s0, mod)
        out = []
        for (m, e, a) in case['history']:
            world.items = []
            tok = flat.Token(a)
            try:
                r = loop.run_until_complete(models[m].trigger('e%d' % e, tok, k=tok))
                res = [0, bool(r)]
            except BaseException as ex:  # noqa
                res = [1, flat.classify_exc(ex)]
            out.append([world.items, res, [[k, flat.state_int(mod)] for (k, _), mod in zip(case['models'], models)],
                        [world.model_ids[id(x)] for x in machine.models]])
        return [2, out]
    except BaseException as ex:  # noqa
        return dict(harness_error='%s: %s' % (type(ex).__name__, ex))
    finally:
        loop.close()


def async_flat_reentrant_stream(tier, seed):
    """flat asyncio machines WITHOUT a queue whose callbacks await further triggers (processed inside the callback):
    most states final, machine-level on_final callbacks; callback lists trimmed to one entry; against the re-entrant
    flat engine Reent.v - on_final must fire for the state ENTERED by each transition, once, whatever a nested
    event did to the model in between"""
    import c05
    import flat
    import framework as F
    n = 300 if tier == 'quick' else 8000
    cases = []
    for i in range(n):
        rng = random.Random('C18r-%d-%d' % (seed, i))
        c = c05.gen(rng, 3 * i + 2, tier)
        flat.trim_flat(c)
        for s, d in c['machine']['states']:
            d['final'] = rng.random() < 0.6
        if not c['machine']['on_final']:
            c['machine']['on_final'] = [5297]
        c['env']['bypos'] = {p: (r[0], None, [a for a in r[2] if a[0] == 0]) for p, r in c['env']['bypos'].items()}
        c['acls'] = ['AsyncMachine', 'AsyncGraphMachine'][i % 2]
        c['cls'] = 'Machine'
        cases.append(c)
    mo = F.run_model(c05.KIND, [c05.enc(c) for c in cases])
    io = F.run_impl('c18', 'impl_async_unqueued', cases)
    bad = []
    fired = 0
    for c, m, i in zip(cases, mo, io):
        mm = c05.canon(c, m)
        if isinstance(mm, list) and any(st[1] == [1, [4, 99]] for st in mm[1] if isinstance(st, list)):
            continue          # out of fuel in the model
        if isinstance(mm, list):
            fired += sum(1 for st in mm[1] for it in st[0] if it[0] == 8)
        if mm != i:
            bad.append((c, mm, i))
    detail = dict(cases=len(cases), disagreements=len(bad), on_final_items=fired)
    if bad:
        c, m, i = bad[0]
        return ('async_flat_reentrant_on_final', False, detail,
                dict(kind='counterexample', stream='unqueued flat asyncio machine, callbacks awaiting triggers', case=c, model_obs=m, impl_obs=i))
    return ('async_flat_reentrant_on_final', True, detail, {})


def flat_stream(tier, seed):
    """theorem C18_flat on the real flat classes: flat machines in which most states are final and every machine has
    on_final callbacks; reflexive transitions into final states, internal transitions (no on_final), blocked ones"""
    import flat
    import framework as F
    n = 300 if tier == 'quick' else 10000
    cases = []
    for i in range(n):
        rng = random.Random('C18f-%d-%d' % (seed, i))
        c = flat.gen_case(rng, malformed=False, p_unknown=0.0, p_build=0.4)
        for s, d in c['machine']['states']:
            d['final'] = rng.random() < 0.6
        if not c['machine']['on_final']:
            c['machine']['on_final'] = [5298]
        c['env'] = dict(default=True, bypos={p: (r[0], None, []) for p, r in c['env']['bypos'].items() if r[1] is None},
                        bycb={k: (r[0], None, []) for k, r in c['env']['bycb'].items() if r[1] is None})
        c['history'] = [(0, e, a) for (k, e, a) in c['history']]
        c['cls'] = flat.SYNC_CLASSES[i % len(flat.SYNC_CLASSES)]
        cases.append(c)
    mo = F.run_model(0, [flat.enc_case(c) for c in cases])
    io = F.run_impl('flat', 'impl_flat', cases)
    bad = [(c, m, i) for c, m, i in zip(cases, mo, io) if m != i]
    fired = sum(1 for o in mo if isinstance(o, list) and o[0] == 1 for st in o[1] if any(it[0] == 8 for it in st[0]))
    reflexive = 0
    for c, o in zip(cases, mo):
        if isinstance(o, list) and o[0] == 1:
            prev = c['init']
            for st in o[1]:
                if st[1] == [0, True] and st[2] == prev and any(it[0] == 8 for it in st[0]):
                    reflexive += 1
                prev = st[2]
    detail = dict(cases=len(cases), disagreements=len(bad), calls_firing_on_final=fired,
                  reflexive_transitions_into_a_final_state=reflexive)
    if bad:
        c, m, i = bad[0]
        return ('flat_on_final', False, detail,
                dict(kind='counterexample', stream='flat machines with final states', case=c, model_obs=m, impl_obs=i))
    return ('flat_on_final', True, detail, {})
