"""C09 — every predefined machine class behaves like Machine on base configurations.

One generated flat case (C01 histories, C04 crash points, C05 queued programs whose callbacks trigger /
remove models / raise) is run on ALL twelve predefined classes, each obtained BY NAME from
transitions.extensions and THROUGH MachineFactory.get_predefined, through one sync/async-agnostic runner.
Every class's observation must equal the base Machine's, which must equal the flat Coq engine's (and the
Coq hierarchical engine on the embedding, Props/C09.v C09_hsm_flat).  The factory table is reflected into
coq/Generated/ClassMap.v before every build (generated_hook) and Props/C09.v re-proves C09_factory on it.

Async classes — which choice was made: the comparison with the synchronous classes is RESTRICTED to cases in
which the licensed difference (C07: an async transition evaluates ALL its conditions; inside one gathered
stage the remaining callbacks still run when one raises) cannot show, decided on the base trace:
  (a) every failing condition/unless check is the LAST check of its transition, and
  (b) every raising callback is the LAST callback of its stage list.
Under (a)+(b) sync and async run exactly the same callbacks at the same positions, so the async observation
must be IDENTICAL to Machine's (no canonicalisation at all).  Outside that envelope the four async classes
(x two ways of obtaining them) must still agree with each other (verdict 2)."""
import asyncio
import copy
import functools
import logging
import os
import pickle
import random

import framework as F
import flat
from framework import opt

PID = 'C09'
KIND = 14
IMPL = ('c09', 'impl_c09')
COUNTS = dict(quick=1200, thorough=12000)

# name, (graph, nested, locked, asyncio)
CLASSES = [
    ('Machine', (0, 0, 0, 0)), ('LockedMachine', (0, 0, 1, 0)), ('HierarchicalMachine', (0, 1, 0, 0)),
    ('LockedHierarchicalMachine', (0, 1, 1, 0)), ('GraphMachine', (1, 0, 0, 0)), ('LockedGraphMachine', (1, 0, 1, 0)),
    ('HierarchicalGraphMachine', (1, 1, 0, 0)), ('LockedHierarchicalGraphMachine', (1, 1, 1, 0)),
    ('AsyncMachine', (0, 0, 0, 1)), ('AsyncGraphMachine', (1, 0, 0, 1)), ('HierarchicalAsyncMachine', (0, 1, 0, 1)),
    ('HierarchicalAsyncGraphMachine', (1, 1, 0, 1)),
]
ALL_FLAGS = [(g, n, l, a) for g in (0, 1) for n in (0, 1) for l in (0, 1) for a in (0, 1)]


def available_backends():
    """diagram backends usable in this sandbox ('mermaid' needs nothing; the two Graphviz ones need packages)"""
    out, missing = ['mermaid'], []
    for eng, mod in (('graphviz', 'graphviz'), ('pygraphviz', 'pygraphviz')):
        try:
            __import__(mod)
            out.append(eng)
        except Exception:
            missing.append(eng)
    return out, missing


BACKENDS, MISSING_BACKENDS = available_backends()

RULE = ('cases 0-15 = the 16 factory flag tuples (get_predefined must return a class with exactly the requested '
        'features, ValueError exactly for locked+asyncio). Other cases, by stream: "flat" = C01 generator (1-5 states, '
        '1-3 events, 1-4 candidates per (event, source), callbacks in every slot, conditions by position/callback, '
        'histories of 1-8 calls via trigger(name)/event method, known events only, p_unknown=0); "may" = the same with '
        'may_trigger calls mixed in; "crash" = a flat case in which one position of the non-failing trace (computed by '
        'the Coq engine) raises (C04), followed by 2-4 further events; "queue" = C05 programs (1-3 models, callbacks '
        'trigger events on any model / remove models / raise), followed by 2-4 rounds of events on all models. Raising '
        'callbacks draw from custom Exception/BaseException subclasses, MachineError, AttributeError, ValueError, '
        'KeyError, TypeError, RuntimeError, IndexError, asyncio.CancelledError (exact type names observed). Queue '
        'mode per case: False / True / "model" (async classes; sync classes use True) for flat and crash cases '
        '(queued ones are modelled by Queue.drain over the engine), True or "model" (one model, no removals) for '
        'queue programs. "dispatch" = a flat machine with 2-4 models in different states, every history entry is '
        'machine.dispatch(event, token, k=token) (awaited on the asyncio classes), replies depend on the callback only, '
        'invalid triggers ignored, <= 1 check per transition (always inside the async envelope); observed per call: each '
        'model\'s own callback sequence and state, and the result (non-trivial: an earlier model refused, a later accepted). '
        '"pickle" = a flat machine with 1-2 models is replaced by pickle.loads(pickle.dumps((machine, models))) BEFORE the '
        'history (callbacks registered by name, resolved by the picklable model at call time), then: events, add_model '
        'of a further model and events on it, remove_model of a model and events through its stale helpers, more events; '
        'unqueued (Coq: the engine per call, positions running on) or queued (Queue.drain); add_model/remove_model '
        'must not raise on any class (non-trivial: the added or the removed model ran transition callbacks). "ordered" = '
        'a flat machine (>= 2 states) one trigger of which is created by add_ordered_transitions(states | None, trigger, '
        'loop, loop_includes_initial, conditions=, unless=, before=, after=, prepare=) with per-position / broadcast / '
        'absent option lists of distinct callbacks, on the class under test; the Coq engines get the expansion. '
        '"reconf" = a flat machine (<= 1 check per transition, no raising callback) whose history is interleaved with '
        'remove_transition(trigger[, source=][, dest=]) in every filter combination (the Coq engines get the remaining '
        'transitions under a fresh event id), the trigger being used again; 15%% of the calls use a name the machine does '
        'not know, under every ignore_invalid_triggers setting of machine and state: the non-nested classes must equal '
        'Machine (False / AttributeError raised directly), the nested ones the Coq hierarchical engine (AttributeError '
        'routed through on_exception / finalize). "ctor" = states given as dicts, part of them WITHOUT an '
        'ignore_invalid_triggers key on a machine built with the flag set (they snapshot it), transitions given '
        'positionally with 6-8 entries (constructor transitions=[[...]], add_transitions, add_transition(*args)); later '
        'machine.ignore_invalid_triggers is assigned the opposite value (and back), followed by invalid and unknown events; '
        'for part of the states the enter / exit callbacks are registered after construction (machine.on_enter(state, cb) / '
        'on_exit(state, cb) on the hierarchical classes, machine.on_enter_<state>(cb) / on_exit_<state>(cb) on all). Each case runs on 12 classes x '
        '{by name, through the factory} x diagram backends %s (unavailable here: %s). Non-trivial: the base run '
        'executed a transition after a failed check, or processed >= 2 events / raised, and at least one async class '
        'was compared inside the async envelope; distinct by case hash.' % (BACKENDS, MISSING_BACKENDS))
ASSUMPTIONS = [
    'diagram backends: only graph_engine=%s available in this sandbox (python packages %s are not installed); graph '
    'classes are exercised with the available ones only' % (BACKENDS, MISSING_BACKENDS),
    'async classes are awaited one trigger at a time on a fresh event loop with plain (non-suspending) recorders; '
    'comparison with sync classes restricted to the async envelope (failing checks / raising callbacks last in their '
    'stage); suspension and concurrency are C07/C08',
    'locked classes are driven from one thread (schedules are C06); every lock is observed free after each call',
    'unqueued re-entrant triggers from callbacks are compared class-vs-Machine only (extra check), no Coq engine',
    'a user callback raising asyncio.CancelledError is outside the async envelope (async classes report a cancelled '
    'event, result False, by design — C08); queued="model" cases have one model and no remove_model actions (the '
    'per-model queue of a removed model is deleted by design of that mode)',
    'dispatch: the asyncio classes gather the models, so the callback order ACROSS models may differ from Machine\'s '
    'sequential order and is not compared (per-model sequences, states and the result are); the Coq side gives each '
    'model\'s view (the flat / hierarchical engine on that model\'s history) — Machine.dispatch itself is C10_dispatch',
    'pickle stream: pickle itself is the runtime\'s (C15 owns the copy semantics); here only "a restored machine of any '
    'class still behaves like Machine, also when models are added / removed afterwards"',
    'event names the machine knows (unknown names: hierarchical classes route AttributeError through on_exception/'
    'finalize, Machine raises it directly — excluded by the property text)',
]
THEOREMS = ['C09_factory', 'C09_factory_keys', 'C09_factory_examples', 'C09_hsm_flat', 'C09_hsm_flat_back',
            'C09_hsm_flat_history', 'C09_hsm_flat_example', 'C09_graph_id', 'C09_locked_id', 'C09_locked_reentrant',
            'C09_locked_example']
THEOREM_OF_DIFF = 'class observation = Machine observation = flat engine (Props/C09.v, corr_C09)'

logging.getLogger('asyncio').setLevel(logging.CRITICAL)

# ------------------------------------------------------------------ exceptions raised by user callbacks
# Built-in types the library itself catches or raises somewhere (core._process / _process_async queue handling,
# attribute and state lookups, cancellation).  A user callback raising one of them must be treated like any other
# user exception.  In the Coq model they travel as UserExn / BaseExn with id 100+index (MachineError, AttributeError,
# ValueError have their own constructors); observations name the exact TYPE.
BUILTIN_POOL = [('KeyError', 3), ('TypeError', 3), ('RuntimeError', 3), ('IndexError', 3), ('CancelledError', 4)]
CANCELLED = [4, 100 + 4]


def _builtin_types():
    return [KeyError, TypeError, RuntimeError, IndexError, asyncio.CancelledError]


def exn_pool():
    """codes (kind, n) a raising callback draws from"""
    return ([(3, 7), (4, 7), (0, 0), (1, 0), (2, 0)] +
            [(kind, 100 + i) for i, (_, kind) in enumerate(BUILTIN_POOL)])


def draw_exn(rng):
    x = rng.random()
    if x < 0.25:
        return (3, 7)
    if x < 0.35:
        return (4, 7)
    return rng.choice(exn_pool()[2:])


def make_exc(exn):
    kind, n = exn
    if kind in (3, 4) and n >= 100:
        return _builtin_types()[n - 100]('x')
    return flat.make_exc(exn)


def classify_exc(e):
    """exact type -> code; anything else is reported by its type name"""
    tr = flat._import_transitions()
    if type(e) is flat.UserExc:
        return [3, e.n]
    if type(e) is flat.BaseExc:
        return [4, e.n]
    if type(e) is tr.MachineError:
        return [0, 0]
    if type(e) is AttributeError:
        return [1, 0]
    if type(e) is ValueError:
        return [2, 0]
    for i, t in enumerate(_builtin_types()):
        if type(e) is t:
            return [BUILTIN_POOL[i][1], 100 + i]
    return [9, type(e).__name__]


def exn_name(code):
    if not isinstance(code, list) or len(code) != 2:
        return code
    k, n = code
    if k == 0:
        return 'MachineError'
    if k == 1:
        return 'AttributeError'
    if k == 2:
        return 'ValueError'
    if k in (3, 4) and isinstance(n, int) and n >= 100 and n - 100 < len(BUILTIN_POOL):
        return BUILTIN_POOL[n - 100][0]
    if k == 3:
        return 'UserExc#%s' % n
    if k == 4:
        return 'BaseExc#%s' % n
    return 'other:%s' % n


def name_exns(steps):
    """replace exception codes by type names in results and in the error seen by on_exception/finalize items"""
    out = []
    for step in steps:
        if not isinstance(step, list) or len(step) < 2:
            out.append(step)
            continue
        items = [it[:5] + [[exn_name(x) for x in it[5]]] + it[6:] for it in step[0]]
        res = step[1]
        if isinstance(res, list) and len(res) == 2 and res[0] == 1:
            res = [1, exn_name(res[1])]
        out.append([items, res] + list(step[2:]))
    return out


# ------------------------------------------------------------------ reflection -> coq/Generated/ClassMap.v
def _features(cls):
    flat._import_transitions()
    import transitions.extensions as ext
    from transitions.extensions.markup import MarkupMachine
    return (int(issubclass(cls, ext.GraphMachine) and issubclass(cls, MarkupMachine)),
            int(issubclass(cls, ext.HierarchicalMachine)), int(issubclass(cls, ext.LockedMachine)),
            int(issubclass(cls, ext.AsyncMachine)))


def reflect_class_map():
    flat._import_transitions()
    from transitions.extensions import factory
    cmap = factory._CLASS_MAP
    rows = []
    for k in ALL_FLAGS:
        key = tuple(bool(x) for x in k)
        cls = cmap.get(key)
        rows.append((k, None if cls is None else (_features(cls), cls.__name__)))
    extra = [repr(k) for k in cmap if not (isinstance(k, tuple) and len(k) == 4 and all(isinstance(x, bool) for x in k))]
    return rows, extra


def generated_hook():
    rows, extra = reflect_class_map()
    b = lambda x: 'true' if x else 'false'
    t = lambda k: '(%s, %s, %s, %s)' % tuple(b(x) for x in k)
    lines = ['(* GENERATED by harness/c09.py (generated_hook) from transitions.extensions.factory._CLASS_MAP by',
             '   reflection, rewritten before every build.  Do not edit.  Key = (graph, nested, locked, asyncio);',
             '   value = feature set of the class stored under the key (GraphMachine/MarkupMachine,',
             '   HierarchicalMachine, LockedMachine, AsyncMachine in its MRO) or None when the key is absent. *)',
             'From Coq Require Import List Bool.', 'From M Require Import Factory.', 'Import ListNotations.', '',
             'Definition class_map : class_table := [']
    for i, (k, v) in enumerate(rows):
        sep = ';' if i < len(rows) - 1 else ''
        if v is None:
            lines.append('  (%s, None)%s  (* absent *)' % (t(k), sep))
        else:
            lines.append('  (%s, Some %s)%s  (* %s *)' % (t(k), t(v[0]), sep, v[1]))
    lines += ['].', '', '(* keys of _CLASS_MAP that are not 4-tuples of booleans *)',
              'Definition class_map_extra_keys : nat := %d.' % len(extra), '']
    txt = '\n'.join(lines)
    path = os.path.join(F.COQ, 'Generated', 'ClassMap.v')
    os.makedirs(os.path.dirname(path), exist_ok=True)
    if not os.path.exists(path) or open(path).read() != txt:
        with open(path, 'w') as f:
            f.write(txt)


# ------------------------------------------------------------------ generation
def _cb_lists(machine):
    """callback id -> (the stage list it belongs to, its index)"""
    where = {}

    def reg(lst):
        for i, c in enumerate(lst):
            new = (len(lst), i)
            if c in where:          # a callback shared by several lists (broadcast option of add_ordered_transitions):
                old = where[c]      # 'last in its stage' only if it is last in every list it belongs to
                last = old[1] == old[0] - 1 and new[1] == new[0] - 1
                new = (1, 0) if last else (2, 0)
            where[c] = new
    for key in ('prepare_event', 'before_sc', 'after_sc', 'finalize', 'on_exception', 'on_final'):
        reg(machine[key])
    for _, d in machine['states']:
        reg(d['enter'])
        reg(d['exit'])
    for _, ts in machine['events']:
        for t in ts:
            reg(t['prepare'])
            reg(t['before'])
            reg(t['after'])
            reg([c for c, _ in t['conds']])
    return where


def _reply(env, cb, pos):
    bp = env.get('bypos', {})
    if pos in bp:
        return bp[pos]
    if str(pos) in bp:
        return bp[str(pos)]
    bc = env.get('bycb', {})
    if cb in bc:
        return bc[cb]
    if str(cb) in bc:
        return bc[str(cb)]
    return (env.get('default', True), None, [])


def async_envelope(case, items):
    """(a) failing checks and (b) raising callbacks are last in their stage list — on the base trace"""
    where = _cb_lists(case['machine'])
    for pos, it in enumerate(items):
        slot, cb, ret = it[0], it[1], bool(it[6])
        failing = (slot == 2 and not ret) or (slot == 3 and ret)
        exn = _reply(case['env'], cb, pos)[1]
        raising = exn is not None
        if raising and list(exn) == CANCELLED:
            return False       # async classes turn CancelledError into "event cancelled, result False" by design (C08)
        if failing or raising:
            n, i = where.get(cb, (1, 0))
            if i != n - 1:
                return False
    return True


def _base_items(case, base_obs):
    """all items of the base run in global position order (both observation layouts keep them first)"""
    if case['sub'] == 'dispatch':
        return [it for step in base_obs for view in step[0] for it in view[1]]
    return [it for step in base_obs if isinstance(step, list) for it in step[0]]


def gen_queue(rng):
    """C05 programs: a flat machine (finalize_event non-empty so that every processed event is visible), 1-3 models,
    replies at random positions that trigger events on any model / remove models / raise"""
    c = flat.gen_case(rng, malformed=False, hist_len=1, p_unknown=0.0)
    m = c['machine']
    if not m['finalize']:
        m['finalize'] = [900]
    nm = rng.randint(1, 3)
    ns = len(m['states'])
    ne = len(m['events'])
    c['models'] = [(k, rng.randrange(ns)) for k in range(nm)]
    c['history'] = [(rng.randrange(nm), rng.randrange(ne), 100 + j) for j in range(rng.randint(1, 4))]
    bypos = {}
    for p in range(0, 50):
        x = rng.random()
        if x < 0.10:
            acts = []
            for _ in range(rng.randint(1, 2)):
                if rng.random() < 0.75:
                    acts.append((0, rng.randrange(nm), rng.randrange(ne)))
                else:
                    acts.append((1, rng.randrange(nm)))
            bypos[p] = (rng.random() < 0.7, None, acts)
        elif x < 0.13:
            bypos[p] = (True, draw_exn(rng), [])
        elif x < 0.35:
            bypos[p] = (rng.random() < 0.7, None, [])
    c['env']['bypos'] = bypos
    # every (possibly crashing) history is followed by 2-4 more rounds of events on ALL models
    j = len(c['history'])
    for _ in range(rng.randint(2, 4)):
        order = list(range(nm))
        rng.shuffle(order)
        for mdl in order:
            c['history'].append((mdl, rng.randrange(ne), 100 + j))
            j += 1
    # queue mode: True (one shared queue); 'model' for the async classes when there is one model (same FIFO)
    c['queued'] = 2 if (nm == 1 and rng.random() < 0.5) else 1
    if c['queued'] == 2:
        # per-model queues are deleted by remove_model (a later trigger on the removed model then fails inside the
        # library by design of that mode): no remove_model actions in 'model' mode
        for p_, (ret_, exn_, acts_) in list(bypos.items()):
            bypos[p_] = (ret_, exn_, [a for a in acts_ if a[0] != 1])
    c.pop('cls', None)
    del c['init']
    c['sub'] = 'queue'
    return c


def enc_queue(case):
    return [flat.enc_machine(case['machine']), flat.enc_env(case['env']),
            [[m, s] for m, s in case['models']], [[m, e, a] for m, e, a in case['history']]]


def canon_queue_steps(steps):
    """model side (Queue.drain blocks) -> per call [items, result, states, registered models, processed arrival ids,
    nested triggers all returned a true value]"""
    out = []
    for step in steps:
        if step == [9]:
            out.append('out-of-fuel')
            continue
        blocks, res, states, models, qlen, dropped = step
        items = [it for b in blocks for it in b[4]]
        processed = [b[0] for b in blocks if b[4]]
        out.append([items, res, states, models, processed, 1])
    return out


def shrink_queue(case):
    h = case['history']
    for i in range(len(h)):
        if len(h) > 1:
            c = copy.deepcopy(case)
            del c['history'][i]
            yield c
    for p in list(case['env']['bypos']):
        c = copy.deepcopy(case)
        del c['env']['bypos'][p]
        yield c
    m = case['machine']
    for ei, (e, ts) in enumerate(m['events']):
        for ti in range(len(ts)):
            if len(ts) > 1:
                c = copy.deepcopy(case)
                del c['machine']['events'][ei][1][ti]
                yield c


def gen_dispatch(rng):
    """machine.dispatch on 2-4 models in different states.  Callbacks neither raise nor call back; replies depend on
    the callback only (the asyncio classes gather the models, so positions are not comparable); invalid triggers
    are ignored (an earlier model refusing must not stop the later ones); at most one check per transition, so that
    every case lies inside the async envelope."""
    c = flat.gen_case(rng, malformed=False, p_unknown=0.0, hist_len=rng.randint(2, 6))
    m = c['machine']
    m['ignore'] = True
    for _, d in m['states']:
        if d['ignore'] is False:
            d['ignore'] = None
    for _, ts in m['events']:
        for t in ts:
            t['conds'] = t['conds'][:1]
    env = c['env']
    env['bypos'] = {}
    for cb in range(1, 200):                       # conditions: about half of them refuse
        if cb not in env['bycb'] and rng.random() < 0.5:
            env['bycb'][cb] = (rng.random() < 0.55, None, [])
    ns, ne = len(m['states']), len(m['events'])
    nm = rng.randint(2, 4)
    c['models'] = [(k, rng.randrange(ns)) for k in range(nm)]
    c['history'] = [(0, rng.randrange(ne), 100 + j) for j in range(len(c['history']))]
    c['queued'] = rng.choice([0, 0, 0, 1, 2])
    c.pop('cls', None)
    del c['init']
    c['sub'] = 'dispatch'
    return c


def enc_dispatch(case):
    return [flat.enc_machine(case['machine']), flat.enc_env(case['env']),
            [[m, s] for m, s in case['models']], [[0, e, a] for k, e, a in case['history']]]


def canon_dispatch(case, per_model):
    """model side: one flat history per model -> per dispatch call [[model, its items, its state] ...], result =
    conjunction of the per-model results (a queued machine answers True)"""
    out = []
    for j in range(len(case['history'])):
        views, ok = [], True
        for (mid, _), hist in zip(case['models'], per_model):
            items, res, st = hist[j]
            views.append([mid, items, st])
            ok = ok and (bool(case.get('queued', 0)) or (res[0] == 0 and bool(res[1])))
        out.append([views, [0, ok]])
    return out


def gen_pickle(rng):
    """the machine and its models go through pickle.loads(pickle.dumps(..)) BEFORE the history; afterwards a further
    model is registered and used, a model is removed and still used through its (stale) helpers"""
    c = flat.gen_case(rng, malformed=False, p_unknown=0.0, hist_len=1)
    m = c['machine']
    ns, ne = len(m['states']), len(m['events'])
    nm = rng.randint(1, 2)
    new = nm                                            # id of the model registered after the round trip
    c['models'] = [(k, rng.randrange(ns)) for k in range(nm)] + [(new, c['init'])]
    ops, j = [], [0]

    def trig(mdl, n):
        for _ in range(n):
            ops.append(['trig', mdl, rng.choice([0, 0, 2]), rng.randrange(ne), 100 + j[0]])
            j[0] += 1
    for mdl in range(nm):
        trig(mdl, rng.randint(0, 2))
    ops.append(['add', new])
    trig(new, rng.randint(1, 2))
    removed = rng.randrange(nm + 1)
    ops.append(['remove', removed])
    trig(removed, rng.randint(1, 2))                    # through the helpers the removed model still carries
    for mdl in rng.sample(range(nm + 1), nm + 1):
        trig(mdl, rng.randint(0, 2))
    c['ops'] = ops
    if rng.random() < 0.35:
        c['env']['bypos'][rng.randrange(0, 25)] = (True, draw_exn(rng), [])
    c['queued'] = rng.choice([0, 0, 1])
    c.pop('cls', None)
    c.pop('history', None)
    c['sub'] = 'pickle'
    return c


def enc_pickle(case):
    trigs = [op for op in case['ops'] if op[0] == 'trig']
    head = [flat.enc_machine(case['machine']), flat.enc_env(case['env']), [[m, s] for m, s in case['models']]]
    if case.get('queued', 0):
        return [1, head + [[[op[1], op[3], op[4]] for op in trigs]]]                 # Queue.drain over the engine
    return [4, head + [[[op[1], [op[2], op[3], op[4]]] for op in trigs]]]


def expand_ordered(o, all_states, init):
    """what Machine.add_ordered_transitions(states, trigger, loop, loop_includes_initial, conditions=, unless=,
    before=, after=, prepare=) creates, as transitions of the flat model (core.py: the list is rotated so that the
    initial state comes first; position i of every option belongs to the i-th created transition, the closing
    transition of the loop takes the last position)"""
    states = list(all_states if o['states'] is None else o['states'])
    n = len(states)
    count = n if o['loop'] else n - 1

    def at(key, i):
        v = o[key]
        if v is None:
            return []
        return list(v[0] if len(v) == 1 else v[i])
    if init in states:
        idx = states.index(init)
        states = states[idx:] + states[:idx]
        first = states[0 if o['loop_includes_initial'] else 1]
    else:
        first = states[0]
    pairs = [(states[i], states[i + 1], i) for i in range(n - 1)]
    if o['loop']:
        pairs.append((states[-1], first, count - 1))
    return [dict(src=a, dst=b, prepare=at('prepare', i),
                 conds=[(c, True) for c in at('conditions', i)] + [(c, False) for c in at('unless', i)],
                 before=at('before', i), after=at('after', i)) for a, b, i in pairs]


def gen_ordered(rng):
    """a flat machine with >= 2 states; besides its ordinary events one trigger is created by
    add_ordered_transitions with per-position (or broadcast, or absent) option lists of distinct callbacks"""
    while True:
        c = flat.gen_case(rng, malformed=False, p_unknown=0.0)
        if len(c['machine']['states']) >= 2:
            break
    m = c['machine']
    sids = [s for s, _ in m['states']]
    ne = len(m['events'])
    nxt = [max(list(_cb_lists(m)) + [0]) + 1]
    loop = rng.random() < 0.7
    if rng.random() < 0.4:
        states = None
        n = len(sids)
    else:
        n = rng.randint(2, len(sids))
        states = rng.sample(sids, n)
    count = n if loop else n - 1

    def cbs(hi):
        out = []
        for _ in range(rng.randint(0, hi)):
            out.append(nxt[0])
            nxt[0] += 1
        return out

    def option(hi, p_none=0.25):
        x = rng.random()
        if x < p_none:
            return None
        if x < p_none + 0.15:
            return [cbs(hi)]                              # broadcast: one entry for every transition
        return [cbs(hi) for _ in range(count)]
    o = dict(event=ne, states=states, loop=loop, loop_includes_initial=rng.random() < 0.7,
             conditions=option(1, 0.4), unless=option(1, 0.6), before=option(2), after=option(2), prepare=option(2))
    m['events'].append((ne, expand_ordered(o, sids, c['init'])))
    for cb in range(1, nxt[0]):
        if cb not in c['env']['bycb'] and rng.random() < 0.3:
            c['env']['bycb'][cb] = (rng.random() < 0.8, None, [])
    c['history'] = [(rng.choice([0, 0, 2]), (ne if rng.random() < 0.65 else rng.randrange(ne)), 100 + j)
                    for j in range(rng.randint(2, 8))]
    c['ordered'] = o
    return c


UNKNOWN_EVENT = 77          # an event name no generated machine defines


def gen_reconf(rng):
    """reconfiguration + unknown names: a flat machine (<= 1 check per transition, no raising callback: always inside
    the async envelope) whose history is interleaved with remove_transition(trigger[, source][, dest]) calls in every
    filter combination; the trigger is used again afterwards; some calls use a name the machine does not know
    (ignored when ignore_invalid_triggers holds for the machine or the current state, AttributeError otherwise)"""
    c = flat.gen_case(rng, malformed=False, p_unknown=0.0, hist_len=1)
    m = c['machine']
    for _, ts in m['events']:
        for t in ts:
            t['conds'] = t['conds'][:1]
    ne = len(m['events'])
    live = dict((e, [dict(t) for t in ts]) for e, ts in m['events'])
    ops, j = [], [0]

    def trigs(n, prefer=None):
        for _ in range(n):
            x = rng.random()
            if x < 0.15:
                e = UNKNOWN_EVENT
            elif prefer is not None and x < 0.7:
                e = prefer
            else:
                e = rng.randrange(ne)
            ops.append(['trig', rng.choice([0, 0, 2]), e, 100 + j[0]])
            j[0] += 1
    trigs(rng.randint(1, 3))
    for _ in range(rng.randint(1, 3)):
        present = [e for e in live if live[e]]
        if not present:
            break
        e = rng.choice(present)
        mode = rng.choice(['src', 'dst', 'both', 'dst', 'both', 'none'])
        t0 = rng.choice(live[e])
        src = t0['src'] if mode in ('src', 'both') else None
        dsts = [t['dst'] for t in live[e] if t['dst'] is not None and (src is None or t['src'] == src)]
        dst = (rng.choice(dsts) if dsts else c['init']) if mode in ('dst', 'both') else None
        ops.append(['remove', e, src, dst])
        live[e] = [t for t in live[e] if not ((src is None or t['src'] == src) and (dst is None or t['dst'] == dst))]
        trigs(rng.randint(2, 4), prefer=e)
    c['ops'] = ops
    c['queued'] = 0
    c.pop('cls', None)
    c.pop('history', None)
    c['sub'] = 'reconf'
    return c


def gen_ctor(rng):
    """construction routes + a machine flag changed later: states are dicts, some WITHOUT an ignore_invalid_triggers key
    (they snapshot the machine's setting when they are created); transitions are given positionally / in list form
    with 6-8 entries through the constructor, add_transitions and add_transition(*args); later
    machine.ignore_invalid_triggers is assigned the opposite value (and back) and invalid / unknown events follow"""
    c = flat.gen_case(rng, malformed=False, p_unknown=0.0, hist_len=1)
    m = c['machine']
    for _, ts in m['events']:
        for t in ts:
            t['conds'] = t['conds'][:1]
    flag = rng.random() < 0.65                      # the machine is built with ignore_invalid_triggers=flag
    m['ignore'] = flag
    omit = []
    for sid, d in m['states']:
        if d['ignore'] is None or rng.random() < 0.3:
            omit.append(sid)                        # no key in the state dict: the state snapshots `flag`
            d['ignore'] = flag
    ne = len(m['events'])
    routes = dict((str(e), rng.choice(['ctor', 'add_transitions', 'add_transition'])) for e, _ in m['events'])
    ops, j = [], [0]

    def trigs(n):
        for _ in range(n):
            e = UNKNOWN_EVENT if rng.random() < 0.25 else rng.randrange(ne)
            ops.append(['trig', rng.choice([0, 0, 2]), e, 100 + j[0]])
            j[0] += 1
    trigs(rng.randint(1, 3))
    ops.append(['setignore', not flag])
    trigs(rng.randint(2, 5))
    if rng.random() < 0.5:
        ops.append(['setignore', flag])
        trigs(rng.randint(1, 3))
    c['ops'] = ops
    # states whose enter / exit callbacks are registered AFTER construction: machine.on_enter(state, cb) /
    # machine.on_exit(state, cb) where the class has them (hierarchical classes), machine.on_enter_<state>(cb) /
    # machine.on_exit_<state>(cb) otherwise
    later = [sid for sid, d in m['states'] if (d['enter'] or d['exit']) and rng.random() < 0.6]
    c['ctor'] = dict(omit=omit, routes=routes, later=later)
    c['queued'] = 0
    c.pop('cls', None)
    c.pop('history', None)
    c['sub'] = 'reconf'
    c['stream'] = 'ctor'
    return c


def build_ctor(case, world, cls, extra_kwargs):
    """public constructor / add_transitions / add_transition(*args) with POSITIONAL transition options
    (trigger, source, dest, conditions, unless, before, after, prepare), 6-8 entries"""
    m = case['machine']
    R = world.recorder
    omit = set(case['ctor']['omit'])
    later_set = set(case['ctor'].get('later', []))
    later = []
    states = []
    for sid, d in m['states']:
        sd = dict(name='s%d' % sid, final=d['final'])
        if sid in later_set:
            later.append(('s%d' % sid, [R('enter', c) for c in d['enter']], [R('exit', c) for c in d['exit']]))
        else:
            sd.update(on_enter=[R('enter', c) for c in d['enter']], on_exit=[R('exit', c) for c in d['exit']])
        if sid not in omit:
            sd['ignore_invalid_triggers'] = d['ignore']
        states.append(sd)

    def row(e, t):
        full = ['e%d' % e, 's%d' % t['src'], None if t['dst'] is None else 's%d' % t['dst'],
                [R('cond', c) for c, tg in t['conds'] if tg], [R('unless', c) for c, tg in t['conds'] if not tg],
                [R('before', c) for c in t['before']], [R('after', c) for c in t['after']],
                [R('prepare', c) for c in t['prepare']]]
        n = 8
        while n > 6 and not full[n - 1]:
            n -= 1                                   # trailing empty options may be left out: 6, 7 or 8 entries
        return full[:n]
    by_route = dict(ctor=[], add_transitions=[], add_transition=[])
    for e, ts in m['events']:
        for t in ts:
            by_route[case['ctor']['routes'][str(e)]].append(row(e, t))
    model = flat.Model()
    kw = dict(model=model, states=states, initial='s%d' % case['init'], transitions=by_route['ctor'],
              auto_transitions=False, send_event=m['send'], ignore_invalid_triggers=m['ignore'],
              prepare_event=[R('prepare_event', c) for c in m['prepare_event']],
              before_state_change=[R('before_sc', c) for c in m['before_sc']],
              after_state_change=[R('after_sc', c) for c in m['after_sc']],
              finalize_event=[R('finalize', c) for c in m['finalize']],
              on_exception=[R('on_exception', c) for c in m['on_exception']],
              on_final=[R('on_final', c) for c in m['on_final']])
    kw.update(extra_kwargs)
    machine = cls(**kw)
    for k_l, (name, ent, exi) in enumerate(later):
        use_method = hasattr(type(machine), 'on_enter') and hasattr(type(machine), 'on_exit') and k_l % 2 == 0
        for cb in exi:
            machine.on_exit(name, cb) if use_method else getattr(machine, 'on_exit_' + name)(cb)
        for cb in ent:
            machine.on_enter(name, cb) if use_method else getattr(machine, 'on_enter_' + name)(cb)
    if by_route['add_transitions']:
        machine.add_transitions(by_route['add_transitions'])
    for r in by_route['add_transition']:
        machine.add_transition(*r)
    return machine, model


def reconf_model_case(case):
    """the flat case handed to the Coq engines: a removal re-binds the trigger name to a FRESH event that keeps the
    remaining transitions (none left: the name becomes unknown) — what Machine.remove_transition does, as data"""
    m = copy.deepcopy(case['machine'])
    events = [[e, ts] for e, ts in m['events']]
    cur = dict((e, e) for e, _ in events)
    nxt = max([e for e, _ in events] + [UNKNOWN_EVENT]) + 1
    hist = []
    for op in case['ops']:
        if op[0] == 'trig':
            hist.append([op[1], cur.get(op[2], UNKNOWN_EVENT), op[3]])
        elif op[0] == 'setignore':
            continue        # every state of these cases carries its own (given or snapshot) flag: no effect
        else:
            _, e, src, dst = op
            old = [ts for k, ts in events if k == cur.get(e)]
            rest = [t for t in (old[0] if old else [])
                    if not ((src is None or t['src'] == src) and (dst is None or t['dst'] == dst))]
            if rest:
                events.append([nxt, rest])
                cur[e] = nxt
            else:
                cur.pop(e, None)
            nxt += 1
    m['events'] = events
    return dict(machine=m, env=case['env'], model=case.get('model', 0), init=case['init'], history=hist)


def gen_batch(seed, n, tier):
    cases = []
    for k in ALL_FLAGS:
        cases.append(dict(sub='factory', flags=list(k)))
    crash_bases = []
    for i in range(n):
        rng = random.Random('C09-%d-%d' % (seed, i))
        stream = ('flat', 'crash', 'queue', 'dispatch', 'crash', 'pickle', 'may', 'queue', 'ordered', 'reconf',
                  'ctor')[i % 11]
        if stream == 'queue':
            cases.append(gen_queue(rng))
        elif stream == 'dispatch':
            cases.append(gen_dispatch(rng))
        elif stream == 'pickle':
            cases.append(gen_pickle(rng))
        elif stream == 'reconf':
            cases.append(gen_reconf(rng))
        elif stream == 'ctor':
            cases.append(gen_ctor(rng))
        else:
            follow = rng.randint(2, 4) if stream == 'crash' else 0     # events after the crashing call
            if stream == 'ordered':
                c = gen_ordered(rng)
            else:
                c = flat.gen_case(rng, malformed=False, may=(stream == 'may'), p_unknown=0.0,
                                  hist_len=rng.randint(1, 5) + follow if stream == 'crash' else None)
            c.pop('cls', None)
            c['sub'] = 'flat'
            c['stream'] = stream
            c['follow'] = follow
            # False / True / 'model' (sync classes: bool); may_trigger histories stay unqueued
            c['queued'] = 0 if stream == 'may' else rng.choice([0, 1, 1, 2])
            cases.append(c)
            if stream == 'crash':
                crash_bases.append((i, c))
    # crash points: positions of the non-failing trace, computed by the Coq flat engine (kind 0)
    if crash_bases:
        obs = F.run_model(0, [flat.enc_case(c) for _, c in crash_bases])
        for (i, c), o in zip(crash_bases, obs):
            rng = random.Random('C09x-%d-%d' % (seed, i))
            # crash inside the calls that are followed by >= `follow` further events
            early = o[1][:max(1, len(o[1]) - c['follow'])]
            items = [it for step in early for it in step[0]]
            if not items:
                continue
            where = _cb_lists(c['machine'])
            last = [k for k, it in enumerate(items) if where.get(it[1], (1, 0))[1] == where.get(it[1], (1, 0))[0] - 1]
            pool = last if (last and rng.random() < 0.75) else list(range(len(items)))
            k = rng.choice(pool)
            it = items[k]
            c['env']['bypos'][k] = (bool(it[6]), draw_exn(rng), [])
            c['crash'] = k
    return cases


def gen(rng, i, tier):       # main.py uses gen_batch; kept for the interface (a plain flat case)
    c = flat.gen_case(rng, malformed=False, p_unknown=0.0)
    c.pop('cls', None)
    c['sub'], c['stream'] = 'flat', 'flat'
    return c


def enc(case):
    if case['sub'] == 'factory':
        return [2, [bool(x) for x in case['flags']]]
    if case['sub'] == 'queue':
        return [1, enc_queue(case)]
    if case['sub'] == 'dispatch':
        return [3, enc_dispatch(case)]
    if case['sub'] == 'pickle':
        return enc_pickle(case)
    if case['sub'] == 'reconf':
        return [0, flat.enc_case(reconf_model_case(case))]
    if flat_via_queue(case):
        # a queued machine: the faithful model is Queue.drain over the engine (a queued call returns True unless
        # it raises) — one model, no callback actions
        m = case.get('model', 0)
        return [1, [flat.enc_machine(case['machine']), flat.enc_env(case['env']), [[m, case['init']]],
                    [[m, e, a] for k, e, a in case['history']]]]
    return [0, flat.enc_case(case)]


def flat_via_queue(case):
    return case['sub'] == 'flat' and bool(case.get('queued', 0)) and all(k != 1 for k, e, a in case['history'])


# ------------------------------------------------------------------ implementation side
def _grouped(world, acts):
    """world.batch_removals (coordinator's C05 stream): a run of consecutive remove_model actions is handed over as ONE
    action [1, [m1, m2, ...]] -> one call remove_model([...]) (same effect: exactly their pending events go)"""
    if not getattr(world, 'batch_removals', False):
        return list(acts)
    out = []
    for a in acts:
        if a[0] == 1 and out and out[-1][0] == 1:
            prev = out[-1][1] if isinstance(out[-1][1], list) else [out[-1][1]]
            out[-1] = [1, prev + [a[1]]]
        elif a[0] == 1:
            out.append([1, [a[1]]])         # a single removal is handed over in list form as well: remove_model([m])
        else:
            out.append(list(a))
    return out


class CWorld(flat.World):
    """recorders for sync and async classes (same item format as flat.World).  They hand the item whose callback
    is performing to perform/aperform.  Async: plain functions; a recorder that has to call back into the machine
    returns an awaitable that performs the calls (the library awaits awaitable callback results)."""
    is_async = False

    def recorder(self, slot, cb, model_of_call=None):
        world = self
        SLOT, Token = flat.SLOT, flat.Token

        def rec(*args, **kwargs):
            ret, exn, acts = world.reply(cb)
            world.pos += 1
            err = None
            model = None
            if len(args) == 1 and not kwargs and type(args[0]).__name__.endswith('EventData'):
                ed = args[0]
                model = ed.model
                tok = ed.args[0] if len(ed.args) == 1 and isinstance(ed.args[0], Token) else None
                ok = tok is not None and set(ed.kwargs.keys()) == {'k'} and ed.kwargs['k'] is tok
                arg = [1, tok.n if ok else 999]
                if slot in ('on_exception', 'finalize'):
                    err = None if ed.error is None else classify_exc(ed.error)
            else:
                tok = args[0] if len(args) == 1 and isinstance(args[0], Token) else None
                ok = tok is not None and set(kwargs.keys()) == {'k'} and kwargs['k'] is tok
                arg = [0, tok.n if ok else 999]
            if model_of_call is not None:
                model = model_of_call
            if model is None:
                model = world.current_model
            mid = world.model_ids.get(id(model), 99)
            item = [SLOT[slot], cb, mid, world.state_of(model), arg, opt(err), bool(ret), [list(a) for a in acts]]
            world.items.append(item)
            if acts and not world.is_async:
                for a in _grouped(world, acts):
                    world.perform(a, item)
            elif acts:
                async def later():
                    for a in _grouped(world, acts):
                        await world.aperform(a, item)
                    if exn is not None:
                        raise make_exc(exn)
                    return bool(ret)
                return later()
            if exn is not None:
                raise make_exc(exn)
            return bool(ret)
        rec.__name__ = '%s_%d' % (slot, cb)
        return rec


class AWorld(CWorld):
    is_async = True


class Runner(object):
    """drives one machine class, synchronous or asynchronous"""

    def __init__(self, is_async):
        self.is_async = is_async
        self.loop = asyncio.new_event_loop() if is_async else None

    def call(self, thunk):
        r = thunk()
        if self.is_async and asyncio.iscoroutine(r):
            r = self.loop.run_until_complete(r)
        return r

    def close(self):
        if self.loop is not None:
            try:
                self.loop.run_until_complete(asyncio.sleep(0))
            except BaseException:
                pass
            self.loop.close()


def _lock_free(machine, flags):
    if not flags[2]:
        return 1
    try:
        ok = machine._ident.current == 0
        for ctx in machine.machine_context:
            lk = getattr(ctx, 'lock', None)
            if lk is not None and lk.locked():
                ok = False
        return 1 if ok else 0
    except Exception:
        return 0


def class_kwargs(flags, backend):
    return dict(graph_engine=backend) if flags[0] else {}


def queued_arg(case, flags, default=0):
    """case['queued']: 0 False, 1 True, 2 'model' (async classes only; sync classes: True)"""
    q = case.get('queued', default)
    if q == 2:
        return 'model' if flags[3] else True
    return bool(q)


def build_flat(case, world, cls, extra_kwargs):
    """flat.build_machine; the trigger described by case['ordered'] is created through the public
    add_ordered_transitions of the class under test (the model gets its expansion, expand_ordered)"""
    o = case.get('ordered')
    if not o:
        return flat.build_machine(case, world, cls=cls, extra_kwargs=extra_kwargs)
    c2 = dict(case)
    c2['machine'] = dict(case['machine'])
    c2['machine']['events'] = [(e, ts) for e, ts in case['machine']['events'] if e != o['event']]
    machine, model = flat.build_machine(c2, world, cls=cls, extra_kwargs=extra_kwargs)
    R = world.recorder

    def arg(key, slot):
        return None if o[key] is None else [[R(slot, c) for c in lst] for lst in o[key]]
    machine.add_ordered_transitions(states=None if o['states'] is None else ['s%d' % x for x in o['states']],
                                    trigger='e%d' % o['event'], loop=bool(o['loop']),
                                    loop_includes_initial=bool(o['loop_includes_initial']),
                                    conditions=arg('conditions', 'cond'), unless=arg('unless', 'unless'),
                                    before=arg('before', 'before'), after=arg('after', 'after'),
                                    prepare=arg('prepare', 'prepare'))
    return machine, model


def run_flat_on(case, cls, flags, backend):
    is_async = bool(flags[3])
    runner = Runner(is_async)
    try:
        world = (AWorld if is_async else CWorld)(case['env'], case['machine']['send'])
        world.state_of = flat.state_int
        world.perform = lambda a, item: None

        async def noop(a, item):
            return None
        world.aperform = noop
        machine, model = build_flat(case, world, cls,
                                    dict(queued=queued_arg(case, flags), **class_kwargs(flags, backend)))
        world.model_ids[id(model)] = case.get('model', 0)
        world.current_model = model
        out, free = [], 1
        for k, e, a in case['history']:
            tok = flat.Token(a)
            world.items = []
            name = 'e%d' % e
            try:
                if k == 0:
                    r = runner.call(lambda: model.trigger(name, tok, k=tok))
                elif k == 1:
                    r = runner.call(lambda: model.may_trigger(name, tok, k=tok))
                else:
                    r = runner.call(lambda: getattr(model, name)(tok, k=tok))
                res = [0, bool(r)]
            except BaseException as ex:  # noqa
                res = [1, classify_exc(ex)]
            out.append([world.items, res, flat.state_int(model)])
            free = free and _lock_free(machine, flags)
        return out, free
    finally:
        runner.close()


def run_queue_on(case, cls, flags, backend, queued=True):
    is_async = bool(flags[3])
    runner = Runner(is_async)
    try:
        world = (AWorld if is_async else CWorld)(case['env'], case['machine']['send'])
        world.state_of = flat.state_int
        models = [flat.Model() for _ in case['models']]
        for (k, _), mod in zip(case['models'], models):
            world.model_ids[id(mod)] = k
        c2 = dict(case)
        c2['init'] = case['models'][0][1]
        if case.get('self_model') and len(models) == 1:
            # (coordinator's C05 stream) the machine is its own model - the library's default model='self'
            machine, _ = flat.build_machine(c2, world, cls=cls,
                                            extra_kwargs=dict(queued=(queued_arg(case, flags, 1) if queued else False),
                                                              **class_kwargs(flags, backend)))
            models = [machine]
            world.model_ids[id(machine)] = case['models'][0][0]
        else:
            c2.pop('self_model', None)
            machine, _ = flat.build_machine(c2, world, cls=cls, models=models,
                                            extra_kwargs=dict(queued=(queued_arg(case, flags, 1) if queued else False),
                                                              **class_kwargs(flags, backend)))
        for (k, s0), mod in zip(case['models'], models):
            machine.set_state('s%d' % s0, mod)
        st = dict(next_id=0, payload_id={}, act_k={}, nested=[], stale=False)

        def outer(it):
            """(model object, is the performing callback in a stage before the state change?) of the item whose
            callback is performing an action right now"""
            mods = [mod for (k, _), mod in zip(case['models'], models) if k == it[2]]
            return (mods[0] if mods else None), it[0] <= 5

        def call_trigger(mod, e, payload):
            tok = flat.Token(payload)
            st['payload_id'][payload] = st['next_id']
            st['next_id'] += 1
            return mod.trigger('e%d' % e, tok, k=tok)

        def prep(a, item):
            cur_payload = item[4][1]
            cur = st['payload_id'].get(cur_payload, 0)
            k = st['act_k'].get(cur, 0)
            st['act_k'][cur] = k + 1
            return cur, k

        def perform(a, item):
            cur, k = prep(a, item)
            if a[0] == 0:
                om, early = outer(item)
                before = flat.state_int(om) if om is not None else None
                try:
                    r = call_trigger(models[a[1]], a[2], 1000 + 16 * cur + k)
                except BaseException:
                    st['nested'].append(False)
                    raise
                finally:
                    if early and om is not None and flat.state_int(om) != before:
                        st['stale'] = True      # the outer event's source is no longer the model's state
                st['nested'].append(bool(r))
            else:
                remove(a, item, cur)

        def remove(a, item, cur):
            if isinstance(a[1], list):
                for _ in a[1][1:]:
                    st['act_k'][cur] = st['act_k'].get(cur, 0) + 1      # one action number per removal, as unbatched
                group = []
                for j in a[1]:
                    if models[j] in machine.models and not any(models[j] is g for g in group):
                        group.append(models[j])
                if group:
                    machine.remove_model(group)
            elif models[a[1]] in machine.models:
                machine.remove_model(models[a[1]])

        async def aperform(a, item):
            cur, k = prep(a, item)
            if a[0] == 0:
                try:
                    r = await call_trigger(models[a[1]], a[2], 1000 + 16 * cur + k)
                except BaseException:
                    st['nested'].append(False)
                    raise
                st['nested'].append(bool(r))
            else:
                remove(a, item, cur)
        world.perform = perform
        world.aperform = aperform
        world.batch_removals = bool(case.get('batch_removals'))
        out, free = [], 1
        for (m, e, a) in case['history']:
            world.items = []
            st['nested'] = []
            try:
                r = runner.call(lambda: call_trigger(models[m], e, a))
                res = [0, 1 if r else 0]            # the property speaks of the truth value of the result
            except BaseException as ex:  # noqa
                res = [1, classify_exc(ex)]
            processed = []
            for it in world.items:
                pid = st['payload_id'].get(it[4][1], 999)
                if not processed or processed[-1] != pid:
                    processed.append(pid)
            out.append([world.items, res, [[k, flat.state_int(mod)] for (k, _), mod in zip(case['models'], models)],
                        [world.model_ids[id(x)] for x in machine.models], processed,
                        1 if all(st['nested']) else 0])
            free = free and _lock_free(machine, flags)
        if not queued:
            return out, free, st['stale']
        return out, free
    finally:
        runner.close()


class PWorld(object):
    """picklable shared recording state (travels through pickle together with the machine and its models)"""

    def __init__(self, env, send):
        self.env, self.send, self.pos, self.items = env, send, 0, []


class NameWorld(object):
    """build_machine registers every callback by NAME; the model resolves the name at call time"""

    def recorder(self, slot, cb, model_of_call=None):
        return 'cb__%s__%d' % (slot, cb)


def _precord(model, slot, cb, *args, **kwargs):
    world = model.c09_world
    ret, exn, acts = _reply(world.env, cb, world.pos)
    world.pos += 1
    err = None
    Token = flat.Token
    if len(args) == 1 and not kwargs and type(args[0]).__name__.endswith('EventData'):
        ed = args[0]
        tok = ed.args[0] if len(ed.args) == 1 and isinstance(ed.args[0], Token) else None
        ok = tok is not None and set(ed.kwargs.keys()) == {'k'} and ed.kwargs['k'] is tok and ed.model is model
        arg = [1, tok.n if ok else 999]
        if slot in ('on_exception', 'finalize'):
            err = None if ed.error is None else classify_exc(ed.error)
    else:
        tok = args[0] if len(args) == 1 and isinstance(args[0], Token) else None
        ok = tok is not None and set(kwargs.keys()) == {'k'} and kwargs['k'] is tok
        arg = [0, tok.n if ok else 999]
    world.items.append([flat.SLOT[slot], cb, model.c09_mid, flat.state_int(model), arg, opt(err), bool(ret), []])
    if exn is not None:
        raise make_exc(exn)
    return bool(ret)


class PModel(object):
    """picklable model: callbacks are attributes resolved on demand (nothing unpicklable is stored anywhere)"""

    def __init__(self, mid, world):
        self.c09_mid, self.c09_world = mid, world

    def __getattr__(self, name):
        if name.startswith('cb__'):
            _, slot, cb = name.split('__')
            return functools.partial(_precord, self, slot, int(cb))
        raise AttributeError(name)


def run_pickle_on(case, cls, flags, backend):
    is_async = bool(flags[3])
    runner = Runner(is_async)
    try:
        world = PWorld(case['env'], case['machine']['send'])
        ids = [k for k, _ in case['models']]
        init = dict((k, s) for k, s in case['models'])
        new = ids[-1]
        models = dict((k, PModel(k, world)) for k in ids[:-1])
        c2 = dict(case)
        machine, _ = flat.build_machine(c2, NameWorld(), cls=cls, model=[models[k] for k in ids[:-1]],
                                        extra_kwargs=dict(queued=queued_arg(case, flags), **class_kwargs(flags, backend)))
        for k in ids[:-1]:
            machine.set_state('s%d' % init[k], models[k])
        # the round trip: from here on only the restored objects are used
        machine, models, world = pickle.loads(pickle.dumps((machine, models, world)))
        models[new] = PModel(new, world)

        def state(k):
            return flat.state_int(models[k]) if 'state' in models[k].__dict__ else init[k]
        out, free = [], 1
        for op in case['ops']:
            world.items = []
            if op[0] == 'trig':
                _, k, kind, e, a = op
                tok = flat.Token(a)
                name = 'e%d' % e
                try:
                    if kind == 0:
                        r = runner.call(lambda: models[k].trigger(name, tok, k=tok))
                    else:
                        r = runner.call(lambda: getattr(models[k], name)(tok, k=tok))
                    res = [0, bool(r)]
                except BaseException as ex:  # noqa
                    res = [1, classify_exc(ex)]
                out.append([world.items, res, [[i, state(i)] for i in ids]])
            else:
                try:
                    if op[0] == 'add':
                        machine.add_model(models[op[1]])
                    else:
                        machine.remove_model(models[op[1]])
                except BaseException as ex:  # noqa — reconfiguring must not fail on any class
                    out.append([world.items, [1, ['op-raised', op[0], type(ex).__name__]], [[i, state(i)] for i in ids]])
            free = free and _lock_free(machine, flags)
        return out, free
    finally:
        runner.close()


def run_reconf_on(case, cls, flags, backend):
    is_async = bool(flags[3])
    runner = Runner(is_async)
    try:
        world = (AWorld if is_async else CWorld)(case['env'], case['machine']['send'])
        world.state_of = flat.state_int
        world.perform = lambda a, item: None

        async def noop(a, item):
            return None
        world.aperform = noop
        c2 = dict(case)
        c2['history'] = []
        if case.get('ctor'):
            machine, model = build_ctor(case, world, cls, dict(queued=False, **class_kwargs(flags, backend)))
        else:
            machine, model = flat.build_machine(c2, world, cls=cls,
                                                extra_kwargs=dict(queued=False, **class_kwargs(flags, backend)))
        world.model_ids[id(model)] = case.get('model', 0)
        world.current_model = model
        out, free = [], 1
        for op in case['ops']:
            world.items = []
            if op[0] == 'trig':
                _, k, e, a = op
                tok = flat.Token(a)
                name = 'e%d' % e
                try:
                    if k == 0:
                        r = runner.call(lambda: model.trigger(name, tok, k=tok))
                    else:
                        r = runner.call(lambda: getattr(model, name)(tok, k=tok))
                    res = [0, bool(r)]
                except BaseException as ex:  # noqa
                    res = [1, classify_exc(ex)]
                out.append([world.items, res, flat.state_int(model)])
            elif op[0] == 'setignore':
                machine.ignore_invalid_triggers = bool(op[1])
            else:
                _, e, src, dst = op
                kw = {}
                if src is not None:
                    kw['source'] = 's%d' % src
                if dst is not None:
                    kw['dest'] = 's%d' % dst
                try:
                    machine.remove_transition('e%d' % e, **kw)
                except BaseException as ex:  # noqa — reconfiguring must not fail on any class
                    out.append([world.items, [1, ['op-raised', 'remove_transition', type(ex).__name__]],
                                flat.state_int(model)])
            free = free and _lock_free(machine, flags)
        return out, free
    finally:
        runner.close()


def run_dispatch_on(case, cls, flags, backend):
    """machine.dispatch(event, token, k=token) on several models; observation per call: every model's own callback
    sequence and state (the asyncio classes gather the models: the order ACROSS models is not compared) and the result"""
    is_async = bool(flags[3])
    runner = Runner(is_async)
    try:
        world = (AWorld if is_async else CWorld)(case['env'], case['machine']['send'])
        world.state_of = flat.state_int
        world.perform = lambda a, item: None

        async def noop(a, item):
            return None
        world.aperform = noop
        models = [flat.Model() for _ in case['models']]
        for (k, _), mod in zip(case['models'], models):
            world.model_ids[id(mod)] = k
        c2 = dict(case)
        c2['init'] = case['models'][0][1]
        machine, _ = flat.build_machine(c2, world, cls=cls, models=models,
                                        extra_kwargs=dict(queued=queued_arg(case, flags), **class_kwargs(flags, backend)))
        for (k, s0), mod in zip(case['models'], models):
            machine.set_state('s%d' % s0, mod)
        out, free = [], 1
        for (k_, e, a) in case['history']:
            tok = flat.Token(a)
            world.items = []
            try:
                r = runner.call(lambda: machine.dispatch('e%d' % e, tok, k=tok))
                res = [0, bool(r)]
            except BaseException as ex:  # noqa
                res = [1, classify_exc(ex)]
            views = [[k, [it for it in world.items if it[2] == k], flat.state_int(mod)]
                     for (k, _), mod in zip(case['models'], models)]
            stray = [it for it in world.items if it[2] not in [k for k, _ in case['models']]]
            out.append([views + ([['stray', stray, 0]] if stray else []), res])
            free = free and _lock_free(machine, flags)
        return out, free
    finally:
        runner.close()


def _classes():
    """[(label, class object, flags)] — every class by name and through the factory"""
    flat._import_transitions()
    import transitions
    import transitions.extensions as ext
    out = []
    for name, fl in CLASSES:
        by_name = transitions.Machine if name == 'Machine' else getattr(ext, name)
        out.append((name + '/name', by_name, fl))
        fac = ext.MachineFactory.get_predefined(graph=bool(fl[0]), nested=bool(fl[1]), locked=bool(fl[2]),
                                                asyncio=bool(fl[3]))
        out.append((name + '/factory', fac, fl))
    return out


def impl_factory(case):
    flat._import_transitions()
    from transitions.extensions import MachineFactory
    g, n, l, a = [bool(x) for x in case['flags']]
    try:
        cls = MachineFactory.get_predefined(graph=g, nested=n, locked=l, asyncio=a)
    except BaseException as ex:  # noqa
        return [1, [1, classify_exc(ex)]]
    return [1, [0, list(_features(cls))]]


def _first_diff(a, b, path=''):
    if isinstance(a, list) and isinstance(b, list):
        for i, (x, y) in enumerate(zip(a, b)):
            d = _first_diff(x, y, '%s[%d]' % (path, i))
            if d:
                return d
        return None if len(a) == len(b) else '%s: length %d vs %d' % (path, len(a), len(b))
    return None if a == b else '%s: %r vs %r' % (path, a, b)


def _diff_path(a, b):
    d = _first_diff(a, b)
    return 'nowhere' if d is None else str(d).split(':')[0]


def run_all_classes(case, run_on):
    """base observation (Machine by name) and one verdict per (class, way, backend)"""
    classes = _classes()
    base, _ = run_on(case, classes[0][1], classes[0][2], None)
    base = name_exns(base) if case['sub'] != 'dispatch' else base
    inside = async_envelope(case, _base_items(case, base))
    async_ref = None
    verdicts = []
    for label, cls, fl in classes:
        for backend in (BACKENDS if fl[0] else [None]):
            lab = label if backend in (None, 'mermaid') and len(BACKENDS) == 1 else '%s@%s' % (label, backend)
            try:
                obs, free = run_on(case, cls, fl, backend)
                obs = name_exns(obs) if case['sub'] != 'dispatch' else obs
            except BaseException as ex:  # noqa — constructing/driving the class failed
                verdicts.append([lab, [0, 'driver: %s: %s' % (type(ex).__name__, ex), []], 0])
                continue
            if fl[3] and async_ref is None:
                async_ref = obs
            if fl[3] and not inside:
                v = 2 if obs == async_ref else [0, 'vs AsyncMachine ' + str(_first_diff(async_ref, obs)), obs]
            else:
                v = 1 if obs == base else [0, 'vs Machine at ' + _diff_path(base, obs), obs]
            verdicts.append([lab, v, 1 if free else 0])
    return [1, base, verdicts]


def impl_c09(case):
    if case['sub'] == 'factory':
        return impl_factory(case)
    if case['sub'] == 'queue':
        return run_all_classes(case, run_queue_on)
    if case['sub'] == 'dispatch':
        return run_all_classes(case, run_dispatch_on)
    if case['sub'] == 'pickle':
        return run_all_classes(case, run_pickle_on)
    if case['sub'] == 'reconf':
        return run_all_classes(case, run_reconf_on)
    return run_all_classes(case, run_flat_on)


def labels():
    out = []
    for name, fl in CLASSES:
        for way in ('name', 'factory'):
            for backend in (BACKENDS if fl[0] else [None]):
                lab = '%s/%s' % (name, way)
                out.append((lab if backend in (None, 'mermaid') and len(BACKENDS) == 1 else '%s@%s' % (lab, backend), fl))
    return out


# ------------------------------------------------------------------ canonical form
def canon(case, obs):
    """model side: [1, [flat variant, hierarchical variant]] -> [1, base, expected verdicts];
    implementation side: already canonical"""
    if isinstance(obs, dict) or not isinstance(obs, list) or not obs or obs[0] != 1:
        return obs
    if case['sub'] == 'factory':
        return obs
    if len(obs) == 3:
        return obs                       # implementation side
    variants = obs[1]
    if case['sub'] == 'dispatch':
        vs = [canon_dispatch(case, v) for v in variants]
        if vs[1] != vs[0]:
            return [1, ['model-variants-differ', vs[0], vs[1]], []]
        inside = async_envelope(case, _base_items(case, vs[0]))
        return [1, vs[0], [[lab, (2 if (fl[3] and not inside) else 1), 1] for lab, fl in labels()]]
    if case['sub'] == 'queue':
        vs = [canon_queue_steps(v) for v in variants]
    elif case['sub'] == 'pickle' and case.get('queued', 0):
        vs = [[(st if not isinstance(st, list) else st[:3]) for st in canon_queue_steps(v)] for v in variants]
    elif flat_via_queue(case):
        vs = [[(st if not isinstance(st, list) else [st[0], st[1], st[2][0][1]]) for st in canon_queue_steps(v)]
              for v in variants]
    else:
        vs = variants
    vs = [name_exns(v) for v in vs]
    base = vs[0]
    inside = async_envelope(case, _base_items(case, base))
    if vs[1] != base:
        if case['sub'] != 'reconf' or not inside:
            # C09_hsm_flat says this cannot happen on well-formed cases with known event names
            return [1, ['model-variants-differ', vs[0], vs[1]], []]
        # unknown event names (also: names whose last transition was removed): outside the envelope of
        # C09_hsm_flat; the nested classes must then follow the hierarchical engine, the others Machine
        nested_v = [0, 'vs Machine at ' + _diff_path(base, vs[1]), vs[1]]
        return [1, base, [[lab, (nested_v if fl[1] else 1), 1] for lab, fl in labels()]]
    return [1, base, [[lab, (2 if (fl[3] and not inside) else 1), 1] for lab, fl in labels()]]


def in_envelope(case):
    if case['sub'] == 'factory':
        return True
    m = case['machine']
    regs = {s for s, _ in m['states']}
    return all(t['dst'] is None or t['dst'] in regs for _, ts in m['events'] for t in ts)


def _failed_check(it):
    return (it[0] == 2 and not it[6]) or (it[0] == 3 and it[6])


def _dispatch_refused_then_accepted(step):
    """an earlier-registered model refused the event (nothing of a transition ran) and a later one executed one"""
    acc = [any(4 <= it[0] <= 10 for it in view[1]) for view in step[0]]
    return any((not acc[i]) and any(acc[i + 1:]) for i in range(len(acc)))


def nontrivial(case, obs):
    if case['sub'] == 'factory' or not isinstance(obs, list) or len(obs) != 3 or obs[0] != 1:
        return False
    base, verdicts = obs[1], obs[2]
    if not any(v == 1 for lab, v, _ in verdicts if 'Async' in lab):
        return False
    if case['sub'] == 'queue':
        return any(isinstance(s, list) and len(s) >= 5 and (len(s[4]) >= 2 or s[1][0] == 1) for s in base)
    if case['sub'] == 'dispatch':
        return any(_dispatch_refused_then_accepted(step) for step in base)
    if case['sub'] == 'pickle':
        # a model registered after the round trip, or a removed one, executed a transition / ran callbacks
        special = {case['models'][-1][0]} | {op[1] for op in case['ops'] if op[0] == 'remove'}
        return any(it[2] in special and it[0] >= 4 for step in base for it in step[0])
    for items, res, st in base:
        if (res == [0, True] and any(_failed_check(it) for it in items)) or res[0] == 1:
            return True
    return False


def stats(case, obs, dist):
    def inc(k, n=1):
        dist[k] = dist.get(k, 0) + n
    inc('sub_' + case['sub'] + ('_' + case['stream'] if case.get('stream') else ''))
    if case['sub'] == 'factory':
        if isinstance(obs, list) and len(obs) == 2 and isinstance(obs[1], list):
            inc('factory_' + ('ValueError' if obs[1][0] == 1 else 'class'))
        return
    if not isinstance(obs, list) or len(obs) != 3:
        inc('undecodable')
        return
    base, verdicts = obs[1], obs[2]
    inc('queued_mode_%s' % {0: 'False', 1: 'True', 2: 'model(async)/True(sync)'}[case.get('queued', 1 if case['sub'] == 'queue' else 0)])
    if case['sub'] == 'reconf':
        inc('reconf_cases_where_nested_classes_follow_the_hierarchical_engine_on_unknown_names',
            1 if any(isinstance(v, list) and 'Hierarchical' in lab for lab, v, _ in verdicts) else 0)
        inc('reconf_calls_with_unknown_name', sum(1 for op in case['ops'] if op[0] == 'trig' and op[2] == UNKNOWN_EVENT))
        for mode in ('src', 'dst', 'both', 'none'):
            inc('reconf_remove_transition_filter_' + mode,
                sum(1 for op in case['ops'] if op[0] == 'remove' and
                    {(True, False): 'src', (False, True): 'dst', (True, True): 'both', (False, False): 'none'}[
                        (op[2] is not None, op[3] is not None)] == mode))
        # a call of the reconfigured trigger from the source a dest-filtered removal applied to
        st, filt, hit, k = case['init'], {}, 0, 0
        for op in case['ops']:
            if op[0] == 'remove':
                if op[3] is not None:
                    filt.setdefault(op[1], set()).add(op[2])
            elif op[0] == 'trig':
                if k < len(base):
                    srcs = filt.get(op[2], set())
                    if srcs and (st in srcs or None in srcs):
                        hit += 1
                    st = base[k][2]
                k += 1
        inc('reconf_calls_of_a_dest_filtered_trigger_from_the_filtered_source', hit)
        if case.get('ctor'):
            # calls answered False / raising after the machine flag was changed, in a state that snapshot the old flag
            after, n_calls, k = False, 0, 0
            st = case['init']
            for op in case['ops']:
                if op[0] == 'setignore':
                    after = True
                elif op[0] == 'trig':
                    if after and k < len(base) and st in case['ctor']['omit'] and not base[k][0]:
                        n_calls += 1
                    if k < len(base):
                        st = base[k][2]
                    k += 1
            inc('ctor_item_free_calls_after_flag_change_in_a_state_without_own_flag', n_calls)
            inc('ctor_transitions_given_positionally', sum(len(ts) for _, ts in case['machine']['events']))
    inc('class_runs', len(verdicts))
    inc('class_runs_equal_to_Machine', sum(1 for _, v, _f in verdicts if v == 1))
    inc('async_runs_outside_async_envelope_equal_to_AsyncMachine', sum(1 for _, v, _f in verdicts if v == 2))
    inc('cases_inside_async_envelope', 1 if any(v == 1 for lab, v, _ in verdicts if 'Async' in lab) else 0)
    inc('locked_runs_all_locks_free', sum(1 for lab, _v, f in verdicts if 'Locked' in lab and f == 1))
    for step in base:
        if not isinstance(step, list):
            continue
        inc('base_calls')
        if case['sub'] == 'dispatch':
            inc('base_items', sum(len(v[1]) for v in step[0]))
            inc('dispatch_calls_earlier_model_refused_later_accepted', 1 if _dispatch_refused_then_accepted(step) else 0)
        else:
            inc('base_items', len(step[0]))
        res = step[1]
        if res[0] == 1:
            inc('base_calls_raising')
            inc('base_raised_%s' % res[1])
        elif res[1]:
            inc('base_calls_true')
        else:
            inc('base_calls_false')
        if case['sub'] == 'queue' and len(step) >= 5 and len(step[4]) >= 2:
            inc('base_calls_processing_2+_events')
    dist['diagram_backends_available'] = BACKENDS
    dist['diagram_backends_unavailable'] = MISSING_BACKENDS


def shrink_candidates(case):
    if case['sub'] == 'factory':
        return
    if case['sub'] == 'reconf':
        for i, op in enumerate(case['ops']):
            c = copy.deepcopy(case)
            del c['ops'][i]
            if any(o[0] == 'trig' for o in c['ops']):
                yield c
        for p in list(case['env'].get('bypos', {})):
            c = copy.deepcopy(case)
            del c['env']['bypos'][p]
            yield c
        return
    if case['sub'] == 'pickle':
        for i, op in enumerate(case['ops']):
            if op[0] == 'trig':
                c = copy.deepcopy(case)
                del c['ops'][i]
                yield c
        for p in list(case['env'].get('bypos', {})):
            c = copy.deepcopy(case)
            del c['env']['bypos'][p]
            yield c
        return
    gens = shrink_queue if case['sub'] == 'queue' else __import__('c01').shrink_candidates
    for c in gens(case):
        o = c.get('ordered')
        if o:                       # keep the model's expansion consistent with the add_ordered_transitions call
            exp = expand_ordered(o, [x for x, _ in c['machine']['states']], c['init'])
            evs = [[e, ts] for e, ts in c['machine']['events']]
            if not any(e == o['event'] for e, _ in evs):
                continue
            c['machine']['events'] = [[e, (exp if e == o['event'] else ts)] for e, ts in evs]
            used = {e for e, _ in c['machine']['events']}
            if any(h[1] not in used for h in c['history']):
                continue
        yield c
    if case['sub'] == 'dispatch':
        for i in range(len(case['models'])):
            if len(case['models']) > 2:
                c = copy.deepcopy(case)
                del c['models'][i]
                yield c
    if case['sub'] != 'queue':
        for p in list(case['env'].get('bypos', {})):
            c = copy.deepcopy(case)
            del c['env']['bypos'][p]
            yield c


# ------------------------------------------------------------------ extra checks
def _impl_unqueued(case):
    """unqueued machines whose callbacks trigger events immediately (re-entrant): sync classes vs Machine.
    Returns [stale, rows]; stale = in the Machine run a callback of a stage BEFORE the state change re-entrantly
    changed the state of its own event's model (the class of KF-C09-1)."""
    flat._import_transitions()
    out = []
    ref = None
    stale = False
    for label, cls, fl in _classes():
        if fl[3]:
            continue
        try:
            obs, free, st = run_queue_on(case, cls, fl, BACKENDS[0] if fl[0] else None, queued=False)
        except BaseException as ex:  # noqa
            obs, free, st = ['driver', type(ex).__name__, str(ex)], 0, False
        if ref is None:
            ref, stale = obs, st
        out.append([label, obs == ref, bool(free), None if obs == ref else _first_diff(ref, obs), bool(fl[1])])
    return [stale, out]


KF1_TEXT = ('unqueued machine, a callback of a stage before the state change (prepare_event..before) re-entrantly '
            'triggers an event that changes the state of the same model: Machine then exits the transition\'s declared '
            'SOURCE (and keeps trying the candidates of the old state), the hierarchical classes exit the state that '
            'is ACTIVE now (and stop offering the event to a state that is no longer active)')


def unknown_event_probe():
    """why the property says 'every event name the machine knows': trigger('nope') with finalize_event set"""
    flat._import_transitions()
    import transitions
    import transitions.extensions as ext
    out = {}
    for cls in (transitions.Machine, ext.HierarchicalMachine):
        log = []

        class M(object):
            pass
        m = M()
        cls(model=m, states=['A', 'B'], initial='A', auto_transitions=False, transitions=[['go', 'A', 'B']],
            finalize_event=[lambda: log.append('finalize')])
        try:
            m.trigger('nope')
            exc = None
        except BaseException as ex:  # noqa
            exc = type(ex).__name__
        out[cls.__name__] = dict(raised=exc, callbacks=log)
    return out


def kf1_witness():
    """minimal reproducer of KF-C09-1, through the public API"""
    flat._import_transitions()
    import transitions
    import transitions.extensions as ext

    def run(cls, **kw):
        log = []

        class M(object):
            pass
        m = M()

        def before_go():
            log.append('before_go')
            m.side()
        states = [dict(name=n, on_exit=[(lambda n=n: log.append('exit_' + n))],
                       on_enter=[(lambda n=n: log.append('enter_' + n))]) for n in 'ABC']
        mach = cls(model=m, states=states, initial='A', auto_transitions=False, **kw)
        mach.add_transition('go', 'A', 'C', before=before_go)
        mach.add_transition('side', 'A', 'B')
        r = m.go()
        return log, bool(r), m.state
    base = run(transitions.Machine)
    return dict(Machine=base, LockedMachine=run(ext.LockedMachine),
                GraphMachine=run(ext.GraphMachine, graph_engine=BACKENDS[0]),
                HierarchicalMachine=run(ext.HierarchicalMachine),
                LockedHierarchicalMachine=run(ext.LockedHierarchicalMachine))



RAW_VALUES = [True, False, 1, 0, 2, -1, 1.0, 0.0, 0.5, 'busy', '', None, [], [0], (), (1,), {}, {'a': 1}]


def raw_condition_values():
    """conditions / unless callbacks that return something that is not a bool (Condition.check compares the returned
    value with ==, it does not convert it): finite sweep over RAW_VALUES x {conditions, unless} x {plain function,
    coroutine function on the asyncio classes} x send_event on all 12 classes; (result, state) must be Machine's."""
    rows = {}
    for label, cls, fl in _classes():
        if not label.endswith('/name'):
            continue
        is_async = bool(fl[3])
        for kind in ('conditions', 'unless'):
            for vi, val in enumerate(RAW_VALUES):
                for send in (False, True):
                    for coro in ((False, True) if is_async else (False,)):
                        runner = Runner(is_async)
                        try:
                            if coro:
                                async def cb(*a, **k):
                                    return val
                            else:
                                def cb(*a, **k):
                                    return val
                            kw = dict(states=['A', 'B', 'C'], initial='A', auto_transitions=False, send_event=send,
                                      transitions=[dict(trigger='go', source='A', dest='B', **{kind: [cb]}),
                                                   dict(trigger='go', source='A', dest='C')])
                            kw.update(class_kwargs(fl, BACKENDS[0] if BACKENDS else None))
                            m = cls(**kw)
                            try:
                                r = runner.call(lambda: m.go())
                                res = [0, bool(r)]
                            except BaseException as ex:  # noqa
                                res = [1, classify_exc(ex)]
                            rows[(label, kind, vi, send, coro)] = (res, str(m.state))
                        finally:
                            runner.close()
    bad = []
    for (label, kind, vi, send, coro), got in sorted(rows.items(), key=repr):
        want = rows[('Machine/name', kind, vi, send, False)]
        if got != want:
            bad.append(dict(cls=label, kind=kind, value=repr(RAW_VALUES[vi]), send_event=send, coroutine=coro,
                            got=got, Machine=want))
    return len(rows), bad


def extra_checks(tier, seed):
    res = []
    # 1. the reflected table: 12 classes, names resolve, by-name class IS the factory class
    rows, extra = reflect_class_map()
    flat._import_transitions()
    import transitions
    import transitions.extensions as ext
    bad = []
    for name, fl in CLASSES:
        by_name = transitions.Machine if name == 'Machine' else getattr(ext, name, None)
        fac = ext.MachineFactory.get_predefined(graph=bool(fl[0]), nested=bool(fl[1]), locked=bool(fl[2]), asyncio=bool(fl[3]))
        if by_name is None or fac is not by_name or _features(by_name) != fl:
            bad.append(name)
    present = sum(1 for _, v in rows if v is not None)
    ok = not bad and present == 12 and not extra
    res.append(('factory_table', ok,
                dict(entries=present, absent=[list(k) for k, v in rows if v is None], extra_keys=extra,
                     by_name_is_factory_class=not bad, mismatching=bad),
                dict(kind='oracle', failing_clause='factory table: %r present=%d extra=%r' % (bad, present, extra),
                     case=dict(sub='factory-table'))))
    # 2. diagram backends
    res.append(('diagram_backends', True, dict(available=BACKENDS, unavailable=MISSING_BACKENDS,
                                               note='only the Mermaid backend is available in this sandbox'
                                               if BACKENDS == ['mermaid'] else 'see lists'), {}))
    # 3. unqueued re-entrant programs, sync classes only, class vs Machine (no Coq engine for re-entrancy)
    n = 150 if tier == 'quick' else 2000
    cases = []
    for i in range(n):
        rng = random.Random('C09u-%d-%d' % (seed, i))
        c = gen_queue(rng)
        # bound the recursion: only few triggering positions
        bp = c['env']['bypos']
        trig = [p for p in sorted(bp, key=int) if bp[p][2]]
        for p in trig[2:]:
            bp[p] = (bp[p][0], bp[p][1], [])
        cases.append(c)
    outs = F.run_impl('c09', '_impl_unqueued', cases)
    failing = None
    runs = stale_cases = kf_hits = 0
    for c, o in zip(cases, outs):
        if isinstance(o, dict):
            failing = (c, o)
            break
        stale, rows = o
        stale_cases += 1 if stale else 0
        differs = False
        for label, same, free, diff, nested in rows:
            runs += 1
            if same and free:
                continue
            if stale and nested and free:
                differs = True              # KF-C09-1: exactly the class described in KF1_TEXT
                continue
            failing = (c, dict(label=label, diff=diff, free=free, stale=stale))
            break
        kf_hits += 1 if differs else 0
        if failing:
            break
    res.append(('unqueued_reentrant_sync_classes', failing is None,
                dict(cases=n, class_runs=runs, cases_in_class_KF_C09_1=stale_cases,
                     of_which_nested_classes_differ_from_Machine=kf_hits,
                     rule='outside the class of KF-C09-1 all 8 sync classes (by name and through the factory) equal '
                          'Machine; inside it the 4 non-nested sync classes still equal Machine'),
                dict(kind='counterexample', case=failing[0] if failing else None, detail=failing[1] if failing else None,
                     theorem='corr_C09 (unqueued re-entrant: class = Machine)')))
    # 3b. condition callbacks returning non-bool values
    nrows, badrows = raw_condition_values()
    res.append(('raw_condition_values', not badrows, dict(runs=nrows, values=[repr(v) for v in RAW_VALUES], differing=len(badrows)),
                dict(kind='counterexample', case=dict(sub='raw-condition-values'), detail=badrows[:5],
                     theorem='corr_C09 (class = Machine when a condition returns a non-bool value)')))
    # 4. the boundary of the envelope stated in C09_hsm_flat (informational): an event name the machine does not know
    res.append(('unknown_event_boundary', True, unknown_event_probe(), {}))
    # 5. the known finding, minimal witness
    w = kf1_witness()
    flat_ok = w['LockedMachine'] == w['Machine'] and w['GraphMachine'] == w['Machine']
    reproduced = w['HierarchicalMachine'] != w['Machine']
    res.append(('KF-C09-1_witness', flat_ok,
                dict(reproduced=reproduced, text=KF1_TEXT, Machine=w['Machine'][0], HierarchicalMachine=w['HierarchicalMachine'][0],
                     LockedHierarchicalMachine=w['LockedHierarchicalMachine'][0]),
                dict(kind='counterexample', case=dict(sub='kf1-witness'), detail=w,
                     theorem='corr_C09 (non-nested sync classes = Machine on the KF-C09-1 witness)')))
    if reproduced and not any(k.get('id') == 'KF-C09-1' for k in F.load_known_findings(PID)):
        print('KNOWN-FINDING: property=C09 KF-C09-1: ' + KF1_TEXT)    # until known_findings.json lists it
    return res
