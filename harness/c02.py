"""C02 — HSM configurations stay well-formed, enter/exit stay balanced.  Real hierarchical classes vs the Coq
engine (Hsm.v; Props/C02.v proves balance/order/freshness of every transition resolution and that configurations
change only through resolutions), plus an implementation-only oracle that replays the enter/exit trace."""
import copy
import random
import flat
import hsm

PID = 'C02'
KIND = 3
IMPL = ('hsm', 'impl_hsm')
COUNTS = dict(quick=800, thorough=40000)
CLASSES = ['HierarchicalMachine', 'LockedHierarchicalMachine', 'HierarchicalGraphMachine']
RULE = ('cases = random state trees (depth <= 3 quick / 4 thorough, <= 3 children, exclusive and parallel compounds, '
        'parallel inside parallel, initial present/absent/nested) with a single active root state, 1-3 events with '
        '1-4 transitions each declared globally or inside a state definition (wildcard-free, reflexive, internal, '
        'cross-branch, to ancestors/descendants), every state with enter and exit callbacks (so the enter/exit '
        'trace is complete), histories of 1-6 events, 3 hierarchical classes. Oracle on the implementation alone: '
        'replaying exit/enter items over the set E of entered-and-not-exited states (initially the nodes of the '
        'initial configuration): no exit outside E, no enter inside E, children exited before parents, parents '
        'entered before children, E == active states + ancestors after every call, every name registered, no '
        'active leaf declares an initial substate, no state entered and then exited within one event (the last '
        'clause is KF-C02-1 for parallel machines). Non-trivial: a call executed >= 1 transition exiting or '
        'entering >= 2 states; distinct by case hash.')
ASSUMPTIONS = ['callbacks do not raise and do not trigger (C04/C05)', 'async classes: C07',
               "'initial' lists naming a strict subset of a compound's children are outside the envelope (D16)"]
THEOREMS = ['C02_balanced', 'C02_exit_only_active', 'C02_enter_only_inactive', 'C02_exit_order', 'C02_enter_order',
            'C02_only_resolutions', 'C02_uniq_invariant', 'C02_registered', 'C02_initial_closure', 'C02_closed_invariant',
            'C02_initial_config_closed', 'C02_reentrant_invariants', 'C02_queued_invariants', 'C02_narrow_ok_invariant',
            'C02_initial_config_pfull', 'C02_history_balanced', 'C02_balanced_reachable', 'C02_every_event_threads_E', 'C02_full_par_delineates', 'C02_example']


def gen(rng, i, tier):
    c = hsm.gen_case(rng, max_depth=(4 if tier == 'thorough' and i % 3 == 0 else 3), p_parallel=(0.8 if i % 5 == 2 else 0.35), max_children=(4 if i % 5 == 2 else 3), p_enum=0.2, p_sep=0.15, p_queued=0.15, p_reuse=0.15, p_build=0.3,
                     p_subset=(0.7 if i % 10 == 7 else 0.0))
    if i % 5 == 2:
        # two regions of an active parallel state declare the event, the first one's transition moves the other region
        hsm.add_cross_region(c, rng)
    n = [0]
    for p, d in hsm.all_defs(c['machine']):
        for key in ('enter', 'exit'):
            if not d[key]:
                n[0] += 1
                d[key] = [6000 + n[0]]
    c['env'] = dict(default=c['env']['default'], bypos=dict(c['env']['bypos']), bycb=dict(c['env']['bycb']))
    c['history'] = [(0, e, a) for (k, e, a) in c['history']]
    c['cls'] = CLASSES[i % len(CLASSES)]
    return c


def canon(case, obs):
    return hsm.canon_queued(case, obs)


def enc(case):
    return hsm.enc_case(case)


def _has_parallel(case):
    return any(len(d['initial']) >= 2 for _, d in hsm.all_defs(case['machine']))


def _has_subset_parallel(case):
    return any(2 <= len(d['initial']) < len(d['children']) for _, d in hsm.all_defs(case['machine']))


def classify_known(case, mo, io):
    if mo is None and _has_parallel(case):
        msg = oracle(case, io)
        if msg and 'entered and afterwards exited within one event' in msg:
            return 'KF-C02-1'
        if msg and _has_subset_parallel(case) and ('exited while not active' in msg or 'entered before its parent' in msg
                                                   or 'differ from the active states' in msg):
            return 'KF-C02-2'
    return None


def oracle(case, obs, only_kf=False):
    if not isinstance(obs, list) or obs[0] != 1:
        return None
    defs = {tuple(p): d for p, d in hsm.all_defs(case['machine'])}
    ent, exi = {}, {}
    for p, d in defs.items():
        ent[d['enter'][0]] = p
        exi[d['exit'][0]] = p
    E = set(hsm.forest_nodes(obs[1]))
    kf = None
    for si, (items, res, cfg) in enumerate(obs[2]):
        entered_now = set()
        for it in items:
            slot, cb = it[0], it[1]
            if slot == 6 and cb in exi:
                p = exi[cb]
                if p not in E:
                    return 'call %d: state %r exited while not active' % (si, p)
                if any(q != p and q[:len(p)] == p for q in E):
                    return 'call %d: state %r exited before its active descendants' % (si, p)
                if p in entered_now and kf is None:
                    kf = 'call %d: state %r entered and afterwards exited within one event' % (si, p)
                E.discard(p)
            elif slot == 7 and cb in ent:
                p = ent[cb]
                if p in E:
                    return 'call %d: state %r entered while active' % (si, p)
                if len(p) > 1 and p[:-1] not in E:
                    return 'call %d: state %r entered before its parent' % (si, p)
                E.add(p)
                entered_now.add(p)
        nodes = set(hsm.forest_nodes(cfg))
        if any(p not in defs for p in nodes):
            return 'call %d: the model state names an unregistered state' % si
        if res[0] == 0 and E != nodes:
            return 'call %d: entered-and-not-exited states %r differ from the active states %r' % (si, sorted(E), sorted(nodes))
        leaves = [p for p in nodes if not any(q != p and q[:len(p)] == p for q in nodes)]
        for p in leaves:
            if defs[p]['initial'] and defs[p]['children']:
                return 'call %d: active state %r declares an initial substate that was not entered' % (si, p)
    if only_kf:
        return kf
    return kf


def nontrivial(case, obs):
    if not isinstance(obs, list) or obs[0] != 1:
        return False
    for items, res, cfg in obs[2]:
        n = sum(1 for it in items if it[0] in (6, 7))
        if res == [0, True] and n >= 2:
            return True
    return False


def stats(case, obs, dist):
    if case.get('enum'):
        dist['cases_with_enum_named_states'] = dist.get('cases_with_enum_named_states', 0) + 1
    if case.get('sep'):
        dist['cases_with_custom_separator'] = dist.get('cases_with_custom_separator', 0) + 1
    if case.get('queued'):
        dist['cases_on_queued_machines'] = dist.get('cases_on_queued_machines', 0) + 1
    if not isinstance(obs, list) or obs[0] != 1:
        return
    for items, res, cfg in obs[2]:
        dist['calls'] = dist.get('calls', 0) + 1
        if res == [0, True]:
            dist['executed'] = dist.get('executed', 0) + 1
        nodes = hsm.forest_nodes(cfg)
        if nodes and len(nodes) > max(len(p) for p in nodes):
            dist['calls_ending_in_parallel_configuration'] = dist.get('calls_ending_in_parallel_configuration', 0) + 1
        dist['exit_enter_items'] = dist.get('exit_enter_items', 0) + sum(1 for it in items if it[0] in (6, 7))
    dist['cls_' + case['cls']] = dist.get('cls_' + case['cls'], 0) + 1
    if _has_parallel(case):
        dist['cases_with_parallel_states'] = dist.get('cases_with_parallel_states', 0) + 1


def extra_checks(tier, seed):
    """the asynchronous hierarchical classes with callbacks that really suspend: the COMPLETION order of exit /
    enter / on_final callbacks must be the synchronous model's order (children exited before parents, parents
    entered before children, nothing of a later state before an earlier state's callback completed)"""
    n = 250 if tier == 'quick' else 8000
    cases, bad = hsm.async_stream('C02a', seed, n, p_parallel=0.35)
    # the same with events declared in several scopes (inside state definitions and globally): a state entered by an
    # inner scope's transition must not be exited again by an enclosing scope's transition of the same event
    cases2, bad2 = hsm.async_stream('C02m', seed, n // 2, p_parallel=0.35, single_scope=False, max_events=2)
    cases, bad = cases + cases2, bad + bad2
    detail = dict(cases=len(cases), disagreements=len(bad))
    out = []
    if bad:
        c, m, i = bad[0]
        out.append(('async_suspending_callbacks', False, detail,
                    dict(kind='counterexample', stream='HierarchicalAsyncMachine with suspending callbacks', case=c, model_obs=m, impl_obs=i)))
    else:
        out.append(('async_suspending_callbacks', True, detail, {}))
    n2 = 150 if tier == 'quick' else 4000
    cases, bad, marks = hsm.async_nested_stream('C02n', seed, n2, p_parallel=0.3)
    detail = dict(cases=len(cases), disagreements=len(bad), nested_internal_events_processed=marks)
    if bad:
        c, m, i = bad[0]
        out.append(('async_callbacks_awaiting_internal_events', False, detail,
                    dict(kind='counterexample', stream='HierarchicalAsyncMachine, enter/exit callbacks awaiting an internal event',
                         case=c, model_obs=m, impl_obs=i,
                         note='model_obs is the run of the twin case without the awaited internal events (markers removed on both sides)')))
    else:
        out.append(('async_callbacks_awaiting_internal_events', True, detail, {}))
    # "issued one at a time or through the queue": queued hierarchical machines whose callbacks trigger further events
    import c05
    name, ok, detail, rep = c05.hsm_queue_stream(tier, seed + 1000)
    out.append(('events_through_the_queue', ok, detail, rep))
    # unqueued machines whose callbacks trigger events: processed inside the callback, on the configuration of that moment
    n3 = 300 if tier == 'quick' else 8000
    cases, bad, nested = hsm.reent_stream('C02r', seed, n3, p_parallel=0.3)
    detail = dict(cases=len(cases), disagreements=len(bad), nested_triggers_processed=nested)
    if bad:
        c, m, i = bad[0]
        out.append(('unqueued_callbacks_that_trigger', False, detail,
                    dict(kind='counterexample', stream='unqueued hierarchical machine, callbacks that trigger events (HReent.v)',
                         case=c, model_obs=m, impl_obs=i)))
    else:
        out.append(('unqueued_callbacks_that_trigger', True, detail, {}))
    # the systematic (setup, source, destination, scope) catalogue of C03 under this property's replaying oracle
    # (E = entered-and-not-exited set, order of exits / enters, nothing entered while active ...): every state of the
    # catalogue has its own enter and exit callback
    import random
    import framework as F
    allc = hsm.systematic_cases()
    cases = allc if tier != 'quick' else random.Random('C02s-%d' % seed).sample(allc, 2000)
    for k, c in enumerate(cases):
        c['cls'] = CLASSES[k % len(CLASSES)]
    io = F.run_impl('hsm', 'impl_hsm', cases)
    fail = None
    known = 0
    for c, i in zip(cases, io):
        msg = oracle(c, i) if isinstance(i, list) else 'harness error: %r' % (i,)
        if msg:
            if classify_known(c, None, i):
                known += 1
            elif fail is None:
                fail = (c, i, msg)
    detail = dict(catalogue=len(allc), cases=len(cases), known_finding_cases=known, oracle_failures=0 if fail is None else 1)
    if fail:
        c, i, msg = fail
        out.append(('systematic_catalogue_oracle', False, detail,
                    dict(kind='oracle', stream='systematic catalogue', case=c, impl_obs=i, failing_clause=msg)))
    else:
        out.append(('systematic_catalogue_oracle', True, detail, {}))
    return out
