"""C11, hierarchical reconfiguration stream (harness oracle, no Coq model of nested scopes).

Hierarchical machines whose events are declared at several levels — at the machine, inside state
definitions through the 'transitions' key of nested state dicts, and through an embedded machine —
followed by histories of add_transition / remove_transition (with and without source / dest filters,
partial removals) / add_states / add_model / set_state.  After the constructor and after every
operation the real machine is compared with an independent reference relation kept by the harness
(a multiset of (event, global source, global dest) updated with the documented meaning of the
operations) and every clause of the property is evaluated:

  R  the transitions found by walking machine.events / state.events of every scope are the reference's
  H  for every registered model and every event name: model.<event> is the machine's helper iff the
     event has a transition anywhere in the machine (any scope) iff model.trigger(<event>) does not
     raise AttributeError; may_<event> exists whenever the event does and answers False (never raises)
     when the event has no transition left
  E  calling the event method is equivalent to trigger(name) (result or exception type, state after)
  T  set(get_triggers(s)) = events with a transition from s or one of its ancestors in any scope
  G  get_transitions(e) is empty iff the event has no transition anywhere

The implementation returns [1, failures] where failures is the list of violated clauses (as strings);
the extracted model answers [1, []] ("no clause is violated"), so a failure is both a disagreement and
an oracle failure.  Segment names are unique in the whole tree so that local and global names cannot
be confused (remove_transition compares a shortened global path with local names)."""
import copy

from flat import _import_transitions

import os
REUSE_NAMES = os.environ.get('VERIF_C11_REUSE', '1') == '1'      # default on since /repo fix D54
SEGS = ['A', 'B', 'C', 'D', 'E', 'F', 'G', 'H', 'K', 'x', 'y', 'z', 'u', 'v', 'w', '1', '2']
EVENTS = ['go', 'run', 'stop', 'next', 'back']


def sx_str(s):
    return [ord(ch) for ch in s]


def un_str(l):
    return ''.join(chr(x) for x in l)


# ------------------------------------------------------------------ generation
class G(object):
    def __init__(self, rng, malformed):
        self.r = rng
        self.malformed = malformed
        self.free = list(SEGS)
        rng.shuffle(self.free)

    def name(self, top, sib=None):
        if REUSE_NAMES and not top and sib is not None:
            # the same child names in every branch (unique among siblings only)
            cand = [n for n in ('x', 'y', 'z', '1') if n not in sib]
            return self.r.choice(cand) if cand else None
        for i, n in enumerate(self.free):
            if not (top and n[0].isdigit()):
                return self.free.pop(i)
        return None

    def siblings(self, depth, allow_embed):
        out = []
        for _ in range(self.r.randint(1, 3)):
            x = self.node(depth, allow_embed, set(k['name'] for k in out))
            if x:
                out.append(x)
        return out

    def node(self, depth, allow_embed=True, sib=None):
        r = self.r
        n = self.name(depth == 0, sib)
        if n is None:
            return None
        nd = dict(name=n, kids=[], trans=[], embed=None)
        if depth < 2 and r.random() < (0.6 if depth == 0 else 0.4):
            if allow_embed and r.random() < 0.3:
                states = self.siblings(depth + 1, False)
                if states:
                    nd['embed'] = dict(states=states, trans=self.local_trans(states))
            else:
                nd['kids'] = self.siblings(depth + 1, allow_embed)
                if nd['kids'] and r.random() < 0.6:
                    nd['trans'] = self.local_trans(nd['kids'])
        return nd

    def local_trans(self, kids):
        """transitions declared inside a scope: names relative to it"""
        r = self.r
        loc = local_paths(kids)
        out = []
        for _ in range(r.randint(1, 3)):
            dst = r.choice(loc) if r.random() < 0.85 else None
            out.append([r.choice(EVENTS), list(r.choice(loc)), None if dst is None else list(dst)])
        return out


def children_of(nd):
    return nd['embed']['states'] if nd['embed'] else nd['kids']


def scope_trans(nd):
    return nd['embed']['trans'] if nd['embed'] else nd['trans']


def local_paths(nodes, pre=()):
    out = []
    for nd in nodes:
        out.append(list(pre) + [nd['name']])
        out += local_paths(children_of(nd), tuple(pre) + (nd['name'],))
    return out


def leaves(nodes, pre=()):
    out = []
    for nd in nodes:
        ch = children_of(nd)
        if ch:
            out += leaves(ch, tuple(pre) + (nd['name'],))
        else:
            out.append(list(pre) + [nd['name']])
    return out


def declared(nodes, pre=()):
    """reference triples of the transitions declared inside the nodes"""
    out = []
    for nd in nodes:
        p = list(pre) + [nd['name']]
        for t, s, d in scope_trans(nd):
            out.append([t, p + s, None if d is None else p + d, list(p)])
        out += declared(children_of(nd), tuple(p))
    return out


def gen(rng, malformed):
    r = rng
    g = G(r, malformed)
    sep = r.choice(['_', '_', '.', '/'])
    forest = [x for x in (g.node(0) for _ in range(r.randint(2, 3))) if x]
    paths = local_paths(forest)
    root_trans = []
    for _ in range(r.randint(0, 4)):
        dst = r.choice(paths) if r.random() < 0.85 else None
        root_trans.append([r.choice(EVENTS), r.choice(paths), dst])
    ops = []
    mids = []
    used_events = sorted(set(t[0] for t in root_trans + declared(forest))) or ['go']
    own_pool = ['foo', 'is_' + forest[0]['name'] + 'x', 'bar']
    for _ in range(r.randint(3, 9)):
        x = r.random()
        lv = leaves(forest)
        if not mids or x < 0.15:
            mid = len(mids) + 1
            cls, inst = [], []
            if r.random() < 0.3:
                cls.append([r.choice(own_pool), ['pre', mid * 10]])
            if r.random() < (0.5 if malformed else 0.06):
                (cls if r.random() < 0.5 else inst).append([r.choice(EVENTS), ['pre', mid * 10 + 1]])
            mids.append(mid)
            ops.append(['model', dict(id=mid, cls=cls, inst=inst), r.choice(lv)])
        elif x < 0.5:
            trig = r.choice(used_events) if r.random() < 0.85 else r.choice(EVENTS)
            rel = [t for t in current_relation(forest, root_trans, ops) if t[0] == trig]
            y = r.random()
            src = dst = None
            if rel and y < 0.75:
                t = r.choice(rel)
                z = r.random()
                if z < 0.45:
                    src = t[1]
                elif z < 0.65:
                    dst = t[2]
                else:
                    src, dst = t[1], t[2]
            elif y < 0.9:
                src = r.choice(paths) if r.random() < 0.6 else None
                dst = r.choice(paths) if r.random() < 0.4 else None
            ops.append(['rmt', trig, src, dst])
        elif x < 0.68:
            z = r.random()
            if z < 0.15:
                src = None
            elif z < 0.8:
                src = [r.choice(paths)]
            else:
                src = r.sample(paths, min(len(paths), 2))
            dst = r.choice(paths) if r.random() < 0.85 else None
            trig = r.choice(EVENTS)
            used_events = sorted(set(used_events) | {trig})
            ops.append(['addt', trig, src, dst])
        elif x < 0.8:
            if r.random() < 0.5:
                nd = g.node(0)
                if nd:
                    forest_now = forest_after(forest, ops)
                    ops.append(['states', 'top', nd])
                    paths = local_paths(forest_after(forest, ops))
                    used_events = sorted(set(used_events) | set(t[0] for t in declared([nd])))
            else:
                parent = r.choice(paths)
                sib = set(k['name'] for k in children_of(find_node(forest_after(forest, ops), parent)))
                n = g.name(False, sib)
                if n and n not in sib:
                    ops.append(['states', 'child', parent, n])
                    paths = local_paths(forest_after(forest, ops))
        elif x < 0.9:
            ops.append(['set', r.choice(mids), r.choice(lv)])
        else:
            ops.append(['call', r.choice(mids), r.choice(used_events)])
    return dict(kind='hrec', cfg=dict(sep=sep, auto=r.random() < 0.35), forest=forest, root_trans=root_trans,
                ops=ops, malformed=malformed)


def forest_after(forest, ops):
    f = copy.deepcopy(forest)
    for op in ops:
        if op[0] == 'states':
            apply_states(f, op)
    return f


def find_node(forest, path):
    nodes = forest
    nd = None
    for seg in path:
        nd = [x for x in nodes if x['name'] == seg][0]
        nodes = children_of(nd)
    return nd


def apply_states(forest, op):
    if op[1] == 'top':
        forest.append(copy.deepcopy(op[2]))
    else:
        nd = find_node(forest, op[2])
        new = dict(name=op[3], kids=[], trans=[], embed=None)
        (nd['embed']['states'] if nd['embed'] else nd['kids']).append(new)


def current_relation(forest, root_trans, ops):
    """the reference relation after the given operations: list of [event, source path, dest path | None]"""
    f = copy.deepcopy(forest)
    rel = [[t, list(s), None if d is None else list(d), []] for t, s, d in root_trans] + declared(f)
    for op in ops:
        rel = ref_step(f, rel, op)
    return rel


def ref_step(forest, rel, op):
    k = op[0]
    if k == 'addt':
        _, trig, src, dst = op
        sources = [[nd['name']] for nd in forest] if src is None else src
        return rel + [[trig, list(s), None if dst is None else list(dst), []] for s in sources]
    if k == 'rmt':
        _, trig, src, dst = op
        return [t for t in rel if not (t[0] == trig and (src is None or t[1] == src) and (dst is None or t[2] == dst))]
    if k == 'states':
        apply_states(forest, op)
        if op[1] == 'top':
            return rel + declared([op[2]])
    return rel


SEG_IDS = {n: i for i, n in enumerate(SEGS)}
EVENT_IDS = {n: i for i, n in enumerate(EVENTS)}


def h_case(forest, rel):
    """the machine (state definitions with the events declared inside them, the machine's own events) of the
    reference relation, and all state paths, in the format of NamingHIO.v"""
    import c11_hsm

    def pid(p):
        return [SEG_IDS[x] for x in p]

    def events_at(scope):
        k = len(scope)
        return c11_hsm.group_events([(EVENT_IDS[t], pid(s[k:]), None if d is None else pid(d[k:]))
                                     for t, s, d, sc in rel if sc == list(scope)])

    def defs(nodes, pre):
        return [(SEG_IDS[nd['name']], events_at(pre + [nd['name']]), defs(children_of(nd), pre + [nd['name']])) for nd in nodes]
    return [c11_hsm.h_machine_sx(defs(forest, []), events_at([])), [pid(p) for p in local_paths(forest)], []]


def enc(case):
    f = copy.deepcopy(case['forest'])
    rel = current_relation(f, case['root_trans'], [])
    steps = [h_case(f, rel)]
    for op in case['ops']:
        rel = ref_step(f, rel, op)
        steps.append(h_case(f, rel))
    return [2, steps]


# ------------------------------------------------------------------ implementation + oracle
def build_states(nodes, HM, sep, auto, probe=None):
    """probe: an `after` callback put on every transition declared inside a state definition (it runs while the
    naming scope of that state is active)"""
    def tr(t, s, x):
        d = dict(trigger=t, source=sep.join(s), dest=None if x is None else sep.join(x))
        if probe is not None:
            d['after'] = probe
        return d
    out = []
    for nd in nodes:
        if nd['embed']:
            em = HM(model=None, states=build_states(nd['embed']['states'], HM, sep, auto, probe),
                    initial=nd['embed']['states'][0]['name'], auto_transitions=auto,
                    transitions=[tr(t, s, d) for t, s, d in nd['embed']['trans']])
            out.append({'name': nd['name'], 'children': em})
        elif nd['kids'] or nd['trans']:
            d = {'name': nd['name'], 'children': build_states(nd['kids'], HM, sep, auto, probe)}
            if nd['trans']:
                d['transitions'] = [tr(t, s, x) for t, s, x in nd['trans']]
            out.append(d)
        else:
            out.append(nd['name'])
    return out


def walk(machine_or_state, sep, pre=()):
    """(event, global source, global dest) of every transition of every scope, through the public
    attributes .events / .states of the machine and of its nested states"""
    out = []
    for name, ev in machine_or_state.events.items():
        for src, ts in ev.transitions.items():
            for t in ts:
                out.append((name, tuple(pre) + tuple(t.source.split(sep)),
                            None if t.dest is None else tuple(pre) + tuple(t.dest.split(sep)), tuple(pre), t))
    for sname, st in machine_or_state.states.items():
        out += walk(st, sep, tuple(pre) + (sname,))
    return out


_MISSING = object()


def impl(case):
    import c11
    tr = _import_transitions()
    from transitions.extensions.nesting import HierarchicalMachine, NestedState
    cfg = case['cfg']
    sep = cfg['sep']

    class NS(NestedState):
        separator = sep

    class HM(HierarchicalMachine):
        state_cls = NS

    forest = copy.deepcopy(case['forest'])
    rel = [[t, list(s), None if d is None else list(d), []] for t, s, d in case['root_trans']] + declared(forest)
    first_leaf = leaves(forest)[0]
    inside = []        # answers of the machine's queries taken INSIDE callbacks of transitions declared in nested states
    budget = [0]

    def snapshot():
        ps = local_paths(forest)
        return ([sorted(set(machine.get_triggers(sep.join(p)))) for p in ps],
                [sorted((t.source, str(t.dest)) for t in machine.get_transitions(e)) for e in EVENTS],
                [sorted((t.source, str(t.dest)) for t in machine.get_transitions(source=sep.join(p))) for p in ps])

    def probe(*a, **k):
        if budget[0] > 0:
            budget[0] -= 1
            try:
                inside.append(snapshot())
            except Exception as e:   # noqa
                inside.append(('raised', type(e).__name__))
    machine = HM(model=None, states=build_states(forest, HM, sep, cfg['auto'], probe), initial=sep.join(first_leaf),
                 transitions=[[t, sep.join(s), None if d is None else sep.join(d)] for t, s, d in case['root_trans']],
                 auto_transitions=cfg['auto'])
    objs = c11.Objects()
    models = []
    descs = {}
    universe = set(EVENTS)
    failures = []
    trig_obs = []

    def fail(step, msg):
        if len(failures) < 3:
            failures.append('step %d: %s' % (step, msg))

    def outcome(model, f, *args):
        saved = model.state
        r = c11.res_of(f, *args)
        after = model.state
        if after != saved:
            machine.set_state(saved, model)
        return [r, after if isinstance(after, str) else sorted(map(str, after))]

    def check(step):
        del inside[:]
        budget[0] = 3
        got = walk(machine, sep)
        user = sorted((t[:3] for t in got if not t[0].startswith('to_')), key=repr)
        want = sorted(((t, tuple(s), None if d is None else tuple(d)) for t, s, d, _sc in rel), key=repr)
        if user != want:
            extra = [t for t in user if t not in want]
            missing = [t for t in want if t not in user]
            fail(step, 'R transitions of the machine differ from the reference: unexpected %r, missing %r' % (extra[:2], missing[:2]))
        alive = set(t[0] for t in got)
        names = sorted(universe | alive)
        hnames = [e for e in names if not e.startswith('to_')]   # to_ helpers: see the static nested stream
        all_paths = local_paths(forest)
        trig_obs.append([1, [], [sorted(set(EVENT_IDS[e] for e in machine.get_triggers(sep.join(p)) if e in EVENT_IDS))
                                 for p in all_paths]])
        # T, G
        for p in all_paths:
            s = sep.join(p)
            tg = set(machine.get_triggers(s))
            anc = set(tuple(p[:i]) for i in range(1, len(p) + 1))
            wt = set(t[0] for t in got if t[1] in anc)
            # KF-C11-3: an event declared inside a state (nested scope) from a strict ancestor of s is not
            # listed; exactly those (state, event) pairs are tolerated, everything else must be exact
            sure = set(t[0] for t in got if t[1] in anc and (t[3] == () or t[1] == tuple(p)))
            if not (sure <= tg <= wt):
                fail(step, 'T get_triggers(%s) lists %r, transitions exist for %r' % (s, sorted(tg), sorted(wt)))
        for e in names:
            if bool(machine.get_transitions(e)) != (e in alive):
                fail(step, 'G get_transitions(%s) %s although the event has %s transition' % (
                    e, 'is empty' if e in alive else 'is not empty', 'a' if e in alive else 'no'))
        # Q: get_transitions(trigger, source, dest) returns exactly the matching transitions, for every combination
        # of a source and a destination that occur for the event (top-level / nested x top-level / nested, declared at
        # the machine or inside a state; matching and non-matching pairs), with one filter and with both
        glob = dict((id(t[4]), (t[1], t[2])) for t in got)
        for e in sorted(set(t[0] for t in got if not t[0].startswith('to_'))):
            mine = [t for t in got if t[0] == e]
            srcs = [None] + sorted(set(t[1] for t in mine))
            dsts = [None] + sorted(set(t[2] for t in mine if t[2] is not None))
            for qs in srcs:
                for qd in dsts:
                    kw = {}
                    if qs is not None:
                        kw['source'] = sep.join(qs)
                    if qd is not None:
                        kw['dest'] = sep.join(qd)
                    res = machine.get_transitions(e, **kw)
                    have = sorted((glob.get(id(x), ('?', x.source, x.dest)) for x in res), key=repr)
                    want_q = sorted(((t[1], t[2]) for t in mine if (qs is None or t[1] == qs) and (qd is None or t[2] == qd)),
                                    key=repr)
                    if have != want_q:
                        fail(step, 'Q get_transitions(%s, source=%s, dest=%s) returns %r, matching are %r' % (
                            e, kw.get('source', '*'), kw.get('dest', '*'), have[:3], want_q[:3]))
        # H, E
        for mid, model in models:
            own = set(n for n, v in descs[mid]['cls'] + descs[mid]['inst'] if v[0] in ('pre', 'own'))
            for e in hnames:
                if e in own:
                    if c11.kind_of(objs, mid, model, e, 'state')[0] != 0:
                        fail(step, 'H model %d: own attribute %s was overwritten or removed' % (mid, e))
                    continue
                kd = c11.kind_of(objs, mid, model, e, 'state')
                has = kd == [2]
                if has != (e in alive):
                    fail(step, 'H model %d: event method %s %s although the event has %s transition in the machine' % (
                        mid, e, 'exists' if has else 'is missing', 'a' if e in alive else 'no'))
                tres = outcome(model, model.trigger, e)
                if (tres[0] == [1, 1]) != (e not in alive):
                    fail(step, 'H model %d: trigger(%r) -> %r although the event has %s transition' % (
                        mid, e, tres[0], 'a' if e in alive else 'no'))
                if has:
                    mres = outcome(model, getattr(model, e))
                    if mres != tres:
                        fail(step, 'E model %d: %s() -> %r but trigger(%r) -> %r' % (mid, e, mres, e, tres))
                mk = c11.kind_of(objs, mid, model, 'may_' + e, 'state')
                if e in alive and mk != [2] and ('may_' + e) not in own:
                    fail(step, 'H model %d: may_%s is missing although the event exists' % (mid, e))
                if mk == [2]:
                    mr = outcome(model, getattr(model, 'may_' + e))
                    if mr[0][0] != 0:
                        fail(step, 'H model %d: may_%s() -> %r' % (mid, e, mr[0]))
                    elif e not in alive and mr[0] != [0, False]:
                        fail(step, 'H model %d: may_%s() is True although the event has no transition' % (mid, e))
                    elif e in alive and mr[0][1] != (tres[0] == [0, True]):
                        fail(step, 'H model %d: may_%s() -> %r but trigger -> %r' % (mid, e, mr[0], tres[0]))

    def check_scoped(step):
        """S: get_triggers / get_transitions answer the same inside a callback of a transition declared inside a
        state (a naming scope is active) as outside"""
        check(step)
        budget[0] = 0
        if inside:
            outside = snapshot()
            for snap in inside:
                if snap != outside:
                    if isinstance(snap, tuple) and snap and snap[0] == 'raised':
                        fail(step, 'S a query inside a nested callback raised %s' % snap[1])
                    else:
                        k = [i for i in range(3) if snap[i] != outside[i]][0]
                        j = [i for i, (a, b) in enumerate(zip(snap[k], outside[k])) if a != b]
                        fail(step, 'S %s answers %r inside a callback of a transition declared in a nested state, %r outside' % (
                            ('get_triggers', 'get_transitions(event)', 'get_transitions(source)')[k],
                            snap[k][j[0]] if j else snap[k], outside[k][j[0]] if j else outside[k]))
                    break

    check_scoped(0)
    for idx, op in enumerate(case['ops']):
        k = op[0]
        raised = None
        alive_before = set(t[0] for t in rel)
        try:
            if k == 'model':
                obj = objs.get(op[1])
                descs[op[1]['id']] = op[1]
                machine.add_model(obj, initial=sep.join(op[2]))
                if obj in machine.models and all(i != op[1]['id'] for i, _ in models):
                    models.append((op[1]['id'], obj))
            elif k == 'addt':
                _, trig, src, dst = op
                source = '*' if src is None else ([sep.join(s) for s in src] if len(src) > 1 else sep.join(src[0]))
                machine.add_transition(trig, source, None if dst is None else sep.join(dst))
                universe.add(trig)
            elif k == 'rmt':
                kw = {}
                if op[2] is not None:
                    kw['source'] = sep.join(op[2])
                if op[3] is not None:
                    kw['dest'] = sep.join(op[3])
                machine.remove_transition(op[1], **kw)
            elif k == 'states':
                if op[1] == 'top':
                    machine.add_states(build_states([op[2]], HM, sep, cfg['auto'], probe))
                else:
                    machine.add_states(sep.join(op[2] + [op[3]]))
            elif k == 'set':
                obj = dict(models).get(op[1])
                if obj is not None:
                    machine.set_state(sep.join(op[2]), obj)
            elif k == 'call':
                obj = dict(models).get(op[1])
                if obj is not None and hasattr(obj, op[2]):
                    try:
                        getattr(obj, op[2])()
                    except (tr.MachineError, AttributeError):
                        pass
        except Exception as e:   # noqa
            raised = e
        rel = ref_step(forest, rel, op)
        if k == 'rmt' and op[1] not in alive_before and isinstance(raised, AttributeError):
            raised = None      # removing from an event that has no transition: delattr finds no helper
        if raised is not None:
            fail(idx + 1, 'operation %s raised %s' % (k, type(raised).__name__))
        check_scoped(idx + 1)
    return [1, [sx_str(f) for f in failures], trig_obs]


def canon(case, obs):
    if isinstance(obs, list) and len(obs) == 3 and obs[0] == 1:
        return [1, obs[1], [[h[0], h[1], [sorted(set(l)) for l in h[2]]] if isinstance(h, list) and h[0] == 1 else h
                            for h in obs[2]]]
    return obs


def kf_remove_class(case):
    """KF-C11-1 on hierarchical machines: remove_transition(t) where a model of the case defines t itself"""
    own = set()
    for op in case['ops']:
        if op[0] == 'model':
            own |= set(n for n, v in op[1]['cls'] + op[1]['inst'] if v[0] in ('pre', 'own'))
    return any(op[0] == 'rmt' and op[1] in own for op in case['ops'])


def only_kf1_failures(case, obs):
    """every reported failure is the KF-C11-1 pattern about a name that a model defines itself and that a
    remove_transition of the case targets: the removal raised AttributeError, the model's own attribute
    went away, or another model kept / lost the event method because the removal stopped half-way"""
    import re
    if not kf_remove_class(case) or not isinstance(obs, list) or len(obs) < 2 or not obs[1]:
        return False
    own = set()
    for op in case['ops']:
        if op[0] == 'model':
            own |= set(n for n, v in op[1]['cls'] + op[1]['inst'] if v[0] in ('pre', 'own'))
    clash = set(op[1] for op in case['ops'] if op[0] == 'rmt' and op[1] in own)
    for f in obs[1]:
        msg = un_str(f)
        m = re.match(r'step (\d+): operation rmt raised AttributeError$', msg)
        if m:
            op = case['ops'][int(m.group(1)) - 1]
            if op[0] == 'rmt' and op[1] in clash:
                continue
            return False
        m = re.match(r'step \d+: H model \d+: own attribute (\w+) was overwritten or removed$', msg)
        if m and m.group(1) in clash:
            continue
        m = re.match(r'step \d+: H model \d+: event method (\w+) (exists|is missing) although', msg)
        if m and m.group(1) in clash:
            continue
        return False
    return True


def in_envelope(case):
    return True


def oracle(case, obs):
    if obs[1]:
        return '; '.join(un_str(f) for f in obs[1])
    return None


def nontrivial(case, obs):
    has_nested = bool(declared(case['forest']))
    rm = [op for op in case['ops'] if op[0] == 'rmt']
    return has_nested and bool(rm) and any(op[0] == 'model' for op in case['ops'])


def stats(case, obs, dist):
    def bump(k, n=1):
        dist[k] = dist.get(k, 0) + n
    bump('hrec_sep_' + case['cfg']['sep'])
    if case['cfg']['auto']:
        bump('hrec_auto')
    bump('hrec_nested_declared', len(declared(case['forest'])))
    bump('hrec_embedded', sum(1 for p in local_paths(case['forest']) if find_node(case['forest'], p)['embed']))
    for op in case['ops']:
        bump('hrec_op_' + op[0])
        if op[0] == 'rmt':
            bump('hrec_rmt_%s%s' % ('s' if op[2] else '-', 'd' if op[3] else '-'))
    f = copy.deepcopy(case['forest'])
    rel = current_relation(f, case['root_trans'], [])
    for op in case['ops']:
        new = ref_step(f, rel, op)
        if op[0] == 'rmt':
            before = [t for t in rel if t[0] == op[1]]
            after = [t for t in new if t[0] == op[1]]
            if before and not after:
                bump('hrec_rmt_removes_event')
            elif len(after) < len(before):
                bump('hrec_rmt_partial')
            elif before:
                bump('hrec_rmt_no_match')
            else:
                bump('hrec_rmt_dead_event')
        rel = new
    if kf_remove_class(case):
        bump('kf_class_remove_clash_hsm')
