"""./check <Cxx> [--tier quick|thorough] [--replay file]
Generic driver: proof obligations + correspondence + verdict + evidence."""
import argparse
import importlib
import json
import os
import random
import sys
import time
import traceback

sys.path.insert(0, os.path.dirname(os.path.abspath(__file__)))
import framework as F  # noqa


def first_diff(a, b, path=''):
    if isinstance(a, (bool, int)) and isinstance(b, (bool, int)):
        return None if int(a) == int(b) else '%s: %r vs %r' % (path, a, b)
    if type(a) != type(b):
        return '%s: %r vs %r' % (path, a, b)
    if isinstance(a, list):
        for i, (x, y) in enumerate(zip(a, b)):
            d = first_diff(x, y, '%s[%d]' % (path, i))
            if d:
                return d
        if len(a) != len(b):
            return '%s: length %d vs %d (extra: %r)' % (path, len(a), len(b), (a[len(b):] or b[len(a):])[:2])
        return None
    if isinstance(a, dict):
        for k in sorted(set(a) | set(b)):
            if k not in a or k not in b:
                return '%s.%s: missing on one side' % (path, k)
            d = first_diff(a[k], b[k], '%s.%s' % (path, k))
            if d:
                return d
        return None
    return None if a == b else '%s: %r vs %r' % (path, a, b)


def main():
    ap = argparse.ArgumentParser()
    ap.add_argument('pid')
    ap.add_argument('--tier', default=os.environ.get('VERIF_TIER', 'quick'))
    ap.add_argument('--replay')
    ap.add_argument('--n', type=int)
    args = ap.parse_args()
    pid = args.pid.upper()
    tier = args.tier if args.tier in ('quick', 'thorough') else 'quick'
    seed = int(os.environ.get('VERIF_SEED', '0') or 0)
    t0 = time.time()
    mod = importlib.import_module(pid.lower())
    violations = []        # (replay_path, suffix)
    known_lines = []
    coverage = {}

    # ---------------------------------------------------------------- build + proofs
    ok, log = F.build(tier, getattr(mod, 'generated_hook', None), pid)
    forb = F.forbidden_scan()
    if ok:
        po = F.proof_obligations(pid, tier)
    else:
        po = dict(obligations=max(1, len(getattr(mod, 'THEOREMS', []))), discharged=0, names=[], log=log[-4000:],
                  checker_cmd='make -C coq -j16')
    proofs_ok = ok and not forb and po['discharged'] == po['obligations'] and po['obligations'] > 0
    coverage.update(obligations=max(1, po['obligations']), discharged=po['discharged'],
                    checker_cmd=po['checker_cmd'], trusted_base=F.TRUSTED_BASE + getattr(mod, 'TRUSTED_EXTRA', []),
                    theorems=po.get('names', []), forbidden_tokens=forb)
    if po.get('coqchk_tail'):
        coverage['coqchk'] = po['coqchk_tail'][-600:]

    if not ok:
        # without the model nothing can be compared: report the broken obligation
        rp = F.write_replay(pid, dict(kind='build', theorem='coq build / extraction', log=log[-3000:]))
        print('VIOLATION property=%s replay=%s no-failing-input-found' % (pid, rp))
        F.write_evidence(pid, tier, seed, dict(coverage, evaluations=0, distinct_nontrivial=0,
                                               rule='build failed', samples=[]),
                         getattr(mod, 'ASSUMPTIONS', []), time.time() - t0, 1)
        sys.exit(1)

    # ---------------------------------------------------------------- cases
    if args.replay:
        payload = json.load(open(args.replay))
        cases = [payload['case']] if 'case' in payload else []
    else:
        cases = list(F.load_corpus(pid))
        n = args.n or mod.COUNTS[tier]
        if hasattr(mod, 'gen_batch'):
            cases += mod.gen_batch(seed, n, tier)
        else:
            for i in range(n):
                rng = random.Random('%s-%d-%d' % (pid, seed, i))
                cases.append(mod.gen(rng, i, tier))

    enc = [mod.enc(c) for c in cases]
    try:
        mo = F.run_model(mod.KIND, enc)
        io = F.run_impl(mod.IMPL[0], mod.IMPL[1], cases)
    except Exception as e:  # cannot drive one side: broken correspondence, never silent
        rp = F.write_replay(pid, dict(kind='harness', correspondence='corr_' + pid, error=traceback.format_exc()[-3000:]))
        print('VIOLATION property=%s replay=%s no-failing-input-found' % (pid, rp))
        F.write_evidence(pid, tier, seed, dict(coverage, evaluations=len(cases), distinct_nontrivial=0,
                                               rule='harness failed', samples=[]),
                         getattr(mod, 'ASSUMPTIONS', []), time.time() - t0, 1)
        sys.exit(1)

    canon = getattr(mod, 'canon', lambda case, o: o)
    dist = {}
    seen = set()
    nontrivial = 0
    disagreements = []
    out_env = 0
    kf_hits = {}
    samples = []
    for c, m, i in zip(cases, mo, io):
        m, i = canon(c, m), canon(c, i)
        inenv = mod.in_envelope(c) if hasattr(mod, 'in_envelope') else True
        if not inenv:
            out_env += 1
        if hasattr(mod, 'stats'):
            mod.stats(c, i if not isinstance(i, dict) else m, dist)
        h = F.case_hash(c)
        if h not in seen:
            seen.add(h)
            if mod.nontrivial(c, m):
                nontrivial += 1
                if len(samples) < 2:
                    samples.append(dict(case=c, model_obs=m, impl_obs=i))
        if m != i:
            kf = mod.classify_known(c, m, i) if hasattr(mod, 'classify_known') else None
            if kf:
                kf_hits[kf] = kf_hits.get(kf, 0) + 1
                continue
            disagreements.append((c, m, i, inenv))

    # extra oracles evaluated on the implementation observation alone
    oracle_fail = []
    if hasattr(mod, 'oracle'):
        for c, i in zip(cases, io):
            if isinstance(i, dict):
                continue
            msg = mod.oracle(c, canon(c, i))
            if msg:
                kf = mod.classify_known(c, None, i) if hasattr(mod, 'classify_known') else None
                if kf:
                    kf_hits[kf] = kf_hits.get(kf, 0) + 1
                else:
                    oracle_fail.append((c, i, msg))

    if args.replay:
        for c, m, i in zip(cases, mo, io):
            print('model:', json.dumps(canon(c, m)))
            print('impl :', json.dumps(canon(c, i)))
            print('diff :', first_diff(canon(c, m), canon(c, i)))

    # ---------------------------------------------------------------- verdict
    for k in F.load_known_findings(pid):
        known_lines.append('KNOWN-FINDING: property=%s %s: %s' % (pid, k['id'], k['text']))

    def still_fails(cand):
        mm = F.run_model(mod.KIND, [mod.enc(cand)])[0]
        ii = F.run_impl(mod.IMPL[0], mod.IMPL[1], [cand])[0]
        return canon(cand, mm) != canon(cand, ii)

    extra = {}
    inenv_dis = [d for d in disagreements if d[3]]
    if oracle_fail:
        c, i, msg = oracle_fail[0]
        rp = F.write_replay(pid, dict(kind='oracle', case=c, impl_obs=i, failing_clause=msg))
        violations.append((rp, ''))
    elif inenv_dis:
        c, m, i, _ = inenv_dis[0]
        if hasattr(mod, 'shrink_candidates') and not args.replay:
            def sf(cand):
                return (not hasattr(mod, 'in_envelope') or mod.in_envelope(cand)) and still_fails(cand)
            c = F.shrink(c, sf, mod.shrink_candidates)
            m = canon(c, F.run_model(mod.KIND, [mod.enc(c)])[0])
            i = canon(c, F.run_impl(mod.IMPL[0], mod.IMPL[1], [c])[0])
        rp = F.write_replay(pid, dict(kind='counterexample', case=c, model_obs=m, impl_obs=i,
                                      first_difference=first_diff(m, i),
                                      theorem=getattr(mod, 'THEOREM_OF_DIFF', 'model = specification (Props/%s.v)' % pid)))
        violations.append((rp, ''))
    elif disagreements:
        c, m, i, _ = disagreements[0]
        rp = F.write_replay(pid, dict(kind='correspondence', correspondence='corr_' + pid, case=c, model_obs=m,
                                      impl_obs=i, first_difference=first_diff(m, i),
                                      note='outside the envelope of the theorems; no in-envelope case fails'))
        violations.append((rp, ' no-failing-input-found'))
    if not proofs_ok and not violations:
        rp = F.write_replay(pid, dict(kind='proof', theorem='Props/%s.v' % pid, forbidden=forb,
                                      detail={k: po.get(k) for k in ('names', 'closed', 'print_assumptions', 'axioms', 'rc')},
                                      log=po.get('log', '')[-3000:]))
        violations.append((rp, ' no-failing-input-found'))

    if hasattr(mod, 'extra_checks') and not args.replay:
        for name, okx, detail, replay_payload in mod.extra_checks(tier, seed):
            extra[name] = detail
            if not okx:
                rp = F.write_replay(pid, replay_payload)
                violations.append((rp, '' if replay_payload.get('kind') in ('counterexample', 'oracle') else ' no-failing-input-found'))

    # thorough tier: cross-check the extraction (OCaml driver output = vm_compute inside coqc) on a sample
    if tier == 'thorough' and not args.replay and os.environ.get('VERIF_NO_VMCHECK') != '1':
        try:
            k = min(40, len(enc))
            small = [(j, e) for j, e in enumerate(enc[:400]) if len(F.to_sx(e)) < 6000][:k]
            vm = F.run_model_vm(str(mod.KIND), [e for _, e in small], pid)
            bad_vm = [j for (j, _), v in zip(small, vm) if v != mo[j]]
            extra['extraction_vs_vm_compute'] = dict(cases=len(small), mismatches=len(bad_vm))
            if bad_vm or len(vm) != len(small):
                rp = F.write_replay(pid, dict(kind='extraction', correspondence='OCaml extraction vs vm_compute',
                                              case=cases[bad_vm[0]] if bad_vm else None, parsed=len(vm), expected=len(small)))
                violations.append((rp, ' no-failing-input-found'))
        except Exception as e:
            extra['extraction_vs_vm_compute'] = dict(error=str(e)[-400:])

    coverage.update(evaluations=len(cases), distinct_nontrivial=nontrivial, rule=mod.RULE,
                    samples=samples, traces_validated_against_impl=len(cases) - len(disagreements),
                    disagreements_checked=len(disagreements) + sum(kf_hits.values()),
                    known_findings_hit=kf_hits, out_of_envelope=out_env, distribution=dist, extra=extra,
                    exhaustive=False)
    F.write_evidence(pid, tier, seed, coverage, getattr(mod, 'ASSUMPTIONS', []), time.time() - t0, len(violations))
    for l in known_lines:
        print(l)
    for rp, suffix in violations:
        print('VIOLATION property=%s replay=%s%s' % (pid, rp, suffix))
    print('%s tier=%s cases=%d nontrivial=%d disagreements=%d theorems=%d/%d wall=%.1fs' % (
        pid, tier, len(cases), nontrivial, len(disagreements), po['discharged'], po['obligations'], time.time() - t0))
    sys.exit(1 if violations else 0)


if __name__ == '__main__':
    main()
