"""C07 — async machines match the synchronous semantics when awaited one at a time.

Flat cases (tag 0): the real AsyncMachine (queued False / True / 'model', 1-2 models) is driven with one
asyncio.run per history, one awaited trigger at a time; every recorder is registered as a plain function, an
`async def`, or an `async def` that awaits asyncio.sleep(0) once or twice; callbacks of queued machines await
further triggers.  The complete Start/End event sequence is compared with the Coq model Async.v (exactly), and —
up to stage_view — with the synchronous Machine driven on the same case and with the synchronous Coq engine.
Hierarchical cases (tag 1): HierarchicalAsyncMachine against the synchronous hierarchical Coq model (Hsm.v) up to
stage_view."""
import asyncio
import copy
import random

import flat
import hsm
from flat import SLOT, SLOTS, Token, opt

PID = 'C07'
KIND = 11
IMPL = ('c07', 'impl_c07')
COUNTS = dict(quick=2500, thorough=30000)
RULE = ('cases = (2/3) flat machines of the C01 generator x queued in {False, True, "model"} x 1-2 models x histories '
        'of 1-5 awaited calls (trigger(name) / event method / may_trigger, unknown events) x replies keyed by '
        '(event payload, callback): condition values, triggers awaited from callbacks of queued machines (processed '
        'later, FIFO; with queued=True and 2-3 models also events queued for other models followed by ONE remove_model call '
        'with a list of models), one raising callback (Exception/BaseException) in 1/4 of the cases; (1/3) hierarchical '
        'machines of the C03 generator (depth <= 3, parallel regions; half of them multi-scope: the same event declared '
        'inside state definitions and in enclosing scopes) on HierarchicalAsyncMachine, histories of 1-4 calls incl. '
        'may_trigger.  Every callback, condition and unless-check is independently a plain function, a coroutine function, '
        'a coroutine that suspends once or twice (asyncio.sleep(0)), or a PLAIN function returning a non-coroutine '
        'awaitable: an already resolved asyncio.Future, a pending Future resolved through loop.call_soon, an asyncio.Task '
        '(its coroutine suspending 0/1 times), an object with __await__ (yielding 0/2 times) - value/exception always from '
        'env; a stage containing a raising callback has no suspending callback.  On every implementation trace the stage '
        'discipline is checked with stages = registration lists (no callback starts while a callback of another list - e.g. '
        'the exit/enter/on_final list of another state - is still running; nothing is left running); extra stream: '
        'hierarchical machines (depth <= 3, parallel) with <= 1 callback per list, every callback suspending cb % 3 times '
        'and logging on COMPLETION, compared exactly with the synchronous Hsm model; extra stream: unqueued hierarchical '
        'machines whose callbacks (any stage, also of transitions declared inside nested state definitions) AWAIT further '
        'triggers, compared exactly with the re-entrant hierarchical model HReent.v (kind 19).  Non-trivial: some stage has >= 2 callbacks of which >= 1 suspends (Ends interleave), or '
        'a failed check is followed by further checks of the same candidate (the licensed difference), or >= 2 events '
        'were processed in one call; distinct by case hash.')
ASSUMPTIONS = ['asyncio: FIFO ready queue, gather() schedules its arguments in order, sleep(0) re-queues behind ready tasks '
               '(stated in Async.v; exercised, not proved)',
               'a raising and a suspending callback do not share a stage (DESIGN C07 envelope)',
               'queued=False: callbacks do not await triggers in the model-compared stream (an awaited trigger is a '
               'suspension of unknown length; compared implementation-to-implementation in extra_checks when the awaiting '
               'callback is the last of a non-suspending stage); queued="model": callbacks trigger only their own model',
               'HierarchicalAsyncMachine: AsyncHsm.v models the nested async engine awaited one trigger at a time without a '
               'queue layer (queued modes of the hierarchical class only change the returned value, masked) and, like Hsm.v, '
               'answers False after an exception swallowed by on_exception (masked: _mask_handled)']
THEOREMS = ['C07_flat', 'C07_flat_named', 'C07_flat_documented_order', 'C07_flat_raising', 'C07_raising_example',
            'C07_may', 'C07_awaited', 'C07_flat_sequence', 'C07_completed', 'C07_start_order', 'C07_cond_awaitable',
            'C07_cond_value', 'C07_example', 'C07_unknown_event', 'C07_flat_any_name', 'C07_unknown_event_example',
            'C07_raise_stage_refuted', 'C07_queue_refines', 'C07_queue_top_refines', 'C07_queue_shared',
            'C07_queue_fifo_once', 'C07_queue_raise_discards', 'C07_queue_top', 'C07_queue_deferred',
            'C07_queue_remove_exact', 'C07_queue_example', 'C07_nested', 'C07_nested_may', 'C07_nested_stage_starts',
            'C07_nested_cond_awaitable', 'C07_nested_example']
THEOREM_OF_DIFF = 'corr_C07: Async.v (flat) / AsyncHsm.v (hierarchical, exact Start/End events) and Hsm.v up to stage_view vs transitions.extensions.asyncio'

MODES = [False, True, 'model']


# ------------------------------------------------------------------ stages of a configuration
def flat_stage_lists(m):
    """every registration list of a flat machine; checks of a transition form one list"""
    out = []
    for key in ('prepare_event', 'before_sc', 'after_sc', 'finalize', 'on_exception', 'on_final'):
        out.append(('cbs', list(m[key])))
    for s, d in m['states']:
        out.append(('cbs', list(d['enter'])))
        out.append(('cbs', list(d['exit'])))
    for e, ts in m['events']:
        for t in ts:
            out.append(('cbs', list(t['prepare'])))
            out.append(('checks', [c for c, _ in t['conds']]))
            out.append(('cbs', list(t['before'])))
            out.append(('cbs', list(t['after'])))
    return [(k, l) for k, l in out if l]


def hsm_stage_lists(m):
    out = []
    for key in ('prepare_event', 'before_sc', 'after_sc', 'finalize', 'on_exception', 'on_final'):
        out.append(('cbs', list(m[key])))

    def evs(es):
        for e, ts in es:
            for t in ts:
                out.append(('cbs', list(t['prepare'])))
                out.append(('checks', [c for c, _ in t['conds']]))
                out.append(('cbs', list(t['before'])))
                out.append(('cbs', list(t['after'])))
    evs(m['events'])
    for p, d in hsm.all_defs(m):
        out.append(('cbs', list(d['enter'])))
        out.append(('cbs', list(d['exit'])))
        out.append(('cbs', list(d['onfinal'])))
        evs(d['events'])
    return [(k, l) for k, l in out if l]


def stage_lists(case):
    return hsm_stage_lists(case['machine']) if case['tag'] == 1 else flat_stage_lists(case['machine'])


def owner_map(case):
    """callback id -> (index of its list, kind, position, length)"""
    own = {}
    for i, (k, l) in enumerate(stage_lists(case)):
        for j, c in enumerate(l):
            own[c] = (i, k, j, len(l))
    return own


# ------------------------------------------------------------------ stage_view (python twin of Async.stage_view)
def check_failed(it):
    return (it[0] == SLOT['cond'] and not it[6]) or (it[0] == SLOT['unless'] and it[6])


def stage_view(events, own):
    """events: [[0, item...] | [1, slot, cb]] of one event -> the items a synchronous machine would log: Starts in
    order; within the checks of one candidate only up to and including the first that fails"""
    items = [ev[1:] for ev in events if ev[0] == 0]
    out = []
    i = 0
    while i < len(items):
        it = items[i]
        o = own.get(it[1])
        if o is not None and o[1] == 'checks':
            j = i
            run = []
            while j < len(items) and own.get(items[j][1], (None,))[0] == o[0] and \
                    (not run or own[items[j][1]][2] > own[run[-1][1]][2]):
                run.append(items[j])
                j += 1
            for x in run:
                out.append(x)
                if check_failed(x):
                    break
            i = j
        else:
            out.append(it)
            i += 1
    return out


# ------------------------------------------------------------------ generation
def _key(p, cb):
    return '%d,%d' % (p, cb)


def gen_flat(rng, i, nested_unqueued=False, may_crash=False):
    base = flat.gen_case(rng, malformed=(i % 13 == 12), hist_len=rng.randint(1, 5), may=(rng.random() < 0.3),
                         p_unknown=0.08)
    m = base['machine']
    ncb = 0
    for _, l in flat_stage_lists(m):
        ncb = max([ncb] + l)
    mode = 0 if nested_unqueued else rng.choice([0, 1, 2])
    if (mode != 0 or nested_unqueued) and not m['finalize']:
        ncb += 1
        m['finalize'] = [ncb]              # every processed event is visible
    ns, ne = len(m['states']), len(m['events'])
    nm = rng.choice([1, 1, 2, 3]) if mode == 1 else rng.choice([1, 1, 2])
    models = [(k, rng.randrange(ns)) for k in range(nm)]
    hist = [(rng.randrange(nm), k, e, a) for (k, e, a) in base['history']]
    crash_cb = None
    if may_crash:
        # directed: the first call is may_trigger of an event with candidates from the model's state (preferably >= 2);
        # a callback evaluated for the FIRST candidate (prepare / check, sometimes prepare_event) raises, on_exception
        # handlers are registered: the remaining candidates must still be inspected (Machine._can_trigger)
        if not m['on_exception']:
            ncb += 1
            m['on_exception'] = [ncb]
        s0 = models[0][1]
        opts = [(e, [t for t in ts if t['src'] == s0]) for e, ts in m['events']]
        opts = [(e, cs) for e, cs in opts if cs]
        multi = [x for x in opts if len(x[1]) >= 2]
        if opts:
            e, cs = rng.choice(multi or opts)
            first = cs[0]
            pool = first['prepare'] + [c for c, _ in first['conds']]
            if not pool:
                ncb += 1
                first['prepare'] = [ncb]
                pool = [ncb]
            if m['prepare_event'] and rng.random() < 0.15:
                pool = list(m['prepare_event'])
            crash_cb = rng.choice(pool)
            hist[0] = (0, 1, e, hist[0][3])
    checks = {c for _, ts in m['events'] for t in ts for c, _ in t['conds']}
    unless = {c for _, ts in m['events'] for t in ts for c, tg in t['conds'] if not tg}
    p_pass = 0.7

    def val(c):
        v = rng.random() < p_pass
        return (not v) if c in unless else v
    env = dict(default=rng.random() < 0.8, bycb={}, bykey={})
    for c in range(1, ncb + 1):
        if rng.random() < 0.5:
            env['bycb'][str(c)] = (val(c), None, [])
    payloads = [a for (_, _, _, a) in hist]
    nested = [1000 + 16 * j + k for j in range(4) for k in range(2)]
    for p in payloads + nested:
        for c in range(1, ncb + 1):
            if rng.random() < 0.25:
                env['bykey'][_key(p, c)] = (val(c), None, [])
    flavour = {str(c): rng.choice(FLAVOURS) for c in range(1, ncb + 1)}
    susp_key = {}
    # triggers awaited from callbacks (queued machines only; never from a check, never from a plain function)
    if (mode != 0 or nested_unqueued) and ncb:
        for p in [a for (_, k, _, a) in hist if k != 1] + nested[:4]:      # never while may_trigger runs
            if rng.random() < 0.45:
                for _ in range(rng.randint(1, 2)):
                    c = rng.randint(1, ncb)
                    if c in checks:
                        continue
                    if flavour[str(c)] not in ASYNC_DEF:
                        flavour[str(c)] = 1
                    cur_model = None
                    acts = []
                    for _ in range(rng.randint(1, 2)):
                        tm = rng.randrange(nm)
                        acts.append((0, tm, rng.randrange(ne)))
                    if mode == 1 and nm > 1 and rng.random() < 0.35:
                        # queued=True: events queued for other models, then remove_model of a LIST of models
                        for tm in range(nm):
                            if rng.random() < 0.7:
                                acts.append((0, tm, rng.randrange(ne)))
                        for tm in rng.sample(range(nm), rng.randint(1, nm)):
                            acts.append((1, tm))
                        if rng.random() < 0.3:
                            acts.append((0, rng.randrange(nm), rng.randrange(ne)))
                    old = env['bykey'].get(_key(p, c), (val(c), None, []))
                    env['bykey'][_key(p, c)] = (old[0], None, acts)
    case = dict(tag=0, machine=m, env=env, flavour=flavour, susp_key=susp_key, mode=mode, models=models,
                history=hist, cls='AsyncMachine')
    # a few per-invocation suspension counts
    for p in payloads:
        for c in range(1, ncb + 1):
            if flavour[str(c)] in ASYNC_DEF and rng.random() < 0.1:
                susp_key[_key(p, c)] = rng.randint(0, 3)
    if nested_unqueued:
        # queued=False: the awaited trigger is processed inside the callback.  Envelope: the awaiting callback is
        # the last of its stage and no callback of that stage suspends (else the siblings interleave with the
        # nested event, see KF-C07-3 probe)
        lists = stage_lists(case)
        own = owner_map(case)
        for key, (r, x, acts) in list(env['bykey'].items()):
            if not acts:
                continue
            p, c = (int(v) for v in key.split(','))
            del env['bykey'][key]
            if c not in own:
                continue
            lst = lists[own[c][0]][1]
            last = lst[-1]
            for d in lst:
                if susp_of_flavour(flavour[str(d)]) > 0:
                    flavour[str(d)] = 1
                susp_key[_key(p, d)] = 0
            flavour[str(last)] = 1
            old = env['bykey'].get(_key(p, last), (val(last), None, []))
            env['bykey'][_key(p, last)] = (old[0], None, old[2] + acts)
        for key in list(susp_key):
            p, c = (int(v) for v in key.split(','))
            if c in own and any(env['bykey'].get(_key(q, d), (0, 0, []))[2]
                                for d in lists[own[c][0]][1] for q in payloads + nested):
                susp_key[key] = 0
        # a callback that awaits a trigger never shares its stage with a suspending one, whatever the payload
        for key, (r, x, acts) in env['bykey'].items():
            if acts:
                p, c = (int(v) for v in key.split(','))
                for d in lists[own[c][0]][1]:
                    if susp_of_flavour(flavour[str(d)]) > 0:
                        flavour[str(d)] = 1
        for key in list(susp_key):
            p, c = (int(v) for v in key.split(','))
            if susp_of_flavour(flavour[str(c)]) == 0:
                susp_key[key] = 0
        return normalise_susp(case)
    # one raising callback
    if ncb and (crash_cb is not None or rng.random() < 0.25):
        p = hist[0][3] if crash_cb is not None else rng.choice(payloads)
        c = crash_cb if crash_cb is not None else rng.randint(1, ncb)
        old = env['bykey'].get(_key(p, c), (val(c), None, []))
        env['bykey'][_key(p, c)] = (old[0], (3 + rng.randrange(2), 1 + rng.randrange(3)), old[2])
        case['raise'] = [p, c]
        own = owner_map(case)
        if c in own:
            lst = stage_lists(case)[own[c][0]][1]
            for d in lst:                      # envelope: no suspending callback in the stage of a raising one
                if susp_of_flavour(flavour[str(d)]) > 0:
                    flavour[str(d)] = 1
                susp_key[_key(p, d)] = 0
    if mode == 2:
        fix_per_model(case)
    return normalise_susp(case)


def fix_per_model(case):
    """queued='model': a callback triggers only the model it serves.  Which model a payload serves is only known
    dynamically, so triggers are restricted to model 0 and every top-level call goes to model 0 as well."""
    case['history'] = [(0, k, e, a) for (_, k, e, a) in case['history']]
    for key, (r, x, acts) in list(case['env']['bykey'].items()):
        case['env']['bykey'][key] = (r, x, [(0, 0, a[2]) for a in acts])


def gen_hsm(rng, i):
    base = hsm.gen_case(rng, hist_len=rng.randint(1, 4), may=(rng.random() < 0.25), single_scope=(rng.random() < 0.5))
    base['env']['bypos'] = {}                 # position-free replies: the async machine evaluates more checks
    base['env']['bycb'] = {str(k): v for k, v in base['env']['bycb'].items()}
    case = dict(tag=1, machine=base['machine'], env=base['env'], model=0, init=base['init'], history=base['history'],
                cls='HierarchicalAsyncMachine', mode=rng.choice([0, 0, 1, 2]), susp_key={})
    ncb = 0
    lists = stage_lists(case)
    for _, l in lists:
        ncb = max([ncb] + l)
    flavour = {str(c): rng.choice(FLAVOURS) for c in range(1, ncb + 1)}
    case['flavour'] = flavour
    if lists and rng.random() < 0.2:
        k, l = rng.choice(lists)
        if k == 'cbs' or len(l) == 1:
            c = l[-1]                          # last of its stage: the synchronous machine stops at the same point
            old = case['env']['bycb'].get(str(c), (case['env']['default'], None, []))
            case['env']['bycb'][str(c)] = (old[0], (3 + rng.randrange(2), 1 + rng.randrange(3)), [])
            case['raise'] = [0, c]
            for d in l:
                if susp_of_flavour(flavour[str(d)]) > 0:
                    flavour[str(d)] = 1
    return case


def gen(rng, i, tier):
    if i % 10 == 7:
        return gen_flat(rng, i * 13 + 1, may_crash=True)      # never the malformed stream
    if i % 3 == 2:
        return gen_hsm(rng, i)
    return gen_flat(rng, i)


# ------------------------------------------------------------------ encoding
def enc_keyed(d, f):
    out = []
    for key, v in sorted(d.items(), key=lambda kv: tuple(int(x) for x in kv[0].split(','))):
        p, c = (int(x) for x in key.split(','))
        out.append([[p, c], f(v)])
    return out


def enc_aenv(env):
    return [bool(env.get('default', True)), enc_keyed(env.get('bykey', {}), flat.enc_reply),
            [[int(c), flat.enc_reply(r)] for c, r in sorted(env.get('bycb', {}).items(), key=lambda kv: int(kv[0]))]]


# how a recorder is registered (the value it yields always comes from env):
#  0 plain function                       1 async def                      2/3 async def awaiting sleep(0) once / twice
#  4 plain function returning an already resolved asyncio.Future           (awaiting it does not suspend)
#  5 plain function returning a pending Future resolved by loop.call_soon  (two trips through the ready queue)
#  6/7 plain function returning an asyncio.Task whose coroutine suspends 0 / 1 times (2 / 3 trips)
#  8/9 plain function returning an object with __await__ that yields 0 / 2 times
SUSP_OF_FLAVOUR = {0: 0, 1: 0, 2: 1, 3: 2, 4: 0, 5: 2, 6: 2, 7: 3, 8: 0, 9: 2}
FLAVOURS = [0, 0, 1, 1, 2, 2, 3, 4, 5, 6, 7, 8, 9]
ASYNC_DEF = (1, 2, 3)


def susp_of_flavour(f):
    return SUSP_OF_FLAVOUR[f]


def normalise_susp(case):
    """per-invocation suspension counts exist for `async def` recorders only"""
    sk = case.get('susp_key', {})
    for key in list(sk):
        c = key.split(',')[1]
        f = case['flavour'].get(c, 0)
        if f not in ASYNC_DEF:
            sk[key] = susp_of_flavour(f)
    return case


def enc(case):
    if case['tag'] == 1:
        c2 = dict(machine=case['machine'], env=case['env'], model=case.get('model', 0), init=case['init'],
                  history=case['history'])
        hsusp = [enc_keyed(case.get('susp_key', {}), int),
                 [[int(c), susp_of_flavour(f)] for c, f in sorted(case['flavour'].items(), key=lambda kv: int(kv[0]))]]
        return [1, hsm.enc_case(c2), enc_aenv(case['env']), hsusp]
    susp = [enc_keyed(case['susp_key'], int),
            [[int(c), susp_of_flavour(f)] for c, f in sorted(case['flavour'].items(), key=lambda kv: int(kv[0]))]]
    return [0, flat.enc_machine(case['machine']), enc_aenv(case['env']), susp, case['mode'],
            [[m, s] for m, s in case['models']], [[m, k, e, a] for m, k, e, a in case['history']]]


# ------------------------------------------------------------------ implementation side
class AWorld(flat.World):
    """replies keyed by (payload of the event served, callback); Start/End events; every recorder is a plain
    function or a coroutine function that performs its triggers, suspends, then raises or ends"""

    def __init__(self, case, asynchronous):
        super().__init__(case['env'], case['machine']['send'])
        self.case = case
        self.asynchronous = asynchronous
        self.events = []
        self.cur_payload = None
        self.collected = []
        self.perform = lambda a: self.collected.append(a)
        self.do_action = None          # coroutine function (async) / function (sync): (action, payload)

    def reply(self, cb):
        env = self.env
        r = env.get('bykey', {}).get(_key(self.cur_payload if self.cur_payload is not None else 0, cb))
        if r is not None:
            return r
        r = env.get('bycb', {}).get(str(cb))
        if r is not None:
            return r
        return (env.get('default', True), None, [])

    def susp(self, cb, payload):
        f = self.case['flavour'].get(str(cb), 0)
        k = self.case.get('susp_key', {}).get(_key(payload if payload is not None else 0, cb))
        if k is not None and f in ASYNC_DEF:
            return k
        return susp_of_flavour(f)

    def recorder(self, slot, cb, model_of_call=None):
        world = self
        base = super().recorder(slot, cb, model_of_call)
        flavour = self.case['flavour'].get(str(cb), 0) if self.asynchronous else 0

        def start(args, kwargs):
            tok = None
            if len(args) == 1 and not kwargs and type(args[0]).__name__.endswith('EventData'):
                ed = args[0]
                tok = ed.args[0] if len(ed.args) == 1 else None
            elif len(args) == 1:
                tok = args[0]
            payload = tok.n if isinstance(tok, Token) else None
            world.cur_payload = payload
            world.collected = []
            exc = None
            ret = None
            try:
                ret = base(*args, **kwargs)
            except BaseException as e:  # noqa
                exc = e
            item = world.items.pop()
            world.events.append([0] + item + [payload])
            return ret, exc, list(world.collected), payload

        if flavour == 0:
            def rec(*args, **kwargs):
                ret, exc, acts, payload = start(args, kwargs)
                try:
                    if not world.asynchronous:
                        for g in group_actions(acts):
                            if g[0][0] == 1:
                                world.do_remove(g, payload)
                            else:
                                world.do_action(g[0], payload)
                    if exc is not None:
                        raise exc
                except BaseException:
                    world.events.append([2, SLOT[slot], cb, payload])      # left by an exception (not compared)
                    raise
                world.events.append([1, SLOT[slot], cb, payload])
                return ret
        elif flavour >= 4:
            def rec(*args, **kwargs):
                # a PLAIN function that hands back a non-coroutine awaitable; End is logged when the awaitable
                # completes (the machine must await it and honour its value / exception)
                ret, exc, acts, payload = start(args, kwargs)
                loop = asyncio.get_running_loop()

                def log_end(*_):
                    world.events.append([1 if exc is None else 2, SLOT[slot], cb, payload])
                if flavour == 4:
                    fut = loop.create_future()
                    log_end()
                    if exc is not None:
                        fut.set_exception(exc)
                    else:
                        fut.set_result(ret)
                    return fut
                if flavour == 5:
                    fut = loop.create_future()
                    fut.add_done_callback(log_end)
                    if exc is not None:
                        loop.call_soon(fut.set_exception, exc)
                    else:
                        loop.call_soon(fut.set_result, ret)
                    return fut
                if flavour in (6, 7):
                    async def inner():
                        for _ in range(flavour - 6):
                            await asyncio.sleep(0)
                        if exc is not None:
                            raise exc
                        return ret
                    task = asyncio.ensure_future(inner())
                    task.add_done_callback(log_end)
                    return task

                class Awaitable(object):
                    def __await__(self_):
                        for _ in range(0 if flavour == 8 else 2):
                            yield from asyncio.sleep(0).__await__()
                        log_end()
                        if exc is not None:
                            raise exc
                        return ret
                return Awaitable()
        else:
            async def rec(*args, **kwargs):
                ret, exc, acts, payload = start(args, kwargs)
                try:
                    for g in group_actions(acts):
                        if g[0][0] == 1:
                            world.do_remove(g, payload)          # remove_model is a plain method
                        else:
                            await world.do_action(g[0], payload)
                    for _ in range(world.susp(cb, payload)):
                        await asyncio.sleep(0)
                    if exc is not None:
                        raise exc
                except BaseException:
                    world.events.append([2, SLOT[slot], cb, payload])
                    raise
                world.events.append([1, SLOT[slot], cb, payload])
                return ret
        rec.__name__ = '%s_%d' % (slot, cb)
        return rec


def group_actions(acts):
    """a run of consecutive remove_model actions is issued as ONE call remove_model([m1, m2, ...]) (same effect as the
    single calls in sequence: exactly their pending events go); triggers one by one"""
    out = []
    for a in acts:
        if a[0] == 1 and out and out[-1][0][0] == 1:
            out[-1].append(a)
        else:
            out.append([a])
    return out


def _blocks(events, payload_id, own):
    """group the events of one top-level call by the event they serve (payload), in order of first appearance"""
    order = []
    by = {}
    for ev in events:
        p = ev[-1]
        if p not in by:
            by[p] = []
            order.append(p)
        by[p].append(ev[:-1])
    out = []
    for p in order:
        evs = [ev for ev in by[p] if ev[0] != 2]
        out.append([payload_id.get(p, 999), p if p is not None else 999, evs, stage_view(evs, own), by[p]])
    return out


def run_flat(case, asynchronous):
    world = AWorld(case, asynchronous)
    world.state_of = flat.state_int
    own = owner_map(case)
    models = [flat.Model() for _ in case['models']]
    for (k, _), mod in zip(case['models'], models):
        world.model_ids[id(mod)] = k
    c2 = dict(case)
    c2['init'] = case['models'][0][1]
    if asynchronous:
        cls = flat.get_class(case.get('cls', 'AsyncMachine'))
        kw = dict(queued=MODES[case['mode']])
    else:
        cls = flat.get_class('Machine')
        kw = dict(queued=case['mode'] != 0)
    machine, _ = flat.build_machine(c2, world, cls=cls, models=models, extra_kwargs=kw)
    for (k, s0), mod in zip(case['models'], models):
        machine.set_state('s%d' % s0, mod)
    st = dict(next_id=0, payload_id={}, act_k={})

    def new_arrival(payload):
        st['payload_id'][payload] = st['next_id']
        st['next_id'] += 1

    def nested_payload(cur_payload):
        cur = st['payload_id'].get(cur_payload, 0)
        k = st['act_k'].get(cur, 0)
        st['act_k'][cur] = k + 1
        return 1000 + 16 * cur + k

    nested_results = []

    async def ado(a, payload):
        p = nested_payload(payload)
        if a[0] == 0:
            new_arrival(p)
            tok = Token(p)
            r = await models[a[1]].trigger('e%d' % a[2], tok, k=tok)
            nested_results.append(r is True)

    def sdo(a, payload):
        p = nested_payload(payload)
        if a[0] == 0:
            new_arrival(p)
            tok = Token(p)
            r = models[a[1]].trigger('e%d' % a[2], tok, k=tok)
            nested_results.append(r is True)
    world.do_action = ado if asynchronous else sdo

    def do_remove(group, payload):
        mods = []
        for a in group:
            nested_payload(payload)                   # every action of an event is numbered
            mod = models[a[1]]
            if mod in machine.models and not any(mod is g for g in mods):
                mods.append(mod)
        if mods:
            machine.remove_model(mods if len(mods) > 1 else mods[0])
    world.do_remove = do_remove
    out = []
    leftovers = [0]

    def finish(r, exc):
        if exc is not None:
            res = [1, flat.classify_exc(exc)]
        else:
            res = [0, 1 if r is True else (0 if r is False else 7)]
        out.append([_blocks(world.events, st['payload_id'], own), res,
                    [[k, flat.state_int(mod)] for (k, _), mod in zip(case['models'], models)],
                    [ev[-1] for ev in world.events if ev[0] == 0],
                    [world.model_ids[id(x)] for x in machine.models]])

    if asynchronous:
        async def drive():
            for (m, k, e, a) in case['history']:
                world.events = []
                new_arrival(a)
                tok = Token(a)
                name = 'e%d' % e
                r, exc = None, None
                try:
                    if k == 0:
                        r = await models[m].trigger(name, tok, k=tok)
                    elif k == 1:
                        r = await models[m].may_trigger(name, tok, k=tok)
                    else:
                        r = await getattr(models[m], name)(tok, k=tok)
                except BaseException as ex:  # noqa
                    exc = ex
                finish(r, exc)
            leftovers[0] = len(asyncio.all_tasks()) - 1
        asyncio.run(drive())
    else:
        for (m, k, e, a) in case['history']:
            world.events = []
            new_arrival(a)
            tok = Token(a)
            name = 'e%d' % e
            r, exc = None, None
            try:
                if k == 0:
                    r = models[m].trigger(name, tok, k=tok)
                elif k == 1:
                    r = models[m].may_trigger(name, tok, k=tok)
                else:
                    r = getattr(models[m], name)(tok, k=tok)
            except BaseException as ex:  # noqa
                exc = ex
            finish(r, exc)
    return out, leftovers[0], nested_results


def run_hsm(case, asynchronous):
    world = AWorld(case, asynchronous)
    world.state_of = hsm.state_forest
    world.do_action = None
    own = owner_map(case)
    if asynchronous:
        cls = flat.get_class('HierarchicalAsyncMachine')
        kw = dict(queued=MODES[case['mode']])
    else:
        cls = flat.get_class('HierarchicalMachine')
        kw = dict(queued=case['mode'] != 0)
    machine, model = hsm.build_hsm(case, world, cls, extra_kwargs=kw)
    world.model_ids[id(model)] = case.get('model', 0)
    world.current_model = model
    init_cfg = hsm.state_forest(model)
    out = []
    leftovers = [0]

    def finish(r, exc):
        res = [1, flat.classify_exc(exc)] if exc is not None else [0, bool(r)]
        evs = [ev[:-1] for ev in world.events]
        out.append([evs, stage_view(evs, own), res, hsm.state_forest(model)])

    if asynchronous:
        async def drive():
            for k, e, a in case['history']:
                world.events = []
                tok = Token(a)
                r, exc = None, None
                try:
                    if k == 1:
                        r = await model.may_trigger('e%d' % e, tok, k=tok)
                    else:
                        r = await model.trigger('e%d' % e, tok, k=tok)
                except BaseException as ex:  # noqa
                    exc = ex
                finish(r, exc)
            leftovers[0] = len(asyncio.all_tasks()) - 1
        asyncio.run(drive())
    else:
        for k, e, a in case['history']:
            world.events = []
            tok = Token(a)
            r, exc = None, None
            try:
                if k == 1:
                    r = model.may_trigger('e%d' % e, tok, k=tok)
                else:
                    r = model.trigger('e%d' % e, tok, k=tok)
            except BaseException as ex:  # noqa
                exc = ex
            finish(r, exc)
    return init_cfg, out, leftovers[0]


def impl_c07(case):
    if case['tag'] == 1:
        init_cfg, a, left = run_hsm(case, True)
        _, s, _ = run_hsm(case, False)
        return dict(tag=1, init=init_cfg, a=a, s=s, leftovers=left)
    a, left, nested_a = run_flat(case, True)
    s, _, nested_s = run_flat(case, False)
    return dict(tag=0, a=a, s=s, leftovers=left, nested_a=nested_a, nested_s=nested_s)


# ------------------------------------------------------------------ canonical observations
def has_acts(case):
    return any(r[2] for r in case['env'].get('bykey', {}).values())


def raising(case):
    return case.get('raise')


def sync_comparable(case):
    """is the synchronous machine expected to log exactly stage_view(async)?  Not when a callback raises with later
    callbacks registered in its stage (they still run: KF-C07-2) or a check raises in a multi-check candidate (the
    async machine evaluates checks the synchronous one never reaches: consequence of the licensed difference)."""
    r = raising(case)
    if not r:
        return True
    own = owner_map(case)
    o = own.get(r[1])
    if o is None:
        return True
    idx, kind, pos, n = o
    if kind == 'checks':
        return n == 1
    return pos == n - 1


def canon(case, obs):
    if isinstance(obs, dict) and 'harness_error' in obs:
        return obs
    if case['tag'] == 1:
        queued = case['mode'] != 0

        def fix(view, res, idx):
            if queued and res[0] == 0 and case_call_kind(case, idx) != 1:
                res = [0, True]
            return _mask_handled(case, view, res)
        if isinstance(obs, dict):                 # implementation: async run (exact events and view)
            steps, events = [], []
            for evs, view, res, forest in obs['a']:
                steps.append([view, fix(view, res, len(steps)), forest])
                events.append([ev for ev in evs if ev[0] != 2])
            return [1, obs['init'], steps, events, 'hsm-models-agree', oracle_raw(case, obs) or 'sync-impl-agrees']
        if obs[0] != 2:
            return obs
        sync, asteps = obs[1], obs[2]             # synchronous (Hsm.v) and asynchronous (AsyncHsm.v) hierarchical models
        if sync[0] != 1:
            return obs
        steps, events = [], []
        flag = 'hsm-models-agree'
        for idx, ((items, res, forest), (aevs, aview, ares, aforest)) in enumerate(zip(sync[2], asteps)):
            steps.append([items, fix(items, res, idx), forest])
            events.append(aevs)
            # the theorem C07_nested re-checked on the extracted code (and on raising-last cases)
            if sync_comparable(case) and flag == 'hsm-models-agree' and (aview != items or ares != res or aforest != forest):
                flag = 'call %d: AsyncHsm.v differs from Hsm.v up to stage_view' % idx
        return [1, sync[1], steps, events, flag, 'sync-impl-agrees']
    # flat
    if isinstance(obs, dict):
        return [1, [[[[b[0], b[1], b[2], b[3]] for b in st[0]], st[1], st[2], st[4]] for st in obs['a']],
                'sync-model-agrees', oracle_raw(case, obs) or 'sync-impl-agrees']
    if obs[0] != 1:
        return obs
    steps = []
    for step in obs[1]:
        if step == [9]:
            steps.append('out-of-fuel')
            continue
        blocks, res, states = step[0], step[1], step[2]
        bl = [[b[0], b[3], b[4], b[5]] for b in blocks if b[4]]
        steps.append([bl, [res[0], res[1]] if res[0] == 1 else [0, res[1]], states, step[4]])
    return [1, steps, model_sync_flag(case, obs), 'sync-impl-agrees']


def _mask_handled(case, items, res):
    """hierarchical machines: after an exception that on_exception handlers swallowed the call returns
    event_data.result as it happens to stand (True if an earlier region already executed a transition); Hsm.v says
    False.  Not a C07 matter (both real machines agree, see oracle_raw): the value is masked on both sides."""
    if res[0] == 0 and any(it[0] == SLOT['on_exception'] for it in items):
        return [0, 'after-handled-exception']
    return res


def case_call_kind(case, idx):
    h = case['history'][idx]
    return h[0] if case['tag'] == 1 else h[1]


def model_sync_flag(case, obs):
    """Coq async engine vs Coq synchronous engine on call-free cases: stage_view, state (and the result when not
    queued) must agree — the theorem C07_flat, re-checked on the extracted code (and on raising-last cases)"""
    if has_acts(case) or not sync_comparable(case):
        return 'sync-model-agrees'
    queued = case['mode'] != 0
    for idx, (step, sstep) in enumerate(zip(obs[1], obs[2])):
        if step == [9]:
            continue
        blocks, res, states = step[0], step[1], step[2]
        view = [it for b in blocks for it in b[5]]
        sitems, sres, sstate = sstep
        m = case['history'][idx][0]
        if view != sitems:
            return 'call %d: stage_view differs from the synchronous engine' % idx
        if dict((a, b) for a, b in states).get(m) != sstate:
            return 'call %d: state differs from the synchronous engine' % idx
        kind = case['history'][idx][1]
        if queued and kind != 1 and res[0] == 0 and known_event(case, idx):
            continue                          # a queued trigger returns True whatever the event did
        if res != sres:
            return 'call %d: result differs from the synchronous engine' % idx
    return 'sync-model-agrees'


def known_event(case, idx):
    e = case['history'][idx][2]
    return any(e == x for x, _ in case['machine']['events'])


# ------------------------------------------------------------------ oracle on the implementation alone
def _sync_blocks(step):
    blocks, res, states = step[0], step[1], step[2]
    return [[b[0], b[1], [ev[1:] for ev in b[2] if ev[0] == 0]] for b in blocks], res, states


def _rle(seq):
    out = []
    for x in seq:
        if not out or out[-1] != x:
            out.append(x)
    return out


def stage_discipline(events, own):
    """C07_awaited / C07_completed on an implementation trace, stages identified by the registration list a callback
    belongs to: when a callback starts, every callback of ANOTHER list that was started before has completed (the
    exit callbacks of a child state complete before those of its parent start, likewise enter / on_final of
    different states, even when they really suspend); at the end nothing is left open"""
    open_cbs = {}
    for ev in events:
        cb = ev[2]
        if ev[0] == 0:
            li = own.get(cb, (None,))[0]
            for ocb, oli in open_cbs.items():
                if oli != li:
                    return 'callback %d (slot %s) started while callback %d of another stage had not completed' % (
                        cb, SLOTS[ev[1]], ocb)
            open_cbs[cb] = li
        else:                       # completed, or left by an exception (marker 2)
            open_cbs.pop(cb, None)
    if open_cbs:
        return 'callbacks %r never completed before the trigger returned' % sorted(open_cbs)
    return None


def oracle_raw(case, obs):
    """(b) the asynchronous implementation against the synchronous implementation up to stage_view; evaluated inside
    canon (the flag it yields is compared with the constant flag on the model side)"""
    if not isinstance(obs, dict) or 'a' not in obs:
        return None
    if obs.get('leftovers'):
        return 'tasks still pending after the last awaited trigger returned'
    own = owner_map(case)
    if case['tag'] == 1:
        for idx, sa in enumerate(obs['a']):
            msg = stage_discipline(sa[0], own)
            if msg:
                return 'call %d: %s' % (idx, msg)
    else:
        for idx, sa in enumerate(obs['a']):
            for b in sa[0]:
                msg = stage_discipline(b[4], own)
                if msg:
                    return 'call %d: %s' % (idx, msg)
    if not sync_comparable(case):
        return None
    if case['tag'] == 1:
        for idx, (sa, ss) in enumerate(zip(obs['a'], obs['s'])):
            if sa[1] != [ev[1:] for ev in ss[0] if ev[0] == 0]:
                return 'call %d: stage_view(HierarchicalAsyncMachine) differs from HierarchicalMachine' % idx
            if sa[2] != ss[2] or sa[3] != ss[3]:
                return 'call %d: result/state of HierarchicalAsyncMachine differs from HierarchicalMachine' % idx
        return None
    if case['mode'] != 0 and not all(obs.get('nested_a', [])):
        return 'a trigger awaited from a callback of a queued machine did not return True'
    if obs.get('nested_a') != obs.get('nested_s'):
        return 'triggers awaited from callbacks return %r, the synchronous machine returns %r' % (
            obs.get('nested_a'), obs.get('nested_s'))
    for idx, (sa, ss) in enumerate(zip(obs['a'], obs['s'])):
        ba = [[b[0], b[1], b[3]] for b in sa[0]]
        bs, sres, sstates = _sync_blocks(ss)
        if ba != bs:
            return 'call %d: stage_view(AsyncMachine) differs from Machine' % idx
        if _rle(sa[3]) != _rle(ss[3]):
            return 'call %d: events are nested/ordered differently (%r vs %r)' % (idx, _rle(sa[3]), _rle(ss[3]))
        if sa[2] != sstates:
            return 'call %d: model states differ from Machine' % idx
        if sa[4] != ss[4]:
            return 'call %d: registered models differ from Machine (%r vs %r)' % (idx, sa[4], ss[4])
        if sa[1] != sres:
            return 'call %d: result differs from Machine (%r vs %r)' % (idx, sa[1], sres)
    return None


def classify_known(case, model_obs, impl_obs):
    """no known-finding class is exempted from the comparison: KF-C07-1 is fixed in /repo (D30: unknown event names
    now behave as on Machine and are compared like everything else); the cases of KF-C07-2 (a callback registered
    after a raising one still runs) are compared exactly with Async.v, which has that behaviour, and are excluded from
    the async-vs-sync comparison by sync_comparable"""
    return None


def in_envelope(case):
    if case['tag'] == 1:
        return True
    m = case['machine']
    regs = {s for s, _ in m['states']}
    for _, ts in m['events']:
        for t in ts:
            if t['dst'] is not None and t['dst'] not in regs:
                return False
    return True


def nontrivial(case, obs):
    if not isinstance(obs, list) or obs[0] != 1:
        return False
    if case['tag'] == 1:
        return any(len(step[0]) >= 2 for step in obs[2])
    for step in obs[1]:
        if not isinstance(step, list):
            continue
        if len(step[0]) >= 2:
            return True
        for b in step[0]:
            evs = b[2]
            if len([e for e in evs if e[0] == 0]) > len(b[3]):
                return True
            # an End that is not immediately after its own Start: interleaving
            for i, e in enumerate(evs):
                if e[0] == 1 and (i == 0 or evs[i - 1][0] != 0 or evs[i - 1][2] != e[2]):
                    return True
    return False


def stats(case, obs, dist):
    def inc(k, n=1):
        dist[k] = dist.get(k, 0) + n
    inc('tag_%d' % case['tag'])
    inc('mode_%s' % MODES[case['mode']])
    if raising(case):
        inc('cases_with_a_raising_callback')
        if not sync_comparable(case):
            inc('raising_cases_not_comparable_with_sync')
    fl = case['flavour'].values()
    inc('callbacks_plain', sum(1 for f in fl if f == 0))
    inc('callbacks_coroutine', sum(1 for f in fl if f == 1))
    inc('callbacks_suspending', sum(1 for f in fl if f in (2, 3)))
    inc('callbacks_plain_returning_future', sum(1 for f in fl if f in (4, 5)))
    inc('callbacks_plain_returning_task', sum(1 for f in fl if f in (6, 7)))
    inc('callbacks_plain_returning___await__object', sum(1 for f in fl if f in (8, 9)))
    if not isinstance(obs, list) or obs[0] != 1:
        inc('undecodable')
        return
    if case['tag'] == 1:
        for step in obs[2]:
            inc('hsm_calls')
            inc('hsm_items', len(step[0]))
            if step[1][0] == 1:
                inc('hsm_calls_raising')
        return
    for step in obs[1]:
        if not isinstance(step, list):
            inc('out_of_fuel')
            continue
        inc('flat_calls')
        n = len(step[0])
        inc('events_per_call_%s' % (n if n < 4 else '4+'))
        if step[1][0] == 1:
            inc('flat_calls_raising')
        for b in step[0]:
            inc('flat_events', len(b[2]))
            if len([e for e in b[2] if e[0] == 0]) > len(b[3]):
                inc('blocks_with_checks_after_a_failed_one')


def shrink_candidates(case):
    h = case['history']
    for i in range(len(h)):
        if len(h) > 1:
            c = copy.deepcopy(case)
            del c['history'][i]
            yield c
    for key in list(case['env'].get('bykey', {})):
        c = copy.deepcopy(case)
        del c['env']['bykey'][key]
        if c.get('raise') and _key(*c['raise']) == key:
            del c['raise']
        yield c
    for cb, f in case['flavour'].items():
        if f != 0:
            c = copy.deepcopy(case)
            c['flavour'][cb] = 0 if not has_acts(case) else 1
            if c['flavour'][cb] != f:
                yield c
    if case['tag'] == 0:
        m = case['machine']
        for ei, (e, ts) in enumerate(m['events']):
            for ti in range(len(ts)):
                if len(ts) > 1:
                    c = copy.deepcopy(case)
                    del c['machine']['events'][ei][1][ti]
                    yield c


# ------------------------------------------------------------------ extra checks
def _probe_kf1():
    """fixed KF-C07-1 (D30) on /repo: await model.trigger(<unknown>) on an ignoring state returns False"""
    tr = flat._import_transitions()
    from transitions.extensions.asyncio import AsyncMachine

    class M(object):
        pass
    ms, ma = M(), M()
    tr.Machine(ms, states=['A'], initial='A', auto_transitions=False, ignore_invalid_triggers=True)
    AsyncMachine(ma, states=['A'], initial='A', auto_transitions=False, ignore_invalid_triggers=True)
    rs = ms.trigger('nope')

    async def go():
        try:
            return await ma.trigger('nope')
        except BaseException as e:  # noqa
            return type(e).__name__
    return rs, asyncio.run(go())


def _probe_kf2():
    """KF-C07-2 on /repo: the callback registered after a raising one still runs on AsyncMachine"""
    tr = flat._import_transitions()
    from transitions.extensions.asyncio import AsyncMachine
    out = []
    for cls in (tr.Machine, AsyncMachine):
        log = []

        class M(object):
            pass
        m = M()

        def b1(*a, **k):
            log.append(1)
            raise flat.UserExc(1)

        def b2(*a, **k):
            log.append(2)
        mach = cls(m, states=['A'], initial='A', auto_transitions=False)
        mach.add_transition('go', 'A', None, before=[b1, b2])
        try:
            r = m.go()
            if asyncio.iscoroutine(r):
                asyncio.run(r)
        except flat.UserExc:
            pass
        out.append(log)
    return out


def _probe_sibling():
    """queued=False: a callback that awaits a trigger and is followed by another callback of the same stage: the
    sibling runs BEFORE the nested event on AsyncMachine (gather), AFTER it on Machine"""
    tr = flat._import_transitions()
    from transitions.extensions.asyncio import AsyncMachine
    out = []
    for cls in (tr.Machine, AsyncMachine):
        log = []

        class M(object):
            pass
        m = M()
        if cls is AsyncMachine:
            async def b1(*a, **k):
                log.append('b1')
                await m.inner()
        else:
            def b1(*a, **k):
                log.append('b1')
                m.inner()

        def b2(*a, **k):
            log.append('b2')

        def n1(*a, **k):
            log.append('n1')
        mach = cls(m, states=['A'], initial='A', auto_transitions=False)
        mach.add_transition('go', 'A', None, before=[b1, b2])
        mach.add_transition('inner', 'A', None, before=[n1])
        r = m.go()
        if asyncio.iscoroutine(r):
            asyncio.run(r)
        out.append(log)
    return out


def impl_hsm_reent_async(case):
    """async twin of hsm.impl_hsm_reent: HierarchicalAsyncMachine (unqueued); every callback is a coroutine that
    suspends (cb % 3) times, then logs itself and AWAITS model.trigger(event) for each of its actions (payload
    2000 + 8 * position + k as in the re-entrant engines).  With at most one callback per list the order of the
    items is the synchronous one, so the observation is compared exactly with the re-entrant hierarchical model"""
    if hasattr(flat, 'STALE_SCOPE_AS_VALUEERROR'):
        flat.STALE_SCOPE_AS_VALUEERROR[0] = True      # as hsm.impl_hsm_reent: a stale-scope crash is read as ValueError
    world = flat.World(case['env'], case['machine']['send'])
    world.state_of = hsm.state_forest
    base = world.recorder
    holder = {}

    def arecorder(slot, cb, model_of_call=None):
        inner = base(slot, cb, model_of_call)

        async def rec(*args, **kwargs):
            for _ in range(cb % 3):
                await asyncio.sleep(0)
            collected = []
            world.perform = lambda a: collected.append((a, world.cur_pos, world.cur_k))
            exc, ret = None, None
            try:
                ret = inner(*args, **kwargs)
            except BaseException as e:  # noqa
                exc = e
            for a, pos, k in collected:
                if a[0] == 0:
                    tok = Token(2000 + 8 * pos + k)
                    await holder['model'].trigger('e%d' % a[2], tok, k=tok)
            if exc is not None:
                raise exc
            return ret
        rec.__name__ = inner.__name__
        return rec
    world.recorder = arecorder
    machine, model = hsm.build_hsm(case, world, flat.get_class('HierarchicalAsyncMachine'))
    holder['model'] = model
    world.model_ids[id(model)] = case.get('model', 0)
    world.current_model = model
    init_cfg = world.state_of(model)
    out = []

    async def run():
        for e, a in case['history']:
            tok = Token(a)
            world.items = []
            try:
                r = await model.trigger('e%d' % e, tok, k=tok)
                res = [0, bool(r)]
            except BaseException as ex:  # noqa
                res = [1, flat.classify_exc(ex)]
            out.append([world.items, res, world.state_of(model)])
    asyncio.run(run())
    return [1, init_cfg, out]


def hsm_reent_async_stream(seed, n):
    """unqueued HierarchicalAsyncMachine whose callbacks (any stage, also of transitions declared inside nested state
    definitions: half of the cases are multi-scope) await further triggers of the model, against the re-entrant
    hierarchical model HReent.v (dispatch kind 19), which the synchronous classes are checked against by C05/C02"""
    import framework as F
    cases = []
    for i in range(n):
        rng = random.Random('C07-hreent-%d-%d' % (seed, i))
        c = hsm.trim_lists(hsm.gen_case(rng, p_parallel=0.3, single_scope=(i % 2 == 0)))
        evs = sorted({e for e, _ in c['machine']['events']} |
                     {e for _, d in hsm.all_defs(c['machine']) for e, _ in d['events']}) or [0]
        bypos = {p: (r[0], None, []) for p, r in c['env']['bypos'].items()}
        for _ in range(rng.randint(1, 3)):
            p = rng.randint(0, 14)
            ret = bypos.get(p, (rng.random() < 0.7, None, []))[0]
            bypos[p] = (ret, None, [(0, 0, rng.choice(evs)) for _ in range(rng.randint(1, 2))])
        c['env'] = dict(default=c['env']['default'], bypos=bypos,
                        bycb={k: (r[0], None, []) for k, r in c['env']['bycb'].items()})
        c['history'] = [(e, a) for (k, e, a) in c['history'] if e < 50]
        c['cls'] = 'HierarchicalAsyncMachine'
        cases.append(c)
    enc_ = [[hsm.enc_hmachine(c['machine']), hsm.enc_env(c['env']), 0, c['init'], [[e, a] for e, a in c['history']]]
            for c in cases]
    mo = F.run_model(19, enc_)
    io = F.run_impl('c07', 'impl_hsm_reent_async', cases)
    bad, nested = [], 0
    for c, m, i in zip(cases, mo, io):
        hc = dict(c, history=[(0, e, a) for e, a in c['history']])
        mm, ii = hsm.mask_handled(hc, m), hsm.mask_handled(hc, getattr(hsm, '_stale_scope_exn', lambda o: o)(i))
        if isinstance(mm, list) and mm[0] == 1:
            nested += sum(1 for st in mm[2] for it in st[0] if it[4][1] >= 2000)
            if any(st[1] == [1, [4, 99]] for st in mm[2]):
                continue                  # out of fuel in the model (deeper than 12 levels): not compared
        if mm != ii:
            bad.append((c, mm, ii))
    return cases, bad, nested


RAW_VALUES = [2, 0, 1, -1, 1.0, 0.0, [], [1], (), None, '', 'x', {}, True, False]


def raw_value_sweep():
    """conditions / unless checks returning something that is not a bool (Condition.check compares the value with ==,
    it does not convert it): finite sweep RAW_VALUES x {conditions, unless} x {plain function, async def, plain function
    returning a resolved Future, object with __await__} x send_event x {AsyncMachine, HierarchicalAsyncMachine}, two
    candidates (the guarded one first); result and state of go() and the answer of may_go() must be Machine's"""
    tr = flat._import_transitions()
    from transitions.extensions.asyncio import AsyncMachine, HierarchicalAsyncMachine
    rows, bad = 0, []
    for kind in ('conditions', 'unless'):
        for vi, v in enumerate(RAW_VALUES):
            for send in (False, True):
                def build(cls, cb):
                    class M(object):
                        pass
                    mo = M()
                    cls(mo, states=['A', 'B', 'C'], initial='A', auto_transitions=False, send_event=send,
                        transitions=[dict(trigger='go', source='A', dest='B', **{kind: [cb]}),
                                     dict(trigger='go', source='A', dest='C')])
                    return mo

                def obs_sync():
                    mo = build(tr.Machine, lambda *a, **k: v)
                    may = bool(mo.may_go())
                    try:
                        r = [0, bool(mo.go())]
                    except BaseException as ex:  # noqa
                        r = [1, flat.classify_exc(ex)]
                    return [may, r, str(mo.state)]
                want = obs_sync()
                for cname, cls in (('AsyncMachine', AsyncMachine), ('HierarchicalAsyncMachine', HierarchicalAsyncMachine)):
                    for ck in ('plain', 'async def', 'resolved Future', '__await__ object'):
                        if ck == 'plain':
                            def cb(*a, **k):
                                return v
                        elif ck == 'async def':
                            async def cb(*a, **k):
                                return v
                        elif ck == 'resolved Future':
                            def cb(*a, **k):
                                f = asyncio.get_running_loop().create_future()
                                f.set_result(v)
                                return f
                        else:
                            def cb(*a, **k):
                                class Aw(object):
                                    def __await__(self_):
                                        yield from asyncio.sleep(0).__await__()
                                        return v
                                return Aw()

                        async def run():
                            mo = build(cls, cb)
                            may = bool(await mo.may_go())
                            try:
                                r = [0, bool(await mo.go())]
                            except BaseException as ex:  # noqa
                                r = [1, flat.classify_exc(ex)]
                            return [may, r, str(mo.state)]
                        got = asyncio.run(run())
                        rows += 1
                        if got != want:
                            bad.append(dict(cls=cname, kind=kind, value=repr(v), send_event=send, callable=ck, got=got,
                                            Machine=want))
    return rows, bad


def extra_checks(tier, seed):
    out = []
    # (0) non-bool values of conditions / unless checks, returned directly or through an awaitable
    nrows, badrows = raw_value_sweep()
    out.append(('raw_condition_values_async_vs_Machine', not badrows,
                dict(runs=nrows, values=[repr(v) for v in RAW_VALUES], differing=len(badrows)),
                None if not badrows else dict(kind='counterexample', case=dict(sub='raw-condition-values'),
                                              detail=badrows[:5], impl_obs=badrows[0]['got'], model_obs=badrows[0]['Machine'],
                                              first_difference='a condition/unless value that is not a bool is honoured '
                                                               'differently by the asyncio class than by Machine',
                                              theorem='corr_C07 (C07_cond_awaitable: the value of a check is honoured '
                                                      'as it is, directly or through an awaitable)')))
    # (1) queued=False with triggers awaited from callbacks: AsyncMachine against Machine (no Coq model of the
    # re-entrant unqueued engine): blocks up to stage_view, nesting structure, results of the nested triggers
    n = 400 if tier == 'quick' else 6000
    bad = None
    nested_calls = 0
    for i in range(n):
        rng = random.Random('C07-nested-%d-%d' % (seed, i))
        case = gen_flat(rng, i * 13, nested_unqueued=True)      # i * 13: never the malformed stream
        obs = impl_c07(case)
        if isinstance(obs, dict) and obs.get('nested_a'):
            nested_calls += len(obs['nested_a'])
        msg = oracle_raw(case, obs)
        if msg:
            bad = (case, obs, msg)
            break
    out.append(('unqueued_nested_async_vs_sync_implementation', bad is None,
                dict(cases=n, nested_triggers_awaited=nested_calls, failing=None if bad is None else bad[2]),
                None if bad is None else dict(kind='oracle', case=bad[0], impl_obs=bad[1], failing_clause=bad[2],
                                              note='queued=False, trigger awaited from the last callback of a stage')))
    # (1b) hierarchical completion order: every callback suspends (cb % 3) times and logs itself only when it
    # completes; with at most one callback per list the synchronous hierarchical model predicts the exact completion
    # order (exit of a child completed before the exit of its parent starts, enter / on_final likewise), results, states
    n2 = 400 if tier == 'quick' else 6000
    hc, hbad = hsm.async_stream('C07-completion', seed, n2, max_depth=3, p_parallel=0.4, hist_len=None)
    okh = not hbad
    out.append(('hierarchical_completion_order_vs_Hsm_model', okh,
                dict(cases=len(hc), disagreements=len(hbad)),
                None if okh else dict(kind='counterexample', case=hbad[0][0], model_obs=hbad[0][1], impl_obs=hbad[0][2],
                                      first_difference='completion order / result / state of HierarchicalAsyncMachine '
                                                       'with suspending callbacks differs from the synchronous Hsm model',
                                      theorem='corr_C07 (hierarchical completion order)')))
    # (1c) unqueued hierarchical machines whose callbacks await further triggers (also from transitions declared inside
    # nested state definitions, where the machine is scoped to that state): against the re-entrant hierarchical model
    n3 = 400 if tier == 'quick' else 5000
    rc, rbad, rnested = hsm_reent_async_stream(seed, n3)
    okr = not rbad
    out.append(('hierarchical_awaited_triggers_vs_HReent_model', okr,
                dict(cases=len(rc), nested_events=rnested, disagreements=len(rbad)),
                None if okr else dict(kind='counterexample', case=rbad[0][0], model_obs=rbad[0][1], impl_obs=rbad[0][2],
                                      first_difference='HierarchicalAsyncMachine with callbacks awaiting triggers differs '
                                                       'from the re-entrant hierarchical model (HReent.v, kind 19)',
                                      theorem='corr_C07 (hierarchical, triggers awaited from callbacks)')))
    # (2) regression of the fixed KF-C07-1 (D30) and the witness of the refuted statement KF-C07-2, replayed on /repo
    k1 = _probe_kf1()
    ok1 = k1[0] is False and k1[1] is False
    out.append(('D30_unknown_event_regression', ok1,
                dict(sync_returns=repr(k1[0]), awaiting_async_gives=repr(k1[1])),
                None if ok1 else dict(kind='oracle', case=dict(probe='probes/KF-C07-1.py'), impl_obs=repr(k1),
                                      failing_clause='await model.trigger(<unknown name>) on an ignoring state must '
                                                     'return False like Machine (C07_unknown_event)')))
    k2 = _probe_kf2()
    out.append(('KF-C07-2_witness_on_repo', True,
                dict(sync_calls=k2[0], async_calls=k2[1], still_present=(k2 == [[1], [1, 2]])), None))
    k3 = _probe_sibling()
    out.append(('sibling_of_an_awaiting_callback_probe', True, dict(sync_order=k3[0], async_order=k3[1]), None))
    return out
