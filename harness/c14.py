"""C14 - markup export is faithful, current and round-trips.

Correspondence of MarkupMachine / HierarchicalMarkupMachine (from /repo) with the Coq model
Model/Markup.v: every `machine.markup` read during a generated script of modifications is
compared field by field (key presence and key order included) with the model's cache
automaton AND with `to_markup` of the model's current machine; the machine is rebuilt with
`Machine(markup=json.loads(json.dumps(markup)))`, its markup compared again, and a random
event history is run on the original and on the rebuilt machine (callbacks by name on the
model classes of this module record traces)."""
import asyncio
import contextlib
import copy
import enum
import json
import os
import sys

from framework import REPO, COQ, to_sx, from_sx

PID = 'C14'
KIND = 6
IMPL = ('c14', 'impl_c14')
COUNTS = dict(quick=1500, thorough=15000)
RULE = ('cases = random flat (1-5 states) or hierarchical (2-4 top-level states, depth <= 3, exclusive and '
        'parallel compounds, initial substates, final flags, on_final) machine descriptions with distinct named '
        'callbacks in every slot (state on_enter/on_exit/on_final, transition conditions/unless/prepare/before/'
        'after, six machine-level lists), every option (send_event, auto_transitions, model_attribute, '
        'model_override, ignore_invalid_triggers None/False/True at both levels, queued False/True and - on the '
        'asyncio variants of the two classes, 25% of the cases - "model", name; each option is also read back from the '
        'original and the rebuilt machine object), internal / '
        'reflexive / nested local transitions, 1-3 models of 3 classes in arbitrary (resolved) states x a script '
        '(state names are drawn from plain letters or from a pool that stresses the auto-transition heuristic: names '
        'starting with t / o / _, containing "to_", prefixes and suffixes of each other; user events that resemble '
        'automatic ones without being of the form to_<...>) of 0-7 later operations - in a third of the cases with a markup read before and after every single one - (read markup, add_states in any scope, add_transition with list / wildcard '
        'sources and "=" / None destinations, remove_transition, on_enter_/on_exit_/on_final_<state>(cb), the '
        'hierarchical on_enter/on_exit(state, cb) helpers, '
        'before_/after_/prepare_<event>(cb), model moved, model added) x a history of 3-10 events (declared, '
        'auto to_<state>, unknown) run on the original and on the machine rebuilt from the JSON round trip of the '
        'final markup; every 10th case is drawn from one of the three known-finding classes (KF-C14-1/2/3). Non-trivial: the '
        'script contains a modification after a markup read (cache must be refreshed) and the final markup has '
        '>= 2 transitions of which one carries a condition or callback list, distinct by hash of the case.')
_ENUM_NOTE = ('(in 30% of the cases every state is handed to the library as an Enum member - names, initial members and '
              'LISTS of initial members, "parallel" children, sources, destinations, model states - and the markup '
              'must still consist of plain names that survive json.dumps) ')
_NOTE = ('(state names are drawn from plain letters or from a pool that stresses the auto-transition heuristic: names '
         'starting with t / o / _, containing "to_", prefixes and suffixes of each other; user events that resemble '
         'automatic ones without being of the form to_<...>) ')
assert _NOTE in RULE
RULE = RULE.replace(_NOTE, '').replace('machine descriptions with', 'machine descriptions ' + _NOTE + _ENUM_NOTE + 'with', 1)
ASSUMPTIONS = ['callbacks are given by name (strings) and resolved on the model; they neither raise nor call back '
               'into the machine',
               'state names and triggers are identifiers without the separator "_" (hierarchical) that are not '
               '"*" or "="; no user event is named to_<state> with a transition from every state of its scope (known '
               'finding KF-C14-2 otherwise)',
               'machine-level callback lists, `initial` and `auto_transitions_markup` are not reassigned after '
               'construction (the markup captures the lists once; DESIGN section 9)',
               'automatic to_<state> events are not stored in the model (except for flat machines with a custom '
               'model_attribute, where the code exports them: KF-C14-3); that the heuristic omits exactly them is '
               'validated by the correspondence check, not proved',
               'JSON round trip is the identity on the markup type of the model (strings, booleans, null, lists)']
THEOREMS = ['C14_whitelists', 'C14_faithful', 'C14_roundtrip', 'C14_roundtrip_markup', 'C14_roundtrip_behaviour',
            'C14_current', 'C14_current_rebuilt', 'C14_envelope_inhabited', 'C14_roundtrip_refuted_flag',
            'C14_faithful_refuted_auto_name', 'C14_current_direct_helper', 'C14_current_refuted_set_list',
            'C14_roundtrip_refuted_no_initial']
THEOREM_OF_DIFF = ('corr_C14: Model/Markup.v (to_markup / of_markup / cache automaton, proved faithful, current and '
                   'round-tripping in Props/C14.v) no longer describes transitions/extensions/markup.py')

MACHINE_LISTS = ['before_state_change', 'after_state_change', 'prepare_event', 'finalize_event', 'on_exception',
                 'on_final']
LIST_KEYS = ['bsc', 'asc', 'pe', 'fe', 'oe', 'of']


def _import_transitions():
    if REPO not in sys.path:
        sys.path.insert(0, REPO)
    import transitions  # noqa
    assert os.path.abspath(transitions.__file__).startswith(os.path.abspath(REPO)), transitions.__file__
    return transitions


# ------------------------------------------------------------------ generated Coq file
def generated_hook():
    """Rewrite coq/Generated/AttrLists.v from the whitelists of /repo's MarkupMachine."""
    _import_transitions()
    from transitions.extensions.markup import MarkupMachine

    def coq_list(l):
        for s in l:
            assert isinstance(s, str) and '"' not in s, s
        return '[' + '; '.join('"%s"' % s for s in l) + ']'
    txt = ('(* GENERATED by harness/c14.py (generated_hook) from /repo on every run - do not edit.\n'
           '   The attribute whitelists of transitions.extensions.markup.MarkupMachine. *)\n'
           'From Coq Require Import List String.\nImport ListNotations.\nOpen Scope string_scope.\n'
           'Definition state_attributes : list string :=\n  %s.\n'
           'Definition transition_attributes : list string :=\n  %s.\n'
           % (coq_list(list(MarkupMachine.state_attributes)), coq_list(list(MarkupMachine.transition_attributes))))
    path = os.path.join(COQ, 'Generated', 'AttrLists.v')
    old = open(path).read() if os.path.exists(path) else None
    if old != txt:
        with open(path, 'w') as f:
            f.write(txt)


# ------------------------------------------------------------------ model classes (importable by dotted path)
ENV = {'seed': 0, 'trace': [], 'count': 0, 'attr': 'state', 'paths': {}, 'async': False, 'models': [], 'xevents': {},
       'depth': 0, 'xbudget': 0}


def _norm(st):
    """a model state as (nested lists of) joined names: Enum members of the original machine are replaced by the
    path of the state they name, so that the original (Enum) and the rebuilt (string) machine are comparable"""
    if isinstance(st, (list, tuple)):
        return [_norm(x) for x in st]
    if isinstance(st, enum.Enum):
        return ENV['paths'].get(st, 'ENUM:' + st.name)
    return st


def _mix(seed, name, n):
    h = seed * 1000003 + n * 7919
    for ch in name:
        h = (h * 31 + ord(ch)) % 2147483647
    return h


def _x_target(model, name):
    """x<n>: a callback that triggers an event on the NEXT model of the machine (on itself if there is only one) -
    this is where one global queue and one queue per model differ"""
    models = ENV['models']
    idx = [i for i, x in enumerate(models) if x is model]
    other = models[(idx[0] + 1) % len(models)] if idx else model
    return other, ENV['xevents'].get(name, 'e0')


def _x_record(model, name, other, res):
    attr = ENV['attr']
    ENV['trace'].append([name, repr(_norm(getattr(model, attr, None))), res, repr(_norm(getattr(other, attr, None)))])


class _Base(object):
    def __getattr__(self, name):
        if len(name) >= 2 and name[0] == 'x' and name[1:].isdigit():
            if ENV['async']:
                async def axcb(*args, **kwargs):
                    ENV['count'] += 1
                    other, ev = _x_target(self, name)
                    if ENV['depth'] >= 2 or ENV['xbudget'] <= 0:
                        return _x_record(self, name, other, 'skip')
                    ENV['depth'] += 1
                    ENV['xbudget'] -= 1
                    try:
                        res = repr(await other.trigger(ev))
                    except Exception as e:  # types only
                        res = type(e).__name__
                    finally:
                        ENV['depth'] -= 1
                    _x_record(self, name, other, res)
                return axcb

            def xcb(*args, **kwargs):
                ENV['count'] += 1
                other, ev = _x_target(self, name)
                if ENV['depth'] >= 2 or ENV['xbudget'] <= 0:
                    return _x_record(self, name, other, 'skip')
                ENV['depth'] += 1
                ENV['xbudget'] -= 1
                try:
                    res = repr(other.trigger(ev))
                except Exception as e:  # types only
                    res = type(e).__name__
                finally:
                    ENV['depth'] -= 1
                _x_record(self, name, other, res)
            return xcb
        if len(name) >= 2 and name[0] in 'kq' and name[1:].isdigit():
            def cb(*args, **kwargs):
                ENV['count'] += 1
                st = getattr(self, ENV['attr'], None)
                if name[0] == 'k':
                    ENV['trace'].append([name, repr(_norm(st))])
                    return None
                res = _mix(ENV['seed'], name, ENV['count']) % 10 < 7
                ENV['trace'].append([name, repr(_norm(st)), res])
                return res
            return cb
        raise AttributeError(name)


class ModelA(_Base):
    pass


class ModelB(_Base):
    pass


class ModelC(_Base):
    pass


class _OBase(_Base):
    """for model_override=True: only methods that already exist are bound by the machine"""

    def trigger(self, *args, **kwargs):
        raise NotImplementedError


class ModelOA(_OBase):
    pass


class ModelOB(_OBase):
    pass


CLASSES = dict(ModelA=ModelA, ModelB=ModelB, ModelC=ModelC, ModelOA=ModelOA, ModelOB=ModelOB)


# ------------------------------------------------------------------ encoding (case -> sx shape of Model/MarkupIO.v)
def S(s):
    return [ord(c) for c in s]


def SL(l):
    return [S(x) for x in l]


def O(x, f=lambda y: y):
    return [] if x is None else [f(x)]


QCODE = {False: 0, True: 1, 'model': 2}      # the `queued` option


def _qcode(v):
    if v is False or v is True or v == 'model':
        return QCODE[v]
    raise ValueError('unexpected value of queued in the markup: %r' % (v,))


def enc_init(i):
    if i is None:
        return []
    if isinstance(i, str):
        return [[0, S(i)]]
    return [[1, SL(i)]]


def enc_mstate(ms):
    if isinstance(ms, dict):
        return [1, [enc_mstate(x) for x in ms['par']]]
    return [0, SL(ms)]


def enc_tdict(t):
    attrs = [[S('source'), [0, S(t['source'])]]]
    if t['dest'] is not None:
        attrs.append([S('dest'), [0, S(t['dest'])]])
    for k in ('prepare', 'before', 'after'):
        if t[k]:
            attrs.append([S(k), [2, SL(t[k])]])
    return [attrs, S(t['trigger']), O(t['conditions'] or None, SL), O(t['unless'] or None, SL)]


def enc_sdict(s):
    attrs = []
    for k in ('on_exit', 'on_enter'):
        if s[k]:
            attrs.append([S(k), [2, SL(s[k])]])
    if s['ignore'] != 'absent':
        attrs.append([S('ignore_invalid_triggers'), [1, bool(s['ignore'])]])
    if s['final']:
        attrs.append([S('final'), [1, True]])
    if s['on_final']:
        attrs.append([S('on_final'), [2, SL(s['on_final'])]])
    return [S(s['name']), attrs, bool(s['children']), enc_init(s['initial']),
            [enc_tdict(t) for t in s['transitions']], [enc_sdict(c) for c in s['children']]]


def enc_desc(d):
    return [SL(d[k]) for k in LIST_KEYS] + [
        bool(d['send']), bool(d['auto']), S(d['attr']), bool(d['override']), O(d['ignore'], bool), QCODE[d['queued']],
        [[enc_mstate(m['state']), S('c14.' + m['cls'])] for m in d['models']],
        enc_init(d['initial']), O(d['name'], S),
        [enc_tdict(t) for t in d['transitions']], [enc_sdict(s) for s in d['states']]]


def enc_op(o):
    k = o[0]
    if k == 'get':
        return [0]
    if k == 'add_state':
        return [1, SL(o[1]), enc_sdict(o[2])]
    if k == 'add_trans':
        dst = {'same': [0], 'none': [1]}.get(o[4][0]) or [2, S(o[4][1])]
        return [2, SL(o[1]), S(o[2]), O(o[3], SL), dst] + [SL(x) for x in o[5:10]]
    if k == 'rem_trans':
        return [3, S(o[1]), O(o[2], SL), O(o[3], SL)]
    if k == 'reg_state':
        return [4, o[1], SL(o[2]), S(o[3])]
    if k == 'reg_event':
        return [5, o[1], S(o[2]), S(o[3])]
    if k == 'set_model':
        return [6, o[1], enc_mstate(o[2])]
    if k == 'add_model':
        return [7, S('c14.' + o[1]), enc_mstate(o[2])]
    if k == 'direct_state':
        return [8, o[1], SL(o[2]), S(o[3])]
    if k == 'set_list':
        return [9, o[1], SL(o[2])]
    raise ValueError(o)


def enc(case):
    return [bool(case['hsm']), enc_desc(case['desc']), [enc_op(o) for o in case['ops']]]


# ------------------------------------------------------------------ real markup dict -> same shape
def _aval(v):
    if v is True:
        return [1, True]
    if isinstance(v, str):
        return [0, S(v)]
    if isinstance(v, list) and all(isinstance(x, str) for x in v):
        return [2, SL(v)]
    raise ValueError('unexpected attribute value %r' % (v,))


def _mstate_of(v, hsm):
    if isinstance(v, (list, tuple)):
        return [1, [_mstate_of(x, hsm) for x in v]]
    if not isinstance(v, str):
        raise ValueError('unexpected model state %r' % (v,))
    return [0, SL(v.split('_') if hsm else [v])]


def _enc_real_trans(t):
    attrs = [[S(k), _aval(v)] for k, v in t.items() if k not in ('trigger', 'conditions', 'unless')]
    return [attrs, S(t['trigger']), O(t.get('conditions'), SL), O(t.get('unless'), SL)]


def _enc_real_state(s):
    special = ('name', 'children', 'transitions', 'initial', 'states')
    if 'states' in s or (('children' in s) != ('transitions' in s)):
        raise ValueError('unexpected scope keys %r' % sorted(s))
    attrs = [[S(k), _aval(v)] for k, v in s.items() if k not in special]
    return [S(s['name']), attrs, 'children' in s, enc_init(s.get('initial')),
            [_enc_real_trans(t) for t in s.get('transitions', [])],
            [_enc_real_state(c) for c in s.get('children', [])]]


TOP_KEYS = set(MACHINE_LISTS) | {'send_event', 'auto_transitions', 'model_attribute', 'model_override',
                                 'ignore_invalid_triggers', 'queued', 'models', 'transitions', 'states'}


def enc_real_markup(mk, hsm):
    extra = set(mk) - TOP_KEYS - {'initial', 'name'}
    missing = TOP_KEYS - set(mk)
    if extra or missing:
        raise ValueError('markup keys: unexpected %r missing %r' % (sorted(extra), sorted(missing)))
    for m in mk['models']:
        if set(m) != {'state', 'name', 'class-name'}:
            raise ValueError('model keys %r' % sorted(m))
    return [SL(mk[k]) for k in MACHINE_LISTS] + [
        mk['send_event'] is True, mk['auto_transitions'] is True, S(mk['model_attribute']),
        mk['model_override'] is True, O(mk['ignore_invalid_triggers'], bool), _qcode(mk['queued']),
        [[_mstate_of(m['state'], hsm), S(m['class-name'])] for m in mk['models']],
        enc_init(mk.get('initial')), O(mk.get('name'), S),
        [_enc_real_trans(t) for t in mk['transitions']], [_enc_real_state(s) for s in mk['states']]]


# ------------------------------------------------------------------ implementation runner
class Names(object):
    """How state names are handed to the library: as strings, or (enum mode) as members of Enum classes - one class
    per scope of the description, one more class per state added later."""

    def __init__(self, use_enum, hsm):
        self.use_enum, self.hsm = use_enum, hsm
        self.members = {}            # (scope tuple, name) -> member
        self.n = 0

    def declare(self, scope, sdicts):
        if not self.use_enum or not sdicts:
            return
        self.n += 1
        cls = enum.Enum('S%d' % self.n, [s['name'] for s in sdicts])
        for s in sdicts:
            mem = cls[s['name']]
            self.members[(tuple(scope), s['name'])] = mem
            ENV['paths'][mem] = '_'.join(list(scope) + [s['name']])
            self.declare(list(scope) + [s['name']], s['children'])

    def local(self, scope, name):
        """a name of the scope itself"""
        return self.members[(tuple(scope), name)] if self.use_enum else name

    def ref(self, scope, name):
        """a source / destination as written in a transition of [scope]: local name, or joined path at the root"""
        if not self.use_enum:
            return name
        if not scope and self.hsm:
            path = name.split('_')
            return self.members[(tuple(path[:-1]), path[-1])]
        return self.members[(tuple(scope), name)]

    def mstate(self, ms):
        if isinstance(ms, dict):
            return [self.mstate(x) for x in ms['par']]
        if not self.use_enum:
            return '_'.join(ms)
        return self.members[(tuple(ms[:-1]), ms[-1])]


def _real_tdict(t, nm, scope):
    d = dict(trigger=t['trigger'], source=nm.ref(scope, t['source']))
    if t['dest'] is not None:
        d['dest'] = nm.ref(scope, t['dest'])
    for k in ('conditions', 'unless', 'prepare', 'before', 'after'):
        if t[k]:
            d[k] = list(t[k])
    return d


def _real_sdict(s, nm, scope, par_key=False):
    """the state as handed to add_states (the members of [scope] must have been declared)"""
    d = dict(name=nm.local(scope, s['name']))
    for k in ('on_enter', 'on_exit', 'on_final'):
        if s[k]:
            d[k] = list(s[k])
    if s['ignore'] != 'absent':
        d['ignore_invalid_triggers'] = s['ignore']
    if s['final']:
        d['final'] = True
    inner = list(scope) + [s['name']]
    kids = [_real_sdict(c, nm, inner, par_key) for c in s['children']]
    if s['children'] and isinstance(s['initial'], list) and par_key \
            and s['initial'] == [c['name'] for c in s['children']]:
        d['parallel'] = kids         # short form of children + initial = all children
    else:
        if s['initial'] is not None:
            d['initial'] = ([nm.local(inner, n) for n in s['initial']] if isinstance(s['initial'], list)
                            else nm.local(inner, s['initial']))
        if s['children']:
            d['children'] = kids
    if s['children']:
        d['transitions'] = [_real_tdict(t, nm, inner) for t in s['transitions']]
    if nm.use_enum and len(d) == 1:
        return d['name']             # a bare Enum member
    return d


def _scoped(m, scope):
    st = contextlib.ExitStack()
    for n in scope:
        st.enter_context(m(n))
    return st


def _apply_op(m, o, hsm, reads, nm):
    k = o[0]
    if k == 'get':
        with _scoped(m, o[1] if len(o) > 1 else []):   # the markup describes the whole machine in any scope
            mk = json.loads(json.dumps(m.markup))
        e = enc_real_markup(mk, hsm)
        reads.append([e, e])
    elif k == 'add_state':
        nm.declare(o[1], [o[2]])
        with _scoped(m, o[1]):
            m.add_states(_real_sdict(o[2], nm, o[1]))
    elif k == 'add_trans':
        src = '*' if o[3] is None else [nm.ref(o[1], x) for x in o[3]]
        dst = {'same': '=', 'none': None}.get(o[4][0], nm.ref(o[1], o[4][1]) if len(o[4]) > 1 else None)
        with _scoped(m, o[1]):
            # one name is passed as a string, none as None: a list object would be shared by the transitions
            # created for several sources (listify keeps the object), see the report
            def arg(l):
                return None if not l else l[0] if len(l) == 1 else list(l)
            m.add_transition(o[2], src, dst, conditions=arg(o[5]), unless=arg(o[6]), prepare=arg(o[7]),
                             before=arg(o[8]), after=arg(o[9]))
    elif k == 'rem_trans':
        m.remove_transition(o[1], '*' if o[2] is None else list(o[2]), '*' if o[3] is None else list(o[3]))
    elif k == 'reg_state':
        getattr(m, ['on_enter_', 'on_exit_', 'on_final_'][o[1]] + '_'.join(o[2]))(o[3])
    elif k == 'reg_event':
        getattr(m, ['before_', 'after_', 'prepare_'][o[1]] + o[2])(o[3])
    elif k == 'set_model':
        m.set_state(nm.mstate(o[2]), model=m.models[o[1]])
    elif k == 'add_model':
        m.add_model(CLASSES[o[1]](), initial=nm.mstate(o[2]))
    elif k == 'direct_state':
        [m.on_enter, m.on_exit][o[1]]('_'.join(o[2]), o[3])
    elif k == 'set_list':
        setattr(m, MACHINE_LISTS[o[1]], list(o[2]))
    else:
        raise ValueError(o)


def _run_history(m, hist, seed, attr, use_async, xevents):
    ENV.update({'seed': seed, 'trace': [], 'count': 0, 'attr': attr, 'async': use_async, 'models': list(m.models),
                'xevents': xevents, 'depth': 0})
    steps = []

    def record(res, n0):
        steps.append([res, ENV['trace'][n0:], [repr(_norm(getattr(x, attr, None))) for x in m.models]])

    if use_async:
        async def run():
            for mi, ev in hist:
                if mi >= len(m.models):
                    steps.append('no-model')
                    continue
                n0 = len(ENV['trace'])
                ENV['xbudget'] = 3       # per step: queued machines would otherwise play ping-pong for ever
                try:
                    res = repr(await m.models[mi].trigger(ev))
                except Exception as e:  # compare exception types only
                    res = type(e).__name__
                record(res, n0)
        asyncio.run(run())
        return steps
    for mi, ev in hist:
        if mi >= len(m.models):
            steps.append('no-model')
            continue
        n0 = len(ENV['trace'])
        ENV['xbudget'] = 3
        try:
            res = repr(m.models[mi].trigger(ev))
        except Exception as e:  # compare exception types only
            res = type(e).__name__
        record(res, n0)
    return steps


_ASYNC_CLASSES = {}


def _machine_class(hsm, use_async):
    from transitions.extensions.markup import MarkupMachine, HierarchicalMarkupMachine
    if not use_async:
        return HierarchicalMarkupMachine if hsm else MarkupMachine
    if not _ASYNC_CLASSES:
        from transitions.extensions.asyncio import AsyncMachine, HierarchicalAsyncMachine

        # composed like transitions.extensions.factory composes the graph variants
        class AsyncMarkupMachine(MarkupMachine, AsyncMachine):
            pass

        class HierarchicalAsyncMarkupMachine(HierarchicalMarkupMachine, HierarchicalAsyncMachine):
            pass
        _ASYNC_CLASSES.update({False: AsyncMarkupMachine, True: HierarchicalAsyncMarkupMachine})
    return _ASYNC_CLASSES[hsm]


def _options(m):
    return [m.has_queue, m.send_event, m.auto_transitions, m.ignore_invalid_triggers, m.model_attribute,
            m.model_override, m.name]


class HarnessTimeout(BaseException):
    pass


def impl_c14(case):
    """watchdog: a hanging library call becomes a harness error (= a disagreement), never a hanging check"""
    import signal

    def on_alarm(signum, frame):
        raise HarnessTimeout('implementation run exceeded 60 s')
    try:
        old = signal.signal(signal.SIGALRM, on_alarm)
        signal.setitimer(signal.ITIMER_REAL, 60, 5)
    except ValueError:          # not in the main thread
        old = None
    try:
        return _impl_c14(case)
    finally:
        if old is not None:
            signal.setitimer(signal.ITIMER_REAL, 0)
            signal.signal(signal.SIGALRM, old)


def _impl_c14(case):
    _import_transitions()
    hsm = case['hsm']
    use_async = bool(case.get('async'))
    cls = _machine_class(hsm, use_async)
    d = case['desc']
    ENV['paths'] = {}
    nm = Names(bool(case.get('enum')), hsm)
    nm.declare([], d['states'])
    par_key = case['seed'] % 2 == 0
    kw = dict(model=None, states=[_real_sdict(s, nm, [], par_key) for s in d['states']],
              transitions=[_real_tdict(t, nm, []) for t in d['transitions']],
              send_event=d['send'], auto_transitions=d['auto'], model_attribute=d['attr'],
              model_override=d['override'], ignore_invalid_triggers=d['ignore'], queued=d['queued'])
    if d['initial'] is not None:
        kw['initial'] = nm.ref([], d['initial']) if isinstance(d['initial'], str) else copy.deepcopy(d['initial'])
    else:
        kw['initial'] = None
    if d['name'] is not None:
        kw['name'] = d['name']
    for key, k in zip(MACHINE_LISTS, LIST_KEYS):
        kw[key] = list(d[k])
    m = cls(**kw)
    for md in d['models']:
        m.add_model(CLASSES[md['cls']](), initial=nm.mstate(md['state']))
    reads = []
    for o in case['ops']:
        _apply_op(m, o, hsm, reads, nm)
    final = json.loads(json.dumps(m.markup))
    e_final = enc_real_markup(final, hsm)
    m2 = cls(markup=json.loads(json.dumps(final)))
    rebuilt = json.loads(json.dumps(m2.markup))
    e_rebuilt = enc_real_markup(rebuilt, hsm)
    # every scalar constructor option, as the machine objects hold it, against what was passed
    passed = [d['queued'], d['send'], d['auto'], d['ignore'], d['attr'], d['override'],
              d['name'] + ': ' if d['name'] is not None else '']
    opts = [_options(m) == passed, _options(m2) == passed]
    xev = case.get('xevents', {})
    h1 = _run_history(m, case['hist'], case['seed'], d['attr'], use_async, xev)
    h2 = _run_history(m2, case['hist'], case['seed'], d['attr'], use_async, xev)
    beh = (h1 == h2)
    obs = [1, reads, [e_final, e_final], e_rebuilt, [beh] + opts]
    return from_sx(to_sx(obs))


# ------------------------------------------------------------------ generation
TOP = ['A', 'B', 'C', 'D', 'E', 'F', 'G']
LOW = ['a', 'b', 'c', 'd', 'x', 'y', 'z', 'u', 'v', 'w', 'o', 't', 'to', 'ot', 'too', 'top', 'op', 'open']
# Names that stress the auto-transition heuristic (it cuts the prefix 'to_' off the event name and looks the rest
# up as a state): names starting with 't', 'o' or '_', names containing 'to_', names that are prefixes / suffixes of
# each other.  Hierarchical names must not contain the separator '_'.
FLAT_NAMES = ['open', 'opened', 'op', 'tripped', 'too', 'to', 'ot', 't', 'o', '_x', 'x', 'to_x', 'a_to_b', 'to_to',
              'tot_o', 'o_t', 'otto', '__t', 'stop', 'A', 'B', 'to_', 'oto_op']
HSM_NAMES = ['open', 'opened', 'op', 'tripped', 'too', 'to', 'ot', 't', 'o', 'x', 'otto', 'stop', 'A', 'B', 'toto']
TRIGGERS = ['e0', 'e1', 'e2', 'e3', 'toggle', 'tock', 'ot_go']
# user triggers of the form to_<something that is never a state name>: inside the envelope (the heuristic cannot
# take them for automatic events), added / removed / decorated by later operations like any other trigger
TO_USER = ['to_zq', 'to_go9']


def _is_user(t):
    return not t.startswith('to_') or t in TO_USER


def _nested_triggers(states):
    out = set()
    for s in states:
        out |= {t['trigger'] for t in s['transitions']} | _nested_triggers(s['children'])
    return out



def near_auto_trigger(r, tgt):
    """a user trigger that resembles an automatic one but is not of the form to_<...> (inside the envelope)"""
    t = r.choice(['to' + tgt, 'tox' + tgt, 'ato_' + tgt, 'To_' + tgt, 'ot_' + tgt, 'to' + tgt + '_'])
    return 'tox' + tgt if t.startswith('to_') else t


class G(object):
    def __init__(self, rng, kf=0):
        self.r = rng
        self.k = 0
        self.q = 0
        self.kf = kf
        self.low = 0

    def cbs(self, hi=2, p_empty=0.55, cond=False):
        if self.r.random() < p_empty:
            return []
        out = []
        for _ in range(self.r.randint(1, hi)):
            if cond:
                self.q += 1
                out.append('q%d' % self.q)
            else:
                self.k += 1
                out.append('k%d' % self.k)
        return out

    def state(self, name, hsm, mign, depth):
        r = self.r
        ign = 'absent'
        if r.random() < 0.3:
            ign = True
        elif mign is False and r.random() < 0.2:
            ign = False
        s = dict(name=name, on_enter=self.cbs(), on_exit=self.cbs(), on_final=self.cbs(1, 0.7) if hsm else [],
                 ignore=ign, final=r.random() < 0.25, initial=None, children=[], transitions=[])
        if hsm and depth < 3 and r.random() < (0.5 if depth == 1 else 0.3):
            n = r.randint(2, 3)
            names = r.sample(LOW, n)
            s['children'] = [self.state(c, hsm, mign, depth + 1) for c in names]
            x = r.random()
            if x < 0.6:
                s['initial'] = r.choice(names)
            elif x < 0.8:
                s['initial'] = list(names)
            for _ in range(r.randint(0, 3)):
                s['transitions'].append(self.trans(r.choice(['e0', 'e1', 'e2', 'n0', 'n1', 'tock']), names, names))
        return s

    def trans(self, trigger, sources, dests):
        r = self.r
        src = r.choice(sources)
        x = r.random()
        dest = None if x < 0.15 else src if x < 0.3 else r.choice(dests)
        return dict(trigger=trigger, source=src, dest=dest, conditions=self.cbs(2, 0.6, True),
                    unless=self.cbs(1, 0.8, True), prepare=self.cbs(1, 0.75), before=self.cbs(2, 0.65),
                    after=self.cbs(2, 0.65))


def all_paths(states, prefix=()):
    out = []
    for s in states:
        p = list(prefix) + [s['name']]
        out.append(p)
        out += all_paths(s['children'], p)
    return out


def node_at(states, path):
    cur = None
    lst = states
    for n in path:
        cur = [s for s in lst if s['name'] == n][0]
        lst = cur['children']
    return cur


def resolve(states, path):
    node = node_at(states, path)
    ini = node['initial']
    if ini:
        names = [ini] if isinstance(ini, str) else list(ini)
        ent = [resolve(states, list(path) + [n]) for n in names]
        return {'par': ent} if len(ent) > 1 else ent[0]
    return list(path)


def gen(rng, i, tier):
    kf = 0
    if i % 10 == 9:
        kf = 1 + (i // 10) % 3
    r = rng
    g = G(r, kf)
    hsm = r.random() < 0.55
    if kf == 3:
        hsm = False
    mign = r.choice([None, None, False, True])
    if kf == 1:
        mign = True
    auto = r.random() < 0.5
    attr = 'state'
    if kf == 3:
        auto, attr = True, 'status'
    elif (hsm or not auto) and r.random() < 0.25:
        attr = 'status'
    if kf == 2:
        auto = False
    override = r.random() < 0.15
    # asyncio variants (MarkupMachine + AsyncMachine, composed like the factory does): queued may be 'model'
    use_async = kf == 0 and r.random() < 0.25
    queued = r.choice([False, True, 'model']) if use_async else r.random() < 0.3
    ntop = r.randint(2, 4) if hsm else r.randint(1, 5)
    # enum mode: every state of the description (and every state added later) is given as an Enum member, in
    # 'name', 'initial' (single member or list of members), 'parallel' / 'children', transition sources and
    # destinations, the machine's initial state and the models' states; the markup must still consist of names
    use_enum = kf == 0 and r.random() < 0.3
    if r.random() < 0.4:
        names = TOP[:ntop]
        pool = TOP
    else:
        pool = HSM_NAMES if hsm else [n for n in FLAT_NAMES if not (use_enum and n.startswith('_'))]
        names = r.sample(pool, ntop)
    states = [g.state(n, hsm, mign, 1) for n in names]
    if use_enum and hsm and r.random() < 0.7:
        # make sure there is a compound state whose initial substates are a LIST of members (parallel regions)
        comp = [s for s in states if s['children']]
        if comp:
            tgt_s = r.choice(comp)
        else:
            tgt_s = states[-1]
            tgt_s['children'] = [g.state(c, hsm, mign, 3) for c in r.sample(LOW, 2)]
        tgt_s['initial'] = [c['name'] for c in tgt_s['children']]
    if kf == 1:
        r.choice(states)['ignore'] = False
    paths = all_paths(states)
    joined = ['_'.join(p) for p in paths]
    triggers = TRIGGERS
    transitions = [g.trans(r.choice(triggers), joined, joined) for _ in range(r.randint(0, 6))]
    if kf == 0 and r.random() < 0.3:
        # a look-alike of an automatic event: from every top-level state to one target, name not 'to_<...>'
        tgt = r.choice(names)
        t = g.trans(near_auto_trigger(r, tgt), names, [tgt])
        transitions += [dict(t, source=n, dest=tgt) for n in names]
    if kf == 2:
        tgt = r.choice(names)
        t = g.trans('to_' + tgt, names, [tgt])
        srcs = list(names)
        if len(srcs) > 1 and r.random() < 0.4:
            srcs.remove(r.choice(srcs))      # not from every state: the heuristic must NOT fire, nothing is lost
        transitions += [dict(t, source=n, dest=tgt) for n in srcs]
    ini = r.choice(names)
    if hsm and not use_enum and r.random() < 0.2:      # (a nested Enum member as machine initial registers a new state)
        ini = '_'.join(r.choice(paths))
    classes = ['ModelOA', 'ModelOB'] if override else ['ModelA', 'ModelB', 'ModelC']
    models = [dict(state=resolve(states, r.choice(paths)), cls=r.choice(classes)) for _ in range(r.randint(1, 3))]
    desc = dict(send=r.random() < 0.3, auto=auto, attr=attr, override=override, ignore=mign,
                queued=queued, models=models, initial=ini, name=r.choice([None, None, 'mach']),
                transitions=transitions, states=states)
    for k in LIST_KEYS:
        desc[k] = g.cbs(2, 0.6)
    # callbacks that trigger an event on another model (global queue vs one queue per model vs no queue)
    xevents = {}
    if kf == 0 and transitions and r.random() < 0.25:
        for n in range(r.randint(1, 2)):
            name = 'x%d' % (n + 1)
            xevents[name] = r.choice(sorted({t['trigger'] for t in transitions}))
            r.choice(transitions)[r.choice(['before', 'after'])].append(name)
    # ---- script of later operations, tracked on a shadow copy so that they stay valid
    sh_states = copy.deepcopy(states)
    root_ev = {}                      # trigger -> list of (source, dest) at root scope

    def note(trg, src, dst):
        root_ev.setdefault(trg, []).append((src, dst))
    for t in transitions:
        note(t['trigger'], t['source'], t['dest'])
    nmodels = len(models)
    ops = []
    nops = r.randint(0, 7)
    fresh_top = [n for n in pool if n not in names]
    r.shuffle(fresh_top)
    for _ in range(nops):
        x = r.random()
        paths = all_paths(sh_states)
        if x < 0.28:
            comp = [p for p in paths if node_at(sh_states, p)['children']]
            ops.append(['get', r.choice(comp)] if (hsm and comp and r.random() < 0.3) else ['get'])
        elif x < 0.42:
            if hsm and r.random() < 0.5:
                scope = r.choice(paths)
                if len(scope) >= 3:
                    scope = scope[:2]
                node = node_at(sh_states, scope)
                used = {c['name'] for c in node['children']}
                cand = [n for n in LOW if n not in used]
                if not cand:
                    continue
                s = g.state(r.choice(cand), hsm, mign, 3)
                node['children'].append(copy.deepcopy(s))
                ops.append(['add_state', scope, s])
            else:
                if not fresh_top:
                    continue
                s = g.state(fresh_top.pop(0), hsm, mign, 1 if r.random() < 0.5 else 2)
                sh_states.append(copy.deepcopy(s))
                ops.append(['add_state', [], s])
        elif x < 0.62:
            scope = []
            if hsm and r.random() < 0.4:
                comp = [p for p in paths if node_at(sh_states, p)['children']]
                if comp:
                    scope = r.choice(comp)
            if scope:
                local = [c['name'] for c in node_at(sh_states, scope)['children']]
                srcs_all, dests = local, local
            else:
                srcs_all, dests = ['_'.join(p) for p in paths], ['_'.join(p) for p in paths]
                local = [s['name'] for s in sh_states]
            y = r.random()
            src = None if y < 0.25 else r.sample(srcs_all, r.randint(1, min(2, len(srcs_all))))
            z = r.random()
            dst = ['none'] if z < 0.15 else ['same'] if (z < 0.35 and src is not None) else ['to', r.choice(dests)]
            trg = r.choice(['e0', 'e1', 'e4', 'e5', 'toggle', 'tock'] + TO_USER if not scope
                           else ['e1', 'n1', 'n2', 'n3', 'tock', 'to_zq'])
            ops.append(['add_trans', scope, trg, src, dst, g.cbs(1, 0.6, True), g.cbs(1, 0.8, True), g.cbs(1, 0.7),
                        g.cbs(1, 0.6), g.cbs(1, 0.6)])
            if not scope:
                for s in (local if src is None else src):
                    note(trg, s, s if dst[0] == 'same' else None if dst[0] == 'none' else dst[1])
            else:
                node_at(sh_states, scope)['transitions'].append(dict(trigger=trg))     # tracked for later removal
        elif x < 0.72:
            user = [t for t in root_ev if _is_user(t)]
            if hsm:     # also events that are declared only inside nested states
                user = sorted(set(user) | {t for t in _nested_triggers(sh_states) if _is_user(t)})
            if not user or override:     # remove_transition needs the trigger bound on the models (delattr)
                continue
            trg = r.choice(user)
            if hsm:
                # the trigger disappears from every scope
                ops.append(['rem_trans', trg, None, None])
                root_ev.pop(trg, None)
                _drop_nested(sh_states, trg)
            else:
                src = None if r.random() < 0.5 else [r.choice(root_ev[trg])[0]]
                dsts = [d for _, d in root_ev[trg] if d is not None]
                dst = None if (r.random() < 0.6 or not dsts) else [r.choice(dsts)]
                ops.append(['rem_trans', trg, src, dst])
                keep = [(s, d) for s, d in root_ev[trg]
                        if (src is not None and s not in src) or (dst is not None and d not in dst)]
                if keep:
                    root_ev[trg] = keep
                else:
                    del root_ev[trg]
        elif x < 0.82:
            p = r.choice(paths)
            g.k += 1
            if hsm and r.random() < 0.4:     # HierarchicalMachine.on_enter(state, cb) / on_exit(state, cb)
                ops.append(['direct_state', r.randint(0, 1), p, 'k%d' % g.k])
            else:
                ops.append(['reg_state', r.randint(0, 2 if hsm else 1), p, 'k%d' % g.k])
        elif x < 0.9:
            user = [t for t in root_ev if _is_user(t)]
            if not user:
                continue
            g.k += 1
            ops.append(['reg_event', r.randint(0, 2), r.choice(user), 'k%d' % g.k])
        elif x < 0.96:
            ops.append(['set_model', r.randrange(nmodels), resolve(sh_states, r.choice(paths))])
        else:
            ops.append(['add_model', r.choice(classes), resolve(sh_states, r.choice(paths))])
            nmodels += 1
    if r.random() < 0.35:
        # the markup is read before and after every single reconfiguration step: nothing else can refresh the cache
        single = []
        for o in ops:
            single += [o] if o[0] == 'get' else [['get'], o, ['get']]
        ops = single
    # ---- history
    paths = all_paths(sh_states)
    evs = ['e0', 'e1', 'e2', 'e3', 'e4', 'n0', 'n1', 'n2', 'n3', 'zz', 'toggle', 'tock', 'ot_go'] + TO_USER
    evs += [t['trigger'] for t in transitions if t['trigger'] not in evs and not t['trigger'].startswith('to_')]
    if auto:
        pre = 'to_' if (hsm or attr == 'state') else 'to_%s_' % attr
        evs += [pre + '_'.join(r.choice(paths)) for _ in range(3)]
    if kf == 2:
        evs += [t['trigger'] for t in transitions if t['trigger'].startswith('to_')] * 3
    hist = [[r.randrange(nmodels), r.choice(evs)] for _ in range(r.randint(3, 10))]
    return dict(hsm=hsm, desc=desc, ops=ops, hist=hist, seed=r.randrange(1000), kf_stream=kf, enum=use_enum,
                xevents=xevents, **{'async': use_async})


def _drop_nested(states, trg):
    for s in states:
        s['transitions'] = [t for t in s['transitions'] if t['trigger'] != trg]
        _drop_nested(s['children'], trg)


# ------------------------------------------------------------------ envelope / known findings
def _all_sdicts(case):
    def walk(l):
        for s in l:
            yield s
            for x in walk(s['children']):
                yield x
    for s in walk(case['desc']['states']):
        yield s
    for o in case['ops']:
        if o[0] == 'add_state':
            for s in walk([o[2]]):
                yield s


def _auto_lookalike_swallowed(case):
    """KF-C14-2, exactly: in the FINAL machine a root-scope user event to_<top-level state> has a transition from
    every top-level state, so the heuristic takes it for an automatic event.  (The generator declares to_<...>
    triggers only in the description's root transitions and never removes them; top-level states only grow.)"""
    d = case['desc']
    top = [s['name'] for s in d['states']] + [o[2]['name'] for o in case['ops'] if o[0] == 'add_state' and not o[1]]
    by_trigger = {}
    for t in d['transitions']:
        if t['trigger'].startswith('to_'):
            by_trigger.setdefault(t['trigger'], set()).add(t['source'])
    for trg, srcs in by_trigger.items():
        if trg[3:] in top and len(srcs) == len(top):
            return True
    return False


def kf_class(case):
    d = case['desc']
    if d['ignore'] is True and any(s['ignore'] is False for s in _all_sdicts(case)):
        return 'KF-C14-1'
    if _auto_lookalike_swallowed(case):
        return 'KF-C14-2'
    if not case['hsm'] and d['auto'] and d['attr'] != 'state':
        return 'KF-C14-3'
    return None


def in_envelope(case):
    if any(o[0] == 'set_list' for o in case['ops']):
        return False
    return kf_class(case) is None


class Obs(list):
    """canonical implementation observation: the compared part is the list (all markups); the result of the
    behaviour differential (original vs rebuilt machine) travels beside it for the oracle"""
    beh = True
    opts = (True, True)


def canon(case, obs):
    """Compared between model and implementation: every markup read, the final markup, the rebuilt markup.
    The model additionally emits (a) whether the rebuilt DESCRIPTION equals the original - a prediction, not an
    observation of the implementation, so it is not compared (the oracle checks the implementation's behaviour
    differential instead) - and (b) wf_machine of the final machine: every in-envelope case must satisfy it."""
    if isinstance(obs, Obs):
        return obs
    if isinstance(obs, list) and len(obs) == 6:          # model
        out = obs[:4]
        if not obs[5] and in_envelope(case):
            out = out + ['WF-HYPOTHESIS-FALSE-ON-IN-ENVELOPE-CASE']
        return out
    if isinstance(obs, list) and len(obs) == 5:          # implementation
        o = Obs(obs[:4])
        o.beh = bool(obs[4][0])
        o.opts = (bool(obs[4][1]), bool(obs[4][2]))
        return o
    return obs


def classify_known(case, model_obs, impl_obs):
    """A known-finding id is returned only for an ORACLE failure (model_obs is None) of a case of that class whose
    failing clause is the one the finding describes.  A model/implementation disagreement is never masked."""
    if model_obs is not None:
        return None
    kf = kf_class(case)
    if kf is None:
        return None
    clause = oracle(case, canon(case, impl_obs)) or ''
    if kf == 'KF-C14-2' and not clause.startswith('roundtrip: the rebuilt machine reacts differently'):
        return None      # the swallowed event is missing on both sides: markups agree, behaviour differs
    if kf == 'KF-C14-3' and not clause.startswith('roundtrip: the machine rebuilt'):
        return None      # exported automatic transitions are doubled in the rebuilt machine's markup
    return kf


def oracle(case, obs):
    if not isinstance(obs, list) or obs[0] != 1:
        return None
    if any(o[0] == 'set_list' for o in case['ops']):
        return None
    if obs[3] != obs[2][0]:
        return 'roundtrip: the machine rebuilt from the JSON round trip of the markup has a different markup'
    opts = getattr(obs, 'opts', (True, True))
    if not opts[0]:
        return 'options: the machine does not hold the constructor options that were passed'
    if not opts[1]:
        return 'roundtrip: a constructor option of the rebuilt machine differs from the value passed to the original'
    if not getattr(obs, 'beh', True):
        return 'roundtrip: the rebuilt machine reacts differently to the event history'
    return None


def nontrivial(case, obs):
    if not isinstance(obs, list) or obs[0] != 1:
        return False
    seen_get = False
    mod_after_get = False
    for o in case['ops']:
        if o[0] == 'get':
            seen_get = True
        elif seen_get and o[0] in ('add_state', 'add_trans', 'rem_trans', 'reg_state', 'reg_event'):
            mod_after_get = True
    trs = obs[2][0][15]
    rich = any(len(t[0]) > 2 or t[2] or t[3] for t in trs)
    return mod_after_get and len(trs) >= 2 and rich


def stats(case, obs, dist):
    def inc(k, n=1):
        dist[k] = dist.get(k, 0) + n
    if not isinstance(obs, list) or obs[0] != 1:
        inc('undecodable')
        return
    inc('hsm' if case['hsm'] else 'flat')
    if case.get('enum'):
        inc('enum_hsm' if case['hsm'] else 'enum_flat')
        if any(isinstance(s['initial'], list) for s in _all_sdicts(case)):
            inc('enum_with_initial_list')
    for o in case['ops']:
        inc('op_' + o[0])
    inc('models', len(case['desc']['models']))
    inc('states_total', len(all_paths(case['desc']['states'])))
    inc('root_transitions_final', len(obs[2][0][15]))
    inc('history_events', len(case['hist']))
    if getattr(obs, 'beh', False):
        inc('behaviour_equal')
    if case.get('async'):
        inc('async')
    if case.get('xevents'):
        inc('cross_model_trigger_callbacks')
    inc('queued_%s' % case['desc']['queued'])
    for k in ('send', 'auto', 'override'):
        if case['desc'][k]:
            inc('opt_' + k)
    inc('ignore_%s' % case['desc']['ignore'])
    if case.get('kf_stream'):
        inc('kf_stream_%d' % case['kf_stream'])


def _valid(c):
    """a shrunk case must still drive the library without harness errors"""
    try:
        return isinstance(impl_c14(c), list)
    except BaseException:
        return False


def shrink_candidates(case):
    for c in _shrink_raw(case):
        if _valid(c):
            yield c


def _shrink_raw(case):
    for i in range(len(case['ops'])):
        c = copy.deepcopy(case)
        del c['ops'][i]
        yield c
    for i in range(len(case['hist'])):
        c = copy.deepcopy(case)
        del c['hist'][i]
        yield c
    for i in range(len(case['desc']['transitions'])):
        c = copy.deepcopy(case)
        del c['desc']['transitions'][i]
        yield c
    for k in LIST_KEYS:
        for i in range(len(case['desc'][k])):
            c = copy.deepcopy(case)
            del c['desc'][k][i]
            yield c
    if len(case['desc']['models']) > 1:
        for i in range(len(case['desc']['models'])):
            c = copy.deepcopy(case)
            del c['desc']['models'][i]
            c['hist'] = [h for h in c['hist'] if h[0] < len(c['desc']['models'])]
            c['ops'] = [o for o in c['ops'] if o[0] not in ('set_model',)]
            yield c
