"""C12 — may_<event> predicts the trigger and is side-effect free (flat engine, sync classes on flat
configurations; hierarchical configurations are covered by the HSM checks)."""
import copy
import random
import flat
from c01 import shrink_candidates  # noqa

PID = 'C12'
KIND = 0
IMPL = ('flat', 'impl_flat')
COUNTS = dict(quick=1500, thorough=40000)
CLASSES = ['Machine', 'LockedMachine', 'HierarchicalMachine', 'LockedHierarchicalMachine']
RULE = ('cases = flat machines of the C01 generator with a DETERMINISTIC env (replies keyed by callback id only), '
        'histories of (may_trigger(e); trigger(e)) pairs incl. unknown events; every 6th case from the malformed '
        'stream (unregistered destinations -> KF-C12-1 class); every 5th case lets one callback raise during a may_ '
        'call (with/without on_exception handlers). Observed: complete callback trace of the may_ call (slots, '
        'arguments, states seen), its result, the model state after it, and the following real trigger. Oracle on '
        'the implementation alone: may result == (the immediately following trigger executed a transition). '
        'Non-trivial: some may_ call evaluated >= 1 failing check or >= 2 candidates; distinct by case hash.')
ASSUMPTIONS = ['conditions are deterministic (the hypothesis of C12)',
               'the exception-routing clause of C12 is tied by correspondence only (no theorem yet)']
THEOREMS = ['C12_pure', 'C12_iff', 'C12_iff_refuted', 'C12_nonvacuous', 'C12_hsm_pure', 'C12_hsm_iff',
            'C12_hsm_may_characterisation', 'C12_hsm_nonvacuous', 'C12_hsm_iff_total', 'C12_hsm_iff_total_nonvacuous', 'C12_any_env', 'C12_hsm_any_env']


def gen(rng, i, tier, force_malformed=None):
    cls = CLASSES[i % len(CLASSES)]
    # unregistered destinations: flat classes only (hierarchical classes reject them before the exit callbacks)
    c = flat.gen_case(rng, malformed=((i % 6 == 5 and 'Hierarchical' not in cls) if force_malformed is None else force_malformed),
                      hist_len=1, p_unknown=0.0)
    c['env']['bypos'] = {}
    ne = len(c['machine']['events'])
    hist = []
    for j in range(rng.randint(1, 4)):
        e = rng.randrange(ne) if rng.random() < 0.92 else ne + 2
        hist.append((1, e, 100 + 2 * j))
        hist.append((0, e, 101 + 2 * j))
    c['history'] = hist
    c['cls'] = cls
    if c['cls'] != 'Machine':
        # hierarchical classes route unknown events differently (C09 excludes unknown names)
        c['history'] = [(k, e, a) for (k, e, a) in hist if e < ne] or [(1, 0, 100), (0, 0, 101)]
    if i % 5 == 4:
        c['env']['bypos'] = {rng.randint(0, 6): (True, flat.pick_exn(i // 5), [])}
        c['raising'] = True
    return c


def enc(case):
    return flat.enc_case(case)


def _malformed(case):
    regs = {s for s, _ in case['machine']['states']}
    return any(t['dst'] is not None and t['dst'] not in regs for _, ts in case['machine']['events'] for t in ts)


def in_envelope(case):
    return not _malformed(case)


def classify_known(case, mo, io):
    # KF-C12-1: only for machines with an unregistered destination, and only when the real library
    # behaves exactly like the faithful model (which has the same quirk)
    if _malformed(case) and (mo is None or mo == io):
        return 'KF-C12-1'
    return None


def oracle(case, obs):
    if not isinstance(obs, list) or obs[0] != 1 or case.get('raising'):
        return None
    steps = obs[1]
    for j in range(0, len(steps) - 1, 2):
        (k1, e1, _), (k2, e2, _) = case['history'][j], case['history'][j + 1]
        if k1 == 1 and k2 == 0 and e1 == e2:
            may_items, may_res, may_state = steps[j]
            _, trig_res, _ = steps[j + 1]
            before = case['init'] if j == 0 else steps[j - 1][2]
            if may_state != before:
                return 'may_ changed the model state at call %d' % j
            if any(it[0] not in (0, 1, 2, 3, 12) for it in may_items):
                return 'may_ ran a callback outside the prepare/condition stages at call %d' % j
            if may_res[0] == 0 and may_res[1] != (trig_res == [0, True]):
                return 'may_ answered %s but the trigger result was %s (call %d)' % (may_res[1], trig_res, j)
    return None


def nontrivial(case, obs):
    if not isinstance(obs, list) or obs[0] != 1:
        return False
    for (k, e, a), (items, res, st) in zip(case['history'], obs[1]):
        if k == 1:
            failed = any((it[0] == 2 and not it[6]) or (it[0] == 3 and it[6]) for it in items)
            ncand = sum(1 for it in items if it[0] == 0) if case['machine']['prepare_event'] else 0
            if failed or ncand >= 2 * max(1, len(case['machine']['prepare_event'])):
                return True
    return False


def stats(case, obs, dist):
    if not isinstance(obs, list) or obs[0] != 1:
        return
    for (k, e, a), (items, res, st) in zip(case['history'], obs[1]):
        if k == 1:
            key = 'may_' + ('raised' if res[0] == 1 else str(res[1]))
            dist[key] = dist.get(key, 0) + 1
    dist['cls_' + case['cls']] = dist.get('cls_' + case['cls'], 0) + 1
    if _malformed(case):
        dist['malformed_cases'] = dist.get('malformed_cases', 0) + 1


def extra_checks(tier, seed):
    """hierarchical configurations (nested, parallel, transitions inherited from ancestors, declared globally or
    inside state definitions): (may_trigger(e); trigger(e)) pairs with deterministic conditions on the synchronous
    hierarchical classes, compared with the Coq hierarchical engine (Hsm.can_trigger / trigger_event) and checked
    by the implementation-only oracle (may == the trigger executed a transition; no state change; only
    prepare-stage and condition callbacks)."""
    import hsm
    import framework as F
    n = 400 if tier == 'quick' else 12000
    cases = []
    for i in range(n):
        rng = random.Random('C12h-%d-%d' % (seed, i))
        c = hsm.gen_case(rng, hist_len=1, p_parallel=0.35, single_scope=(i % 3 != 0), p_enum=0.15, p_sep=0.2)
        c['env'] = dict(default=c['env']['default'], bypos={}, bycb={k: v for k, v in c['env']['bycb'].items() if v[1] is None})
        ne = 1 + max([e for e, _ in c['machine']['events']] + [e for _, d in hsm.all_defs(c['machine']) for e, _ in d['events']] + [0])
        hist = []
        for j in range(rng.randint(1, 4)):
            e = rng.randrange(ne)
            hist.append((1, e, 100 + 2 * j))
            hist.append((0, e, 101 + 2 * j))
        c['history'] = hist
        c['cls'] = ['HierarchicalMachine', 'LockedHierarchicalMachine', 'HierarchicalGraphMachine'][i % 3]
        if i % 4 == 1:
            c['attr'] = 'phase'         # custom model_attribute
        cases.append(c)
    mo, io = hsm.run_pairs(cases)
    bad = [(c, m, i) for c, m, i in zip(cases, mo, io) if m != i]
    may_true = may_false = 0
    ofail = None
    for c, i in zip(cases, io):
        if not isinstance(i, list) or i[0] != 1:
            continue
        steps = i[2]
        for j in range(0, len(steps) - 1, 2):
            may_items, may_res, may_cfg = steps[j]
            _, trig_res, _ = steps[j + 1]
            before = i[1] if j == 0 else steps[j - 1][2]
            if may_res[0] == 0:
                may_true += 1 if may_res[1] else 0
                may_false += 0 if may_res[1] else 1
                msg = None
                if may_cfg != before:
                    msg = 'may_ changed the configuration'
                elif any(it[0] not in (0, 1, 2, 3, 12) for it in may_items):
                    msg = 'may_ ran a callback outside the prepare/condition stages'
                elif bool(may_res[1]) != (trig_res == [0, True]):
                    msg = 'may_ answered %s but the trigger result was %s' % (may_res[1], trig_res)
                if msg and ofail is None:
                    ofail = (c, i, 'call %d: %s' % (j, msg))
    detail = dict(cases=len(cases), disagreements=len(bad), may_true=may_true, may_false=may_false)
    out = []
    if ofail:
        c, i, msg = ofail
        out.append(('hierarchical_may', False, detail, dict(kind='oracle', stream='hierarchical', case=c, impl_obs=i, failing_clause=msg)))
    elif bad:
        c, m, i = bad[0]
        out.append(('hierarchical_may', False, detail, dict(kind='counterexample', stream='hierarchical', case=c, model_obs=m, impl_obs=i)))
    else:
        out.append(('hierarchical_may', True, detail, {}))
    out.append(async_flat_stream(tier, seed))
    out.append(async_hsm_stream(tier, seed))
    out.append(may_from_callbacks_stream(tier, seed))
    # machines reconfigured (add_transition) between may_ calls: the answer follows the machine as it is now
    import c01
    name, ok, detail, rep = c01.late_transitions_stream(tier, seed, may=True, tag='C12l')
    out.append(('may_after_transitions_were_added', ok, detail, rep))
    return out


# ------------------------------------------------------------------ may_<event> asked from inside callbacks
def _probe_answers(world, items_from):
    return [[it[0], it[1]] for it in world.items[items_from:]]


def impl_may_probe(case):
    """history on a hierarchical machine some of whose callbacks (action code 2) ask may_trigger(e) for every event
    while the machine is in the middle of processing (a naming scope may be active, the state may already have
    changed); every probe is repeated on a FRESH machine of the same definition whose model is placed in the state
    the probing callback saw: same answers, same callbacks evaluated in the same order (top-level may_ is tied to
    the Coq engine by the main streams).  Returns [number of probes, first mismatch or None]."""
    import asyncio
    import hsm
    cname = case.get('cls', 'HierarchicalMachine')
    is_async = 'Async' in cname
    events = ['e%d' % e for e in range(case['nevents'])]

    def build(probing):
        world = hsm.World(case['env'], case['machine']['send'])
        world.state_of = hsm.state_forest
        st = dict(in_probe=not probing, probes=[], pending=[])
        holder = {}

        def ask_sync():
            out = []
            for ev in events:
                n0 = len(world.items)
                try:
                    r = [0, bool(holder['model'].may_trigger(ev))]
                except BaseException as ex:  # noqa
                    r = [1, flat.classify_exc(ex)]
                out.append([ev, r, _probe_answers(world, n0)])
            return out

        async def ask_async():
            out = []
            for ev in events:
                n0 = len(world.items)
                try:
                    r = [0, bool(await holder['model'].may_trigger(ev))]
                except BaseException as ex:  # noqa
                    r = [1, flat.classify_exc(ex)]
                out.append([ev, r, _probe_answers(world, n0)])
            return out
        if not is_async:
            def perform(a):
                if a[0] == 2 and not st['in_probe']:
                    st['in_probe'] = True
                    try:
                        snap = copy.deepcopy(getattr(holder['model'], 'state'))
                        st['probes'].append((snap, ask_sync()))
                    finally:
                        st['in_probe'] = False
            world.perform = perform
        else:
            world.perform = lambda a: st['pending'].append(a)
            base = world.recorder

            def arecorder(slot, cb, model_of_call=None):
                inner = base(slot, cb, model_of_call)

                async def rec(*args, **kwargs):
                    for _ in range(cb % 2):
                        await asyncio.sleep(0)
                    del st['pending'][:]
                    try:
                        r = inner(*args, **kwargs)
                    finally:
                        todo = list(st['pending'])
                        del st['pending'][:]
                    for a in todo:
                        if a[0] == 2 and not st['in_probe']:
                            st['in_probe'] = True
                            try:
                                snap = copy.deepcopy(getattr(holder['model'], 'state'))
                                st['probes'].append((snap, await ask_async()))
                            finally:
                                st['in_probe'] = False
                    return r
                rec.__name__ = inner.__name__
                return rec
            world.recorder = arecorder
        machine, model = hsm.build_hsm(case, world, flat.get_class(cname), extra_kwargs=flat.class_kwargs(cname))
        world.model_ids[id(model)] = 0
        world.current_model = model
        holder['model'] = model
        return world, st, model, ask_sync, ask_async
    world, st, model, _, _ = build(True)
    if not is_async:
        for k, e, a in case['history']:
            tok = flat.Token(a)
            try:
                model.trigger('e%d' % e, tok, k=tok)
            except BaseException:  # noqa
                pass
    else:
        async def run():
            for k, e, a in case['history']:
                tok = flat.Token(a)
                try:
                    await model.trigger('e%d' % e, tok, k=tok)
                except BaseException:  # noqa
                    pass
        asyncio.run(run())
    probes = st['probes']
    first = None
    for snap, inside in probes:
        w2, st2, m2, ask_sync, ask_async = build(False)
        setattr(m2, 'state', copy.deepcopy(snap))
        fresh = ask_sync() if not is_async else asyncio.run(ask_async())
        if fresh != inside and first is None:
            first = dict(state=hsm.forest_of_value(snap) if hasattr(hsm, 'forest_of_value') else repr(snap),
                         asked_from_a_callback=inside, asked_on_a_fresh_machine_in_that_state=fresh)
    return [len(probes), first]


def may_from_callbacks_stream(tier, seed):
    import hsm
    import framework as F
    n = 240 if tier == 'quick' else 5000
    cases = []
    for i in range(n):
        rng = random.Random('C12p-%d-%d' % (seed, i))
        c = hsm.gen_case(rng, hist_len=rng.randint(2, 4), p_parallel=0.4, single_scope=(i % 4 == 3), p_sep=0.15)
        if i % 5 in (1, 4):
            hsm.trim_lists(c)       # asyncio classes: one callback per stage, nothing runs beside the probing callback
        allcb = sorted({it for it in _all_cbs(c['machine'])})
        bycb = {k: (v[0], None, []) for k, v in c['env']['bycb'].items()}
        for cb in rng.sample(allcb, min(len(allcb), rng.randint(2, 5))):
            ret = bycb.get(cb, (c['env']['default'], None, []))[0]
            bycb[cb] = (ret, None, [(2, 0)])
        c['env'] = dict(default=c['env']['default'], bypos={}, bycb=bycb)
        c['nevents'] = 1 + max([e for e, _ in c['machine']['events']] +
                               [e for _, d in hsm.all_defs(c['machine']) for e, _ in d['events']] + [0])
        c['cls'] = ['HierarchicalMachine', 'HierarchicalAsyncMachine', 'LockedHierarchicalMachine',
                    'HierarchicalGraphMachine', 'HierarchicalAsyncGraphMachine'][i % 5]
        cases.append(c)
    io = F.run_impl('c12', 'impl_may_probe', cases)
    probes = 0
    bad = None
    for c, r in zip(cases, io):
        if isinstance(r, dict):
            bad = bad or (c, r)
            continue
        probes += r[0]
        if r[1] is not None:
            bad = bad or (c, r[1])
    detail = dict(cases=len(cases), probes=probes, disagreements=0 if bad is None else 1)
    if bad:
        c, r = bad
        return ('may_asked_from_callbacks', False, detail,
                dict(kind='oracle', stream='may_<event> asked from inside a callback vs on a fresh machine placed in the same state',
                     case=c, impl_obs=r, failing_clause='may_<event> depends on more than the machine definition and the model\'s state'))
    return ('may_asked_from_callbacks', True, detail, {})


def _all_cbs(m):
    import hsm
    out = []
    for key in ('prepare_event', 'before_sc', 'after_sc', 'finalize'):
        out += m[key]

    def ts_cbs(ts):
        for t in ts:
            out.extend(t['prepare'] + [c for c, _ in t['conds']] + t['before'] + t['after'])
    for _, ts in m['events']:
        ts_cbs(ts)
    for _, d in hsm.all_defs(m):
        out.extend(d['enter'] + d['exit'])
        for _, ts in d['events']:
            ts_cbs(ts)
    return out


def async_hsm_stream(tier, seed):
    """the asyncio hierarchical classes (their own copy of _can_trigger / _can_trigger_nested): (may_trigger; trigger)
    pairs on nested / parallel configurations with suspending coroutine callbacks, callback lists trimmed to one
    entry, against the Coq hierarchical engine"""
    import hsm
    import framework as F
    n = 300 if tier == 'quick' else 8000
    cases = []
    for i in range(n):
        rng = random.Random('C12ah-%d-%d' % (seed, i))
        c = hsm.trim_lists(hsm.gen_case(rng, hist_len=1, p_parallel=0.35, single_scope=(i % 3 != 0), p_enum=0.15, p_sep=0.25))
        c['env'] = dict(default=c['env']['default'], bypos={}, bycb={k: v for k, v in c['env']['bycb'].items() if v[1] is None})
        ne = 1 + max([e for e, _ in c['machine']['events']] + [e for _, d in hsm.all_defs(c['machine']) for e, _ in d['events']] + [0])
        hist = []
        for j in range(rng.randint(1, 4)):
            e = rng.randrange(ne)
            hist.append((1, e, 100 + 2 * j))
            hist.append((0, e, 101 + 2 * j))
        c['history'] = hist
        c['cls'] = ['HierarchicalAsyncMachine', 'HierarchicalAsyncGraphMachine'][i % 2]
        if i % 4 == 2:
            # an evaluated callback of the first may_ call raises (Exception and BaseException subclasses), with and
            # without on_exception handlers
            if i % 8 == 2 and not c['machine']['on_exception']:
                c['machine']['on_exception'] = [950]
            c['env']['bypos'] = {rng.randint(0, 2): (True, [(4, 1), (3, 1), (4, 7), (3, 29)][(i // 4) % 4], [])}
        if i % 5 == 3:
            c['attr'] = 'phase'
        cases.append(c)
    mo = F.run_model(3, [hsm.enc_case(c) for c in cases])
    io = F.run_impl('hsm', 'impl_hsm_async', cases)
    # (the value a hierarchical trigger returns after its exception was swallowed by on_exception handlers is
    # event_data.result as last assigned - masked on both sides as in C04's hierarchical streams, DESIGN section 9)
    bad = [(c, m, i) for c, m, i in zip(cases, mo, io) if hsm.mask_handled(c, m) != hsm.mask_handled(c, i)]
    may_true = sum(1 for m in mo if isinstance(m, list) and m[0] == 1 for j, st in enumerate(m[2]) if j % 2 == 0 and st[1] == [0, True])
    detail = dict(cases=len(cases), disagreements=len(bad), may_true=may_true)
    if bad:
        c, m, i = bad[0]
        return ('async_hierarchical_may', False, detail,
                dict(kind='counterexample', stream='asyncio hierarchical classes', case=c, model_obs=m, impl_obs=i))
    return ('async_hierarchical_may', True, detail, {})


def async_flat_stream(tier, seed):
    """the flat asyncio classes (their own copy of _can_trigger): the (may_trigger; trigger) pairs of the main stream,
    callback lists trimmed to one entry, incl. the malformed stream (unregistered destinations) and raising
    callbacks, on AsyncMachine / AsyncGraphMachine, against the flat Coq engine"""
    import framework as F
    n = 400 if tier == 'quick' else 10000
    cases = []
    for i in range(n):
        rng = random.Random('C12a-%d-%d' % (seed, i))
        c = gen(rng, i, tier, force_malformed=(i % 2 == 1))       # every second case from the malformed stream
        c = flat.trim_flat(c)
        ne = len(c['machine']['events'])
        c['history'] = [(k, e, a) for (k, e, a) in c['history'] if e < ne] or [(1, 0, 100), (0, 0, 101)]
        c['cls'] = ['AsyncMachine', 'AsyncGraphMachine'][i % 2]
        if i % 3 == 0:
            # an evaluated callback of the first may_ call raises - every third of these a BaseException subclass -
            # with on_exception handlers registered: routed to them exactly as the trigger does
            if not c['machine']['on_exception']:
                c['machine']['on_exception'] = [950]
            c['env']['bypos'] = {rng.randint(0, 2): (True, [(4, 1), (3, 1), (4, 7), (3, 29), (4, 5), (3, 20)][(i // 3) % 6], [])}
            c['raising'] = True
        cases.append(c)
    mo = F.run_model(0, [flat.enc_case(c) for c in cases])
    io = F.run_impl('flat', 'impl_flat_async', cases)
    bad = []
    kf = 0
    for c, m, i in zip(cases, mo, io):
        if m != i:
            if classify_known(c, m, i):
                kf += 1
            else:
                bad.append((c, m, i))
    detail = dict(cases=len(cases), disagreements=len(bad), known_finding_class=kf,
                  cases_with_unregistered_destination=sum(1 for c in cases if not in_envelope(c)) if 'in_envelope' in globals() else None)
    if bad:
        c, m, i = bad[0]
        return ('async_flat_may', False, detail, dict(kind='counterexample', stream='flat asyncio classes', case=c, model_obs=m, impl_obs=i))
    return ('async_flat_may', True, detail, {})
