"""C15 — pickling preserves a machine and yields an independent copy.

Model side (coq/Model/Pickle.v, kind 13): the identity-keyed side tables of a machine
(model_context_map, model_graphs, _transition_queue_dict), their maintenance by
add_model/remove_model, the __getstate__/__setstate__ hooks in effect for each of the 12
predefined classes (the locked graph classes run both protocols since /repo 74ef53e; the
locked store is a list of pairs since 3c0ca68, so unhashable models pickle), and the assumed
behaviour of pickle (fresh identities, sharing preserved, integers verbatim).  It predicts
which identities key the tables of the copy, which contexts an event on each model of the
copy enters, the state of the re-created locks — and, by theorems C15_same /
C15_independent, that every comparison flag of the behavioural differential below is 1.
The former KF-C15-1/-2/-3 and KF-C15-5 are fixed in /repo (74ef53e, 3c0ca68, 9fbcaa5, 538f6a5); KF-C15-4 is left.

Implementation side: real machines from /repo with callbacks given BY NAME as methods of
the picklable classes defined in this module; history prefix, pickle.loads(pickle.dumps(m)),
the same continuation on both, then different operations on each."""
import asyncio
import copy
import functools
import json
import pickle
import random
import sys
import threading

import flat
import hsm
from flat import _import_transitions, get_class, class_kwargs

PID = 'C15'
KIND = 13
IMPL = ('c15', 'impl_c15')
COUNTS = dict(quick=3600, thorough=36000)
NFLAGS = 6
NINDEP = 9
CLASSES = ['Machine', 'GraphMachine', 'HierarchicalMachine', 'HierarchicalGraphMachine',
           'LockedMachine', 'LockedGraphMachine', 'LockedHierarchicalMachine', 'LockedHierarchicalGraphMachine',
           'AsyncMachine', 'AsyncGraphMachine', 'HierarchicalAsyncMachine', 'HierarchicalAsyncGraphMachine']
RULE = ('case i uses predefined class i mod 12 (graph classes with the Mermaid backend); configuration = random flat '
        'machine (flat classes; 1-5 states, 1-3 events, conditions/unless, callbacks in every slot) or random state '
        'tree with exclusive and parallel compounds up to depth 3 (hierarchical classes; also flat-shaped trees), all '
        'callbacks given by NAME and resolved on picklable module-level model classes (condition outcomes from a '
        'per-model table, a few raising callbacks), queued False/True/"model" (async); 1-3 models or the machine as '
        'its own model plus 0-2 more, 8% of the cases with unhashable models, locked classes with per-model contexts '
        '[prefix also reconfigures the machine BEFORE the snapshot: remove_transition with source/dest filters (partial '
        'and complete), add_transition to old and new events with named conditions, add_states; 10% of the copies are '
        'made by copy.deepcopy instead of pickle; at the end both machines must pickle again] '
        'and default PicklableLock or a recording user context as machine_context; prefix = add_model / remove_model '
        '/ events (trigger, may_trigger, event method); snapshot = pickle.loads(pickle.dumps(machine)), in 1/4 of '
        'the locked cases taken while the machine lock is held, in 30% of the cases entered through a model '
        '(pickle.dumps(model) or (model, machine)) instead of the machine; comparison right after the round trip, '
        'then a continuation of 1-7 operations run on BOTH machines — events, add_model of a further model, '
        'remove_model and a trigger through the removed model\'s stale helper, add_states/add_transition and the new '
        'event — compared per step (result / exception type, every model state incl. removed models, per-model '
        'callback logs incl. the machine each callback saw, states/events/get_triggers, markup + Mermaid text, '
        'contexts entered); then '
        'different events, add_states, add_transition, add_model on either copy and lock probes across the copies. '
        'Non-trivial: the prefix contains >=1 event (the snapshot is not taken in the initial state) and the class '
        'owns an identity-keyed table (locked / graph / async with queued="model") or the machine has >=2 models; '
        'distinct by hash of the case.')
ASSUMPTIONS = [
    'PARTIAL: what pickle does to the object graph is assumed, not modelled (Pickle.transport: every reachable '
    'object re-created under a fresh identity, sharing preserved, integers verbatim, configuration deep-copied); the '
    'harness exercises the real pickle on every case',
    'the engine is abstract in the theorems (any step function of the resolved machine); its behaviour on the copy is '
    'compared with the original by differential execution, not with the engine models of C01/C02',
    'queues are empty at the snapshot (callbacks here never trigger); thread pre-emption is not explored: lock probes '
    'hold a lock in the main thread and trigger the other copy in a second thread with a timeout',
    'the original\'s diagrams are regenerated (get_graph(force_new=True)) right after the snapshot: a regenerated graph '
    'carries no "previous transition" styling, which is the documented effect of dropping model_graphs',
    'keys of AsyncMachine._transition_queue_dict are read (read-only) through the private attribute',
    'table operations AFTER the round trip (add_model / remove_model on the copy) are compared differentially with '
    'the same operations on the original; the theorems cover the tables at the snapshot and the frame properties',
]
THEOREMS = ['C15_hooks_table', 'C15_reachable_wf', 'C15_same', 'C15_same_run', 'C15_same_run_quiet',
            'C15_rekey_contexts', 'C15_pickles_always', 'C15_rekey_graphs', 'C15_locks_free', 'C15_fresh_identities', 'C15_frame',
            'C15_independent_run', 'C15_independent', 'C15_hold_independent', 'C15_envelope_inhabited',
            'C15_locked_graph_rekeyed', 'C15_unhashable_pickles', 'C15_async_queue_rekeyed', 'C15_guard_reachable',
            'C15_via_model_nongraph', 'C15_via_model_graph', 'C15_via_model_refuted_graph', 'C15_ident_owner_kept']


# ====================================================================== picklable user classes
class C15Error(Exception):
    pass


def _canon_state(v):
    if isinstance(v, (list, tuple)):
        return [_canon_state(x) for x in v]
    return v if isinstance(v, str) else getattr(v, 'name', str(v))


class CbMixin(object):
    """callbacks cb_<n> by name; outcome from the per-object table; log of every call"""

    def c15_setup(self, tag, env, raises, is_async, journal):
        self.c15_tag = tag
        self.c15_log = []
        self.c15_pos = 0
        self.c15_default = bool(env.get('default', True))
        self.c15_bycb = {int(k): bool(v) for k, v in env.get('bycb', [])}
        self.c15_bypos = {int(k): bool(v) for k, v in env.get('bypos', [])}
        self.c15_raises = list(raises)
        self.c15_async = is_async
        self.c15_journal = journal
        # callbacks that trigger an event on ANOTHER model of the same machine: {callback id: (tag, event)}
        self.c15_cross = {int(c): (int(t), int(e)) for c, t, e in env.get('cross', [])}

    def __getattr__(self, name):
        if name.startswith('cb_') and name[3:].isdigit() and 'c15_log' in self.__dict__:
            n = int(name[3:])
            if self.__dict__.get('c15_async') and n % 2 == 1:
                return functools.partial(self._c15_acb, n)
            return functools.partial(self._c15_cb, n)
        parent = getattr(super(CbMixin, self), '__getattr__', None)
        if parent is not None:
            return parent(name)
        raise AttributeError(name)

    def _c15_cb(self, n, *args, **kwargs):
        d = self.__dict__
        pos = d['c15_pos']
        d['c15_pos'] = pos + 1
        ret = d['c15_bypos'].get(pos, d['c15_bycb'].get(n, d['c15_default']))
        own = 2
        if len(args) == 1 and type(args[0]).__name__.endswith('EventData'):
            ed = args[0]
            own = int(ed.model is self and any(m is self for m in ed.machine.models))
        d['c15_log'].append([n, _canon_state(d.get('state')), bool(ret), own])
        if not kwargs.get('_c15_defer') and not d.get('c15_async'):
            other = self._c15_other(n)
            if other is not None:
                mach = d['c15_machine']
                mach.__dict__['c15_busy'] = True
                try:
                    try:
                        res = bool(other.trigger('e%d' % d['c15_cross'][n][1]))
                    except Exception as e:  # noqa
                        res = type(e).__name__
                finally:
                    mach.__dict__['c15_busy'] = False
                d['c15_log'].append([n, 'cross', res, 10 + other.c15_tag])
        if n in d['c15_raises']:
            raise C15Error(n)
        return bool(ret)

    def _c15_other(self, n):
        """the model on which callback n triggers an event (None: no cross trigger, or one is already running)"""
        d = self.__dict__
        spec = d.get('c15_cross', {}).get(n)
        mach = d.get('c15_machine')
        if spec is None or mach is None or mach.__dict__.get('c15_busy'):
            return None
        left = mach.__dict__.get('c15_budget', 6)     # bounded per machine (queued machines could ping-pong for ever);
        if left <= 0:                                  # the remaining budget travels with the pickled machine
            return None
        for x in mach.models:
            if getattr(x, 'c15_tag', None) == spec[0] and x is not self:
                mach.__dict__['c15_budget'] = left - 1
                return x
        return None

    async def _c15_acb(self, n, *args, **kwargs):
        d = self.__dict__
        other = self._c15_other(n)
        if other is not None:
            mach = d['c15_machine']
            mach.__dict__['c15_busy'] = True
            try:
                try:
                    res = bool(await other.trigger('e%d' % d['c15_cross'][n][1]))
                except Exception as e:  # noqa
                    res = type(e).__name__
            finally:
                mach.__dict__['c15_busy'] = False
            d['c15_log'].append([n, 'cross', res, 10 + other.c15_tag])
        return self._c15_cb(n, *args, **kwargs)


class PModel(CbMixin):
    pass


class UModel(CbMixin):
    """unhashable (like a dataclass with eq=True)"""
    def __eq__(self, other):
        return self is other
    __hash__ = None


class RecCtx(object):
    """user-supplied context manager; records that it was entered in the machine-wide journal"""
    def __init__(self, name, journal):
        self.name = name
        self.journal = journal

    def __enter__(self):
        self.journal.append(self.name)

    def __exit__(self, *exc):
        return False


def _make_self_classes():
    _import_transitions()
    for name in CLASSES:
        base = get_class(name)
        k = type('Self' + name, (CbMixin, base), {'__module__': __name__})
        globals()['Self' + name] = k


_make_self_classes()


class _NameWorld(object):
    """stands in for flat.World in the builders: a callback is its NAME"""
    def recorder(self, slot, cb, model_of_call=None):
        return 'cb_%d' % cb


# ====================================================================== generation
def _env_lists(env, rng):
    return dict(default=bool(env.get('default', True)),
                bycb=[[int(c), bool(r[0])] for c, r in sorted(env.get('bycb', {}).items())],
                bypos=[[int(p), bool(r[0])] for p, r in sorted(env.get('bypos', {}).items())])


def _max_cb(obj):
    best = 0
    if isinstance(obj, dict):
        for k, v in obj.items():
            if k in ('enter', 'exit', 'onfinal', 'prepare', 'before', 'after', 'prepare_event', 'before_sc', 'after_sc',
                     'finalize', 'on_exception', 'on_final'):
                best = max([best] + list(v))
            elif k == 'conds':
                best = max([best] + [c for c, _ in v])
            else:
                best = max(best, _max_cb(v))
    elif isinstance(obj, (list, tuple)):
        for v in obj:
            best = max(best, _max_cb(v))
    return best


def gen(rng, i, tier):
    cname = CLASSES[i % 12]
    nested = 'Hierarchical' in cname
    locked = 'Locked' in cname
    is_async = 'Async' in cname
    hsm.CUR['sep'] = hsm.SEP             # names in the case are written with '_' and translated when it is run
    sep = None
    if nested and rng.random() < 0.85:
        shape = 'hsm'
        g = hsm.gen_case(rng, single_scope=True)
        if rng.random() < 0.2:
            sep = rng.choice(['.', '/'])  # NestedState.separator of a subclass: models get FunctionWrapper helpers
        nev = 1 + max([e for e, _ in g['machine']['events']] +
                      [e for _, d in hsm.all_defs(g['machine']) for e, _ in d['events']] + [0])
    else:
        shape = 'flat'
        g = flat.gen_case(rng)
        nev = len(g['machine']['events'])
    machine = json.loads(json.dumps(g['machine']))
    env = _env_lists(g['env'], rng)
    ncb = _max_cb(machine)
    raises = [c for c in range(1, ncb + 1) if rng.random() < 0.04]
    if ncb and rng.random() < 0.4:
        # callbacks of one model that trigger an event on another model (tags 0..2), on original and copy alike
        env['cross'] = [[rng.randint(1, ncb), rng.randrange(3), rng.randrange(max(1, nev))]
                        for _ in range(rng.randint(1, 3))]
    if is_async:
        qmode = rng.choice([False, False, True, 'model', 'model'])
    else:
        qmode = rng.choice([False, False, True])
    selfmodel = rng.random() < 0.25
    unhash = rng.random() < 0.08
    userctx = locked and rng.random() < 0.4
    n0 = rng.randint(1, 3) - (1 if selfmodel else 0)
    models = []

    def new_model():
        t = len(models)
        models.append(dict(tag=t, hashable=not (unhash and rng.random() < 0.7) or (selfmodel and t == 0),
                           ctx=bool(locked and 'Graph' not in cname and rng.random() < 0.5 and not (selfmodel and t == 0))))
        return t
    # names of the declared states and of the global-scope events with their (source, dest) pairs
    if shape == 'hsm':
        state_names = [hsm.sname(p) for p, _ in hsm.all_defs(machine)]
        event_specs = [('e%d' % e, [(hsm.sname(t['src']), None if t['dst'] is None else hsm.sname(t['dst'])) for t in ts])
                       for e, ts in machine['events']]
    else:
        state_names = ['s%d' % st for st, _ in machine['states']]
        event_specs = [('e%d' % e, [('s%d' % t['src'], None if t['dst'] is None else 's%d' % t['dst']) for t in ts])
                       for e, ts in machine['events']]
    counters = dict(nz=0, nt=0)

    def rmt():
        """remove_transition with source / dest filters: partial (the trigger stays alive) and complete removals"""
        if not event_specs:
            return ['rmt', 'e0', None, None]
        ename, pairs = rng.choice(event_specs)
        srcs = sorted({a for a, _ in pairs})
        dsts = sorted({b for _, b in pairs if b})
        x = rng.random()
        if x < 0.45 and srcs:
            return ['rmt', ename, rng.choice(srcs), None]
        if x < 0.62 and dsts:
            return ['rmt', ename, None, rng.choice(dsts)]
        if x < 0.76 and pairs:
            a, b = rng.choice(pairs)
            return ['rmt', ename, a, b]
        if x < 0.88:
            return ['rmt', ename, rng.choice(state_names), None]
        return ['rmt', ename, None, None]

    def addt():
        """add_transition after construction: to an existing event or a new one, optionally with a named condition"""
        if event_specs and rng.random() < 0.6:
            ename = rng.choice(event_specs)[0]
        else:
            ename = 'en%d' % counters['nt']
            counters['nt'] += 1
        cond = rng.randint(1, max(1, ncb)) if rng.random() < 0.3 else None
        return ['addt', ename, rng.choice(state_names), rng.choice(state_names), cond]

    def addst():
        counters['nz'] += 1
        return ['addst', counters['nz'] - 1]
    prefix = []
    live = []
    if selfmodel:
        live.append(new_model())
    for _ in range(n0):
        t = new_model()
        prefix.append(['add', t])
        live.append(t)

    def ev():
        return ['ev', rng.choice(live), rng.choice([0, 0, 0, 1, 2]) if shape == 'flat' else rng.choice([0, 0, 1]),
                rng.randrange(nev) if rng.random() < 0.93 else nev + 2]
    for _ in range(rng.randint(0, 8)):
        x = rng.random()
        if x < 0.10 and len(models) < 5:
            t = new_model()
            prefix.append(['add', t])
            live.append(t)
        elif x < 0.18 and len(live) > 1:
            cand = [t for t in live if not (selfmodel and t == 0)]
            t = rng.choice(cand)
            live.remove(t)
            prefix.append(['rm', t])
        elif x < 0.31:
            prefix.append(rmt())         # the machine is reconfigured BEFORE it is pickled
        elif x < 0.39:
            prefix.append(addt())
        elif x < 0.44:
            prefix.append(addst())
        elif x < 0.48 and counters['nz']:
            prefix.append(['evz', rng.choice(live), rng.randrange(counters['nz'])])
        else:
            prefix.append(ev())
    # how the copy is made: pickle round trip, or copy.deepcopy (the same __reduce_ex__ / __getstate__ protocol)
    how = 'deepcopy' if rng.random() < 0.1 else 'pickle'
    # where unpickling enters: the machine, or one of its models (pickle.dumps(model) reaches the machine through
    # the model's trigger partials), optionally wrapped as (model, machine)
    entry, wrap = None, False
    if rng.random() < 0.3:
        t = rng.choice(live)
        if not (selfmodel and t == 0) and how == 'pickle':
            entry, wrap = t, rng.random() < 0.3
    # continuation on BOTH machines: events and reconfiguration (add_model of a further model, remove_model and
    # a trigger through the removed model's stale helper, add_states / add_transition and the new event)
    cont = []
    removed = []
    for _ in range(rng.randint(1, 7)):
        x = rng.random()
        if x < 0.13 and len(models) < 7:
            t = new_model()
            cont.append(['addm', t])
            live.append(t)
        elif x < 0.22 and len(live) > 1:
            t = rng.choice([t for t in live if not (selfmodel and t == 0)])
            live.remove(t)
            removed.append(t)
            cont.append(['rmm', t])
        elif x < 0.32 and removed:
            cont.append(['stale', rng.choice(removed), rng.randrange(nev)])
        elif x < 0.39:
            cont.append(addst())
        elif x < 0.45 and counters['nz']:
            cont.append(['evz', rng.choice(live), rng.randrange(counters['nz'])])
        elif x < 0.53:
            cont.append(rmt())
        elif x < 0.59:
            cont.append(addt())
        else:
            cont.append(ev())
    diva = [ev() for _ in range(rng.randint(1, 3))]
    divb = [ev() for _ in range(rng.randint(1, 3))]
    return dict(cls=cname, shape=shape, machine=machine, env=env, init=g['init'], raises=raises, qmode=qmode,
                selfmodel=selfmodel, userctx=userctx, models=models, prefix=prefix,
                hold=bool(locked and not userctx and rng.random() < 0.25), cont=cont, diva=diva, divb=divb,
                entry=entry, wrap=wrap, how=how,
                inside=bool(locked and how == 'pickle' and rng.random() < 0.15), sep=sep)


# ====================================================================== encoding for the model
def _flags(case):
    c = case['cls']
    return ['Graph' in c, 'Hierarchical' in c, 'Locked' in c, 'Async' in c]


def live_models(case):
    live = [0] if case['selfmodel'] else []
    for op in case['prefix']:
        if op[0] == 'add':
            live.append(op[1])
        elif op[0] == 'rm' and op[1] in live:
            live.remove(op[1])
    return live


def enc(case):
    graph, nested, locked, is_async = _flags(case)
    mctx = [0, 1] if locked else []
    wmodels = [[10 + m['tag'], m['tag'], bool(m['hashable'])] for m in case['models']]
    wlocks = []
    if locked:
        wlocks.append([0, 0, bool(case['hold']) and not case['userctx'], not case['userctx']])
        # IdentManager: names its owning thread while the machine's contexts are entered (case['inside']: the
        # snapshot is taken from inside, like pickle.dumps(machine) in a callback); whether pickling resets it is
        # read off /repo (IdentManager.__getstate__ defined or not)
        wlocks.append([1, 1, bool(case.get('inside')), _ident_resets()])
        for m in case['models']:
            if m['ctx']:
                wlocks.append([2 + m['tag'], 2 + m['tag'], False, False])
    script = []
    if case['selfmodel']:
        script.append([0, 10, []])
    for op in case['prefix']:
        if op[0] == 'add':
            m = case['models'][op[1]]
            script.append([0, 10 + op[1], [2 + op[1]] if (locked and m['ctx']) else []])
        elif op[0] == 'rm':
            script.append([1, 10 + op[1]])
    entry = case.get('entry')
    return [[graph, nested, locked, is_async], case['qmode'] == 'model', mctx, wmodels, wlocks, script,
            100, 100, 1 + len(case['cont']), NFLAGS, NINDEP, [] if entry is None else [10 + entry]]


# ====================================================================== implementation side
def _ident_resets():
    _import_transitions()
    from transitions.extensions.locking import IdentManager
    return '__getstate__' in vars(IdentManager) or '__reduce__' in vars(IdentManager)


def _hooks_code(cls):
    for k in cls.__mro__:
        if k is object:
            break
        if '__getstate__' in vars(k):
            return {'LockedMachine': 1, 'GraphMachine': 2, 'LockedGraphMachine': 3,
                    'LockedHierarchicalGraphMachine': 3, 'AsyncMachine': 4, 'AsyncGraphMachine': 5,
                    'HierarchicalAsyncGraphMachine': 5}.get(k.__name__, 9)
    return 0


class Side(object):
    """one machine (original or copy) with helpers to drive and observe it"""

    def __init__(self, case, machine):
        self.case = case
        self.m = machine
        self.is_async = 'Async' in case['cls']
        self.graph = 'Graph' in case['cls']
        self.locked = 'Locked' in case['cls']
        self.nested = 'Hierarchical' in case['cls']
        self.removed = {}            # tag -> model removed after the snapshot (keeps its stale helpers)
        self.journal_obj = None      # the machine-wide journal list of THIS machine

    def step(self, op):
        """one operation of the continuation (the same on original and copy)"""
        k = op[0]
        case = self.case
        if k == 'ev':
            return self.event(op)
        if k == 'addm':
            mod = _new_model(case, op[1], self.journal_obj, self.m)
            if self.locked and case['models'][op[1]]['ctx']:
                ctx = [RecCtx(2 + op[1], self.journal_obj)]
                return self.call(lambda: self.m.add_model(mod, model_context=ctx))
            return self.call(lambda: self.m.add_model(mod))
        if k == 'rmm':
            mod = self.by_tag(op[1])
            if mod is None:
                return [2, 'no-model']
            self.removed[op[1]] = mod
            return self.call(lambda: self.m.remove_model(mod))
        if k == 'stale':
            mod = self.removed.get(op[1])
            if mod is None:
                return [2, 'no-model']
            return self.call(lambda: mod.trigger('e%d' % op[2]))
        if k == 'addst':
            src = list(self.m.states.keys())[0]
            sname, ename = 'zz%d' % op[1], 'ez%d' % op[1]
            return [self.call(lambda: self.m.add_states([sname])),
                    self.call(lambda: self.m.add_transition(ename, src, sname)),
                    self.call(lambda: self.m.add_transition(ename, sname, src))]
        if k == 'evz':
            mod = self.by_tag(op[1])
            if mod is None:
                return [2, 'no-model']
            return self.call(lambda: mod.trigger('ez%d' % op[2]))
        sep = case.get('sep')

        def nm(x):
            return x.replace('_', sep) if (sep and isinstance(x, str)) else x
        if k == 'rmt':
            return self.call(lambda: self.m.remove_transition(op[1], source=nm(op[2]) or '*', dest=nm(op[3]) or '*'))
        if k == 'addt':
            cond = None if op[4] is None else ['cb_%d' % op[4]]
            return self.call(lambda: self.m.add_transition(op[1], nm(op[2]), nm(op[3]), conditions=cond))
        return [2, 'unknown-op']

    def models(self):
        return list(self.m.models)

    def by_tag(self, tag):
        for mod in self.m.models:
            if mod.c15_tag == tag:
                return mod
        return None

    def call(self, fn, *args):
        try:
            r = fn(*args)
            if self.is_async and asyncio.iscoroutine(r):
                r = asyncio.run(r)
            return [0, r if isinstance(r, (bool, int, str, type(None))) else str(type(r).__name__)]
        except BaseException as e:  # noqa
            return [1, type(e).__name__]

    def event(self, op):
        _, tag, kind, e = op
        mod = self.by_tag(tag)
        if mod is None:
            return [2, 'no-model']
        name = 'e%d' % e
        if kind == 0:
            return self.call(lambda: mod.trigger(name))
        if kind == 1:
            return self.call(lambda: mod.may_trigger(name))
        return self.call(lambda: getattr(mod, name)())

    def journal(self):
        if self.journal_obj is not None:
            return list(self.journal_obj)
        ms = self.m.models
        return list(ms[0].c15_journal) if ms else []

    def structure(self):
        m = self.m
        if self.nested:
            names = list(m.get_nested_state_names())
        else:
            names = list(m.states.keys())
        trig = []
        for mod in m.models:
            st = _canon_state(getattr(mod, 'state', None))
            flat_states = []

            def fl(x):
                if isinstance(x, list):
                    for y in x:
                        fl(y)
                else:
                    flat_states.append(x)
            fl(st)
            try:
                trig.append(sorted(m.get_triggers(*flat_states)))
            except BaseException as e:  # noqa
                trig.append(type(e).__name__)
        return [names, sorted(m.events.keys()), trig]

    def pictures(self):
        if not self.graph:
            return []
        mk = copy.deepcopy(self.m.markup)
        for k, md in enumerate(mk.get('models', [])):
            md['name'] = '#%d' % k            # the markup names a model by str(id(model))
        out = [json.dumps(mk, sort_keys=True, default=str)]
        for mod in self.m.models:
            try:
                out.append(mod.get_graph().source)
            except BaseException as e:  # noqa
                out.append(type(e).__name__)
        return out

    def full(self):
        gone = [self.removed[t] for t in sorted(self.removed)]
        return [[_canon_state(getattr(mod, 'state', None)) for mod in list(self.m.models) + gone],
                [list(mod.c15_log) for mod in list(self.m.models) + gone],
                [mod.c15_tag for mod in self.m.models],
                self.structure(), self.pictures()]


def _ctx_desc(c, mctx):
    tname = type(c).__name__
    if tname == 'PicklableLock':
        name, held = 0, bool(c.lock.locked())
    elif tname == 'IdentManager':
        name, held = 1, c.current != 0
    elif isinstance(c, RecCtx):
        name, held = c.name, False
    else:
        name, held = 97, False
    idx = 99
    for k, x in enumerate(mctx):
        if x is c:
            idx = k
            break
    return [name, held, idx]


def _classify(keys, new_models, old_models):
    newid = [id(x) for x in new_models]
    oldid = [id(x) for x in old_models]
    out = []
    for k in keys:
        if k in newid:
            out.append([0, newid.index(k)])
        elif k in oldid:
            out.append([1, oldid.index(k)])
        else:
            out.append([2, 0])
    return out


def _styles(graph):
    cs = getattr(graph, 'custom_styles', {})
    node = {str(k): v for k, v in dict(cs.get('node', {})).items() if v}
    edge = {str(k): {str(k2): v2 for k2, v2 in dict(v).items() if v2} for k, v in dict(cs.get('edge', {})).items()}
    return [sorted(node.items()), sorted((k, sorted(v.items())) for k, v in edge.items() if v)]


def _qkeys(machine):
    d = getattr(machine, '_transition_queue_dict', None)
    return list(d.keys()) if type(d) is dict else []


def _build(case):
    cname = case['cls']
    graph, nested, locked, is_async = _flags(case)
    base = get_class(cname)
    cls = globals()['Self' + cname] if case['selfmodel'] else base
    journal = []
    kw = dict(class_kwargs(cname))
    kw['queued'] = case['qmode']
    if locked and case['userctx']:
        kw['machine_context'] = [RecCtx(0, journal)]
    world = _NameWorld()
    like = dict(machine=case['machine'], init=case['init'])
    model_arg = cls.self_literal if case['selfmodel'] else []
    if case['shape'] == 'hsm':
        if case.get('sep'):
            like['sep'] = case['sep']
        machine, _ = hsm.build_hsm(like, world, cls, extra_kwargs=kw, model=model_arg)
        if case.get('sep'):
            # hsm.with_sep creates the machine / state classes dynamically in module hsm: make them importable by
            # name there, as a user's module-level subclasses would be (pickle stores classes by reference)
            k = type(machine)
            setattr(hsm, k.__name__, k)
            setattr(hsm, k.state_cls.__name__, k.state_cls)
    else:
        machine, _ = flat.build_machine(like, world, cls=cls, model=model_arg, extra_kwargs=kw)
    if case['selfmodel']:
        machine.c15_setup(0, case['env'], case['raises'], is_async, journal)
        machine.c15_machine = machine
    return machine, journal


def _new_model(case, tag, journal, machine):
    md = case['models'][tag]
    mod = PModel() if md['hashable'] else UModel()
    mod.c15_setup(tag, case['env'], case['raises'], 'Async' in case['cls'], journal)
    mod.c15_machine = machine        # lets the harness find the copy's machine from an unpickled model
    return mod


def _locked_probe(holder, other_side, case):
    """hold holder's machine lock in this thread; an event on the other machine must complete"""
    lock = holder.machine_context[0]
    mods = other_side.models()
    if not mods:
        return True
    done = []

    def work():
        try:
            mods[0].trigger('e0')
        except BaseException:  # noqa
            pass
        done.append(1)
    with lock:
        t = threading.Thread(target=work)
        t.daemon = True
        t.start()
        t.join(3.0)
        ok = bool(done)
    t.join(3.0)
    return ok


WATCHDOG_S = 10.0


def impl_c15(case):
    """runs the case in a daemon thread: a deadlock (e.g. a lock that came back locked) must surface as an
    observation the model cannot produce, never as a hanging check"""
    box = []

    def work():
        try:
            box.append(_impl_c15(case))
        except BaseException as e:  # noqa
            import traceback
            box.append({'harness_error': '%s: %s' % (type(e).__name__, e), 'tb': traceback.format_exc()[-1500:]})
    t = threading.Thread(target=work)
    t.daemon = True
    t.start()
    t.join(WATCHDOG_S)
    if not box:
        return [1, 9, [2, 'deadlock: the case did not finish within %ds' % int(WATCHDOG_S)]]
    return box[0]


def _impl_c15(case):
    _import_transitions()
    graph, nested, locked, is_async = _flags(case)
    machine, journal = _build(case)
    A = Side(case, machine)
    A.journal_obj = journal
    hooks = _hooks_code(type(machine))
    # ---------------------------------------------------------------- prefix
    keep_alive = []
    for op in case['prefix']:
        if op[0] == 'add':
            mod = _new_model(case, op[1], journal, machine)
            md = case['models'][op[1]]
            try:
                if locked and md['ctx']:
                    machine.add_model(mod, model_context=[RecCtx(2 + op[1], journal)])
                else:
                    machine.add_model(mod)
            except BaseException:  # noqa
                pass
        elif op[0] == 'rm':
            mod = A.by_tag(op[1])
            keep_alive.append(mod)       # id(mod) must not be reused while stale table entries exist
            try:
                machine.remove_model(mod)
            except BaseException:  # noqa
                pass
        else:
            A.step(op)
    # ---------------------------------------------------------------- snapshot
    entry = case.get('entry')
    ent = A.by_tag(entry) if entry is not None else None
    target = machine if ent is None else ((ent, machine) if case.get('wrap') else ent)
    def round_trip(obj):
        if case.get('how') == 'deepcopy':
            return copy.deepcopy(obj)
        return pickle.loads(pickle.dumps(obj))
    try:
        if case.get('inside') and locked:
            # as from inside a callback: every machine context (lock / user context, IdentManager) is entered
            from transitions.extensions.locking import nested as _nested
            with _nested(*machine.machine_context):
                loaded = pickle.loads(pickle.dumps(target))
        elif case['hold'] and locked:
            with machine.machine_context[0]:
                data = pickle.dumps(target)
                loaded = copy.deepcopy(target) if case.get('how') == 'deepcopy' else None
            if loaded is None:
                loaded = pickle.loads(data)
        else:
            loaded = round_trip(target)
    except Exception as e:  # noqa  every reachable machine must pickle (C15_pickles_always)
        return [1, hooks, [0], type(e).__name__]
    entry_ok = True
    if ent is None:
        machine2 = loaded
    else:
        ent2 = loaded[0] if case.get('wrap') else loaded
        machine2 = ent2.c15_machine
        entry_ok = (any(x is ent2 for x in machine2.models) and ent2.c15_tag == entry
                    and (not case.get('wrap') or loaded[1] is machine2))
    A.journal_obj = journal
    B = Side(case, machine2)
    B.journal_obj = machine2.models[0].c15_journal if machine2.models else []
    om, nm = A.models(), B.models()
    mctx1 = list(getattr(machine, 'machine_context', []))
    mctx2 = list(getattr(machine2, 'machine_context', []))
    cmap1 = getattr(machine, 'model_context_map', {})
    cmap2 = getattr(machine2, 'model_context_map', {})
    all1 = set(id(c) for c in mctx1) | set(id(c) for l in cmap1.values() for c in l)
    all2 = set(id(c) for c in mctx2) | set(id(c) for l in cmap2.values() for c in l)
    # per-model queues (async classes, queued='model'): one queue OBJECT per model, none shared between the models
    # of the copy or with the original (a shared deque makes an event on one model wait behind another model's)
    q1 = getattr(machine, '_transition_queue_dict', None)
    q2 = getattr(machine2, '_transition_queue_dict', None)
    queues_ok = True
    if type(q1) is dict and type(q2) is dict:
        ids2 = [id(q) for q in q2.values()]
        queues_ok = len(set(ids2)) == len(ids2) and not (set(ids2) & set(id(q) for q in q1.values()))
    disjoint = ((not (set(id(x) for x in om) & set(id(x) for x in nm))) and not (all1 & all2) and entry_ok
                and queues_ok)
    graphs1 = getattr(machine, 'model_graphs', {})
    graphs2 = getattr(machine2, 'model_graphs', {})
    graph_ok = []
    if graph:
        for a, b in zip(om, nm):
            try:
                ta = a.get_graph(force_new=True).source
                tb = b.get_graph().source if id(b) in graphs2 else None
                # the rendered text may hide a missing 'active' style (compound states); compare the styles too
                graph_ok.append(ta == tb and _styles(graphs1[id(a)]) == _styles(graphs2[id(b)]))
            except BaseException:  # noqa
                graph_ok.append(False)
    else:
        graph_ok = [False for _ in nm]
    rekey = [
        [[mod.c15_tag] for mod in nm],
        disjoint,
        _classify(list(cmap1.keys()), [], om),
        _classify(list(graphs1.keys()), [], om),
        _classify(_qkeys(machine), [], om),
        _classify(list(cmap2.keys()), nm, om),
        [[_ctx_desc(c, mctx2) for c in (cmap2.get(id(mod)) or [])] for mod in nm],
        _classify(list(graphs2.keys()), nm, om),
        graph_ok,
        _classify(_qkeys(machine2), nm, om),
        [id(mod) in _qkeys(machine2) for mod in nm],
        [_ctx_desc(c, mctx2)[:2] for c in mctx2],
    ]
    detail = []
    # ---------------------------------------------------------------- same continuation on both
    rows = []
    fa, fb = A.full(), B.full()
    row = [True, fa[0] == fb[0] and fa[2] == fb[2], fa[1] == fb[1], fa[3] == fb[3], fa[4] == fb[4], True]
    if not all(row):
        detail.append(['at-snapshot', fa, fb])
    rows.append(row)                 # row 0: right after the round trip
    la, lb = len(A.journal()), len(B.journal())
    for op in case['cont']:
        ra, rb = A.step(op), B.step(op)
        ja, jb = A.journal()[la:], B.journal()[lb:]
        fa, fb = A.full(), B.full()
        la, lb = len(A.journal()), len(B.journal())
        row = [ra == rb, fa[0] == fb[0] and fa[2] == fb[2], fa[1] == fb[1], fa[3] == fb[3], fa[4] == fb[4], ja == jb]
        if not all(row):
            detail.append([op, ra, rb, fa, fb, ja, jb])
        rows.append(row)
    # ---------------------------------------------------------------- different operations
    indep = [True] * NINDEP

    def diverge(X, Y, ops, sname, ename, idx):
        before = Y.full()
        jb0 = Y.journal()
        for op in ops:
            X.event(op)
        src = list(X.m.states.keys())[0]
        X.call(lambda: X.m.add_states([sname]))
        X.call(lambda: X.m.add_transition(ename, src, sname))
        X.call(lambda: X.m.add_transition(ename, sname, src))
        for mod in X.models():
            X.call(lambda: mod.trigger(ename))
        jb1 = Y.journal()
        after = Y.full()
        if before != after or jb0 != jb1:
            indep[idx] = False
            detail.append(['diverge', sname, before, after])
    diverge(A, B, case['diva'], 'zzA', 'evA', 0)
    diverge(B, A, case['divb'], 'zzB', 'evB', 1)
    try:
        indep[2] = ('zzA' in machine.states and 'zzA' not in machine2.states and 'zzB' in machine2.states
                    and 'zzB' not in machine.states and 'evA' in machine.events and 'evA' not in machine2.events
                    and 'evB' in machine2.events and 'evB' not in machine.events)
    except BaseException:  # noqa
        indep[2] = False
    shared = [n for n in machine.states if n in machine2.states and machine.states[n] is machine2.states[n]]
    shared += [n for n in machine.events if n in machine2.events and machine.events[n] is machine2.events[n]]
    saw_own = all(e[3] != 0 for mod in A.models() + B.models() for e in mod.c15_log)
    indep[3] = not shared and saw_own
    if locked and not case['userctx']:
        indep[6] = True
        with machine.machine_context[0]:
            indep[6] = not machine2.machine_context[0].lock.locked()
        with machine2.machine_context[0]:
            indep[6] = indep[6] and not machine.machine_context[0].lock.locked()
        indep[4] = _locked_probe(machine, B, case)
        indep[5] = _locked_probe(machine2, A, case)
    # add_model on one copy
    before = [B.full(), list(getattr(machine2, 'model_context_map', {}).keys()),
              list(getattr(machine2, 'model_graphs', {}).keys()), _qkeys(machine2)]
    extra = PModel()
    extra.c15_setup(90, case['env'], case['raises'], is_async, journal)
    A.call(lambda: machine.add_model(extra))
    after = [B.full(), list(getattr(machine2, 'model_context_map', {}).keys()),
             list(getattr(machine2, 'model_graphs', {}).keys()), _qkeys(machine2)]
    indep[7] = before == after and all(x is not extra for x in machine2.models) and any(x is extra for x in machine.models)
    try:          # after everything that happened to them both machines still pickle
        again1, again2 = round_trip(machine), round_trip(machine2)
        indep[8] = (len(again1.models) == len(machine.models) and len(again2.models) == len(machine2.models))
    except Exception as e:  # noqa
        indep[8] = False
        detail.append(['pickle-again', type(e).__name__, str(e)[:200]])
    out = [1, hooks, [1, rekey, [rows, indep]]]
    if detail and not (all(all(r) for r in rows) and all(indep)):
        out.append(json.loads(json.dumps(detail[:3], default=str)))
    return out


# ====================================================================== canonical form, oracle, known findings
def kf_classes(case):
    """known-finding classes of a case (decidable from the case alone):
    KF-C15-4  a graph class pickled THROUGH one of its models (not the machine itself): the graph of that model's
              copy styles no state as active until its next transition;
    KF-C15-5  a locked class pickled from INSIDE its contexts (a callback): IdentManager.current travels with the
              copy, which then treats the pickling thread as owner of its lock and enters no context for it.
    The former KF-C15-1 / KF-C15-2 are fixed in /repo (74ef53e, 3c0ca68) and are ordinary cases."""
    graph, nested, locked, is_async = _flags(case)
    out = []
    if graph and case.get('entry') is not None and not (case['selfmodel'] and case['entry'] == 0):
        out.append('KF-C15-4')
    if locked and case.get('inside'):
        out.append('KF-C15-5')
    return out


def kf_class(case):
    ks = kf_classes(case)
    return ks[0] if ks else None


def canon(case, obs):
    """behaviour flags that a known finding is known to spoil are not compared:
    KF-C15-4: the diagram of the entry model differs until its next transition (the markup/diagram flag)"""
    if not isinstance(obs, list) or len(obs) < 3 or not isinstance(obs[2], list) or obs[2][:1] != [1]:
        return obs
    ks = kf_classes(case)
    if 'KF-C15-4' in ks or 'KF-C15-5' in ks:
        obs = copy.deepcopy(obs)
        beh = obs[2][2]
        for row in beh[0]:
            if 'KF-C15-4' in ks:
                row[4] = True            # markup/diagram
            if 'KF-C15-5' in ks:
                row[5] = True            # contexts entered (the copy enters none in the pickling thread)
        if all(all(r) for r in beh[0]) and all(beh[1]):
            return obs[:3]
    return obs


def failing_clauses(case, obs):
    graph, nested, locked, is_async = _flags(case)
    out = []
    if not isinstance(obs, list) or obs[0] != 1:
        return ['undecodable']
    pick = obs[2]
    if pick[0] == 0:
        return ['pickling (or deep-copying) the machine raised an exception']
    if pick[0] == 2:
        return ['an operation on the original or the copy never returned (deadlock)']
    rekey = pick[1]
    live = live_models(case)
    n = len(live)
    want_keys = [[0, k] for k in range(n)]
    if [t for [t] in rekey[0]] != live:
        out.append('models of the copy (tags in order)')
    if not rekey[1]:
        out.append('identities of the copy (models, contexts, per-model queues) are fresh, pairwise distinct and disjoint from the original')
    if locked:
        if rekey[5] != want_keys:
            out.append('model_context_map of the copy keyed by the identities of its models')
        want_ctx = []
        for t in live:
            names = [0, 1] + ([2 + t] if case['models'][t]['ctx'] else [])
            want_ctx.append([[nm, False, (k if k < 2 else 99)] for k, nm in enumerate(names)])
        got_ctx = [[[nm, (False if nm == 1 else h), ix] for nm, h, ix in ctxs] for ctxs in rekey[6]]
        if got_ctx != want_ctx:
            out.append('contexts found for each model of the copy (names, unlocked, shared with machine_context)')
        if [int(bool(h)) for nm, h in rekey[11] if nm != 1] != [0]:
            out.append('machine_context of the copy is unlocked')
        if any(h for nm, h in rekey[11] if nm == 1) or any(h for ctxs in rekey[6] for nm, h, ix in ctxs if nm == 1):
            out.append('IdentManager of the copy names no owning thread')
    if graph:
        if rekey[7] != want_keys:
            out.append('model_graphs of the copy keyed by the identities of its models')
        if len(rekey[8]) != n:
            out.append('graph of each model of the copy equals a regenerated graph')
        else:
            ent = case.get('entry')
            others = [ok for t, ok in zip(live, rekey[8]) if t != ent]
            if not all(others):
                out.append('graph of each model of the copy equals a regenerated graph')
            elif not all(rekey[8]):
                out.append('graph of the model through which unpickling entered equals a regenerated graph')
    if is_async and case['qmode'] == 'model':
        if rekey[9] != want_keys or not all(rekey[10]):
            out.append('queue table of the copy keyed by the identities of its models')
    if len(pick) > 2 and pick[2]:
        rows, indep = pick[2]
        names = ['result', 'model states', 'callback logs', 'states/events/triggers', 'markup/diagram', 'contexts entered']
        for i, row in enumerate(rows):
            for j, f in enumerate(row):
                if not f:
                    out.append('%s: %s differs between original and copy'
                               % ('right after the round trip' if i == 0 else 'continuation step %d' % (i - 1), names[j]))
        inames = ['operations on the original changed the copy', 'operations on the copy changed the original',
                  'added states/events visible on the other machine', 'shared State/Event objects or a callback saw the other machine',
                  'lock held on the original blocks the copy', 'lock held on the copy blocks the original',
                  'locks of the two machines are one object', 'add_model on the original changed the copy',
                  'original or copy cannot be pickled again after the continuation']
        for j, f in enumerate(indep):
            if not f:
                out.append('independence: ' + inames[j])
    return out


KF_ALLOWED = {
    'KF-C15-4': {'graph of the model through which unpickling entered equals a regenerated graph'},
    'KF-C15-5': {'IdentManager of the copy names no owning thread'},
}


def _allowed(case):
    out = set()
    for k in kf_classes(case):
        out |= KF_ALLOWED[k]
    return out


def oracle(case, obs):
    f = failing_clauses(case, obs)
    if not f:
        return None
    allowed = _allowed(case)
    fresh_failures = [x for x in f if x not in allowed]      # name a clause that is not a known finding first
    return (fresh_failures or f)[0]


def classify_known(case, model_obs, impl_obs):
    """a known finding is: the case is in a known-finding class, the implementation's observation equals the
    model's (which reproduces the finding) whenever the model's is available, and every failing clause of the
    oracle is one the finding explains.  A model/implementation disagreement is never classified as known."""
    ks = kf_classes(case)
    if not ks or isinstance(impl_obs, dict):
        return None
    if model_obs is not None and canon(case, model_obs) != canon(case, impl_obs):
        return None
    f = set(failing_clauses(case, canon(case, impl_obs)))
    if f and f <= _allowed(case):
        for k in ks:
            if f & KF_ALLOWED[k]:
                return k
    return None


def in_envelope(case):
    return True


def nontrivial(case, obs):
    if not isinstance(obs, list) or len(obs) < 3 or obs[2][:1] != [1]:
        return False
    graph, nested, locked, is_async = _flags(case)
    tables = locked or graph or (is_async and case['qmode'] == 'model')
    return (tables or len(live_models(case)) >= 2) and any(op[0] == 'ev' for op in case['prefix'])


def stats(case, obs, dist):
    def inc(k, n=1):
        dist[k] = dist.get(k, 0) + n
    inc('class_' + case['cls'])
    inc('shape_' + case['shape'])
    inc('models_live_%d' % len(live_models(case)))
    if case['selfmodel']:
        inc('machine_is_model')
    if case['hold']:
        inc('snapshot_with_lock_held')
    if case['userctx']:
        inc('user_machine_context')
    if any(m['ctx'] for m in case['models']):
        inc('with_model_context')
    if any(op[0] == 'rm' for op in case['prefix']):
        inc('prefix_remove_model')
    inc('queued_%s' % case['qmode'])
    inc('prefix_events', sum(1 for op in case['prefix'] if op[0] == 'ev'))
    inc('continuation_events', len(case['cont']))
    for kf in kf_classes(case):
        inc('class_of_' + kf)
    if case.get('entry') is not None:
        inc('pickled_through_a_model' + ('_wrapped' if case.get('wrap') else ''))
    for op in case['cont']:
        if op[0] != 'ev':
            inc('continuation_' + op[0])
    for op in case['prefix']:
        if op[0] in ('rmt', 'addt', 'addst', 'evz'):
            inc('before_snapshot_' + op[0])
    if any(op[0] == 'rmt' and (op[2] or op[3]) for op in case['prefix']):
        inc('snapshot_after_filtered_remove_transition')
    if case.get('how') == 'deepcopy':
        inc('copy_by_deepcopy')
    if case.get('inside'):
        inc('snapshot_from_inside_the_contexts')
    if case.get('sep'):
        inc('custom_state_separator')
    if case['env'].get('cross'):
        inc('callbacks_trigger_other_models')
    if isinstance(obs, list) and len(obs) >= 3 and obs[2][:1] == [0]:
        inc('pickling_raised')


def shrink_candidates(case):
    for key in ('cont', 'diva', 'divb'):
        for i in range(len(case[key])):
            if key != 'cont' or len(case[key]) > 1:
                c = copy.deepcopy(case)
                del c[key][i]
                yield c
    for i, op in enumerate(case['prefix']):
        if op[0] == 'ev':
            c = copy.deepcopy(case)
            del c['prefix'][i]
            yield c
    if case['hold']:
        c = copy.deepcopy(case)
        c['hold'] = False
        yield c
    if case['raises']:
        c = copy.deepcopy(case)
        c['raises'] = []
        yield c


# ====================================================================== extra checks
def extra_checks(tier, seed):
    """the finite class table: the hooks in effect for each of the 12 predefined classes, by reflection on /repo,
    equal the model's effective_hooks (through the driver)."""
    import framework as F
    _import_transitions()
    bad = []
    for name in CLASSES:
        case = dict(cls=name, qmode=False, selfmodel=False, userctx=False, models=[], prefix=[], hold=False, cont=[])
        mo = F.run_model(KIND, [enc(case)])[0]
        if mo[1] != _hooks_code(get_class(name)):
            bad.append([name, mo[1], _hooks_code(get_class(name))])
    yield ('hooks_table', not bad, dict(classes=len(CLASSES), mismatches=bad),
           dict(kind='correspondence', correspondence='corr_C15_hooks_table', mismatches=bad))
