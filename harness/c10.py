"""C10 — models of one machine are independent; dispatch reaches each exactly once.
Real machines of all 12 predefined classes (flat configurations) with a universe of 1-4 model objects (one of
them possibly the machine itself), driven through histories interleaving add_model / remove_model / add_states /
add_transition / trigger / dispatch; after EVERY operation the registered models, every object's state and
complete helper table, and the id-keyed side tables are compared with Multi.v.  Every 8th case binds two
machines with different model_attribute to one object and compares who owns which attribute name."""
import asyncio
import copy
import gc
import inspect
import pickle
import random
import re
import weakref
from functools import partial

import flat
from framework import opt

PID = 'C10'
KIND = 2
IMPL = ('c10', 'impl_multi')
COUNTS = dict(quick=1600, thorough=20000)
CLASSES = flat.SYNC_CLASSES + flat.ASYNC_CLASSES
TWO_CLASSES = ['Machine', 'LockedMachine', 'HierarchicalMachine', 'LockedHierarchicalMachine', 'AsyncMachine',
               'HierarchicalAsyncMachine']
RULE = ('10 of 16 cases: one machine of a predefined class (all 12, round-robin; queued False/True and, for async '
        'classes, \'model\') built from a random flat configuration (C01 generator, 1-4 states, 1-3 events) of which '
        'a random part of the states/transitions is held back and added by add_states/add_transition operations in '
        'the history; a universe of 1-4 model objects, optionally one of them the machine itself, about a third of '
        'them FALSY objects (__bool__ False, __len__ 0); a random subset is passed to the constructor, in 30% of the '
        'cases with one object listed twice; histories of 4-16 operations: add_model of one model (registered = '
        '"twice", never added, removed; initial None / a registered state / [Machine, LockedMachine only] an '
        'unregistered state) or ONE add_model call with a list of 2-4 models in which objects may repeat, '
        'remove_model (registered), add_states (one state, or ONE call with a list of 2-3 new states), add_transition, remove_transition (35% of the well-formed cases, which then contain no remove_model: all transitions of a trigger, or those from one source / to one destination; a trigger that was emptied is usually declared again later, with models added before and after), trigger (event method or trigger(name); registered, '
        'removed and never-added objects; known, not-yet-added and unknown events), dispatch. Callbacks are given by '
        'name so that each object has its own recorder. Sync classes: condition values by position/callback and one '
        'raising callback position in 15% of the cases; async classes: non-raising, at most one condition per '
        'transition, ignore_invalid_triggers (the interleaving of different models\' callback lists inside gather is '
        'not modelled: items of an async dispatch are grouped per model, the order of first items is checked). Every '
        '10th case of the plain classes is malformed (unregistered destinations/initial). 1 of 8 cases (queue stream): '
        'a queued Machine / HierarchicalMachine / LockedMachine / GraphMachine with 2-4 models (every third one falsy) '
        'whose callbacks trigger further events and remove models; a run of remove actions of one callback is ONE '
        'remove_model([m1, m2, ...]) call with a list while events of these models are pending; compared with '
        'Queue.drain (C05 model). For the graph (= markup) classes every operation is followed by a look at markup[\'models\'] (one entry per registered model with THAT model\'s state and class), and at the end a second machine is built from markup=<markup> and its models\' classes and states are compared. 1 of 16 cases (state features): a C19-generated machine decorated with Tags/Error/Volatile/Retry mixins, >= 2 models, interleaved histories, at least one retry budget; compared with Features.v. 1 of 8 cases: two machines (flat, locked, hierarchical, async classes) with distinct '
        'model_attribute on one object, random overlapping/disjoint state and event names, auto_transitions on/off; '
        'observed: the owning machine of every helper name and the attributes after calling 1-6 helpers. Non-trivial: '
        'a dispatch that ran callbacks or changed state on >= 2 models, or a membership change followed by a '
        'configuration change, or (queue stream) a call that processed >= 2 events or discarded pending ones, or (two '
        'machines) overlapping state names; distinct by case hash.')
ASSUMPTIONS = ['remove_model is only called for registered models (an unregistered one raises ValueError in core but '
               'KeyError in the locked / per-model-queue classes: not modelled)',
               'callbacks do not call back into the machine (C05 covers nested triggers and remove_model from callbacks)',
               'async classes: the asyncio loop is assumed; raising callbacks and MachineError inside an async dispatch '
               '(gather keeps the other tasks running, schedule dependent with queued=True) are outside the envelope',
               'hierarchical classes are exercised on flat configurations; trigger(name) of an unknown event and objects '
               'without state attribute are not generated for them (nesting routes these through on_exception/finalize)',
               'graph classes: the machine itself is a model only when passed to the constructor (otherwise '
               'GraphMachine.__init__ binds get_combined_graph as get_graph on itself and add_model(\'self\') raises)',
               'graph classes: a list add names at most one unregistered object that still owns get_graph, as its last '
               'element (GraphMachine.add_model raises there and leaves the rest of the list registered without graph; '
               'the model mirrors the raise, C10_graph_readd_raises, but not the broken machine afterwards)',
               'queue stream: an event whose callbacks perform >= 16 actions is not compared (nested payload numbering of '
               'QueueIO would be ambiguous)',
               'copies: machines with per-model queues (async, queued=\'model\') are not copied (the copy keeps the old ids '
               'as keys of _transition_queue_dict and raises KeyError on every trigger — reported); in graph classes, '
               'after a copy, stale helpers of removed models are not called and removed models are not re-added (the '
               'copy has no graph for them)',
               'async dispatch with a raising model is not modelled (gather keeps the other triggers running); the extra check '
               'dispatch_propagates_exceptions asserts on every class and queue mode that the exception leaves dispatch, that no '
               'model gets the event twice and that the models before the raising one get it once',
               'add_model from a callback of a transition declared inside a nested state (hierarchical classes) is checked on '
               'the implementation only (extra check add_model_from_nested_callback); the Coq histories are top-level calls',
               'state features: Timeout is not modelled (C17); its per-model timers and Retry\'s per-model counters are '
               'checked on the implementation by the extra check features_interleaved_equals_solo (every model\'s outcome '
               'in an interleaved history = its solo run; a model in a timeout state owns a live timer)',
               'remove_transition is only called for declared triggers (an unknown one raises KeyError in core.py) and not in '
               'histories with remove_model (an unregistered object keeps <trigger> bound to the deleted Event object, '
               'also through a later add_model — _checked_assignment skips the existing attribute)',
               'garbage collection: the theorem is "no table keeps the key"; the collector is assumed and checked with '
               'weakref + gc.collect() on every class and queue mode, on the original machine, on a pickle round trip and on '
               'a deep copy of it (extra check gc_after_remove)',
               'Python runtime semantics of the recording callables']
THEOREMS = ['C10_invariant', 'C10_frame', 'C10_dispatch', 'C10_late_model', 'C10_late_model_names', 'C10_trigger_rebound', 'C10_add_twice', 'C10_add_twice_list', 'C10_in_call_repetition', 'C10_removed_list_pending', 'C10_copy', 'C10_features_per_model', 'C10_own_initial', 'C10_own_initial_once',
            'C10_graph_readd_raises', 'C10_graph_readd_example',
            'C10_removed_tables', 'C10_removed', 'C10_removed_graph_key_refuted', 'C10_two_machines',
            'C10_two_machines_hsm_refuted', 'C10_example']

HELPER_RE = re.compile(r'^(trigger|may_trigger|to|get_graph|e\d+|may_e\d+|is_s\d+)$')


def class_flags(name):
    return ['Locked' in name, 'Graph' in name, 'Hierarchical' in name, 'Async' in name]


def qcode(q):
    return 2 if q == 'model' else (1 if q else 0)


# ------------------------------------------------------------------ generation
def gen(rng, i, tier):
    if i % 8 == 7:
        return gen_two(rng, i)
    if i % 8 == 3:
        return gen_queue(rng, i, tier)
    if i % 16 == 5:
        return gen_own(rng, i, tier)
    if i % 16 == 13:
        return gen_features(rng, i, tier)
    cname = CLASSES[(i - i // 8) % len(CLASSES)]
    lk, gr, hs, asy = class_flags(cname)
    queued = rng.choice([False, True] + (['model'] if asy else []))
    malformed = (i % 10 == 9) and cname in ('Machine', 'LockedMachine')
    g = flat.Gen(rng, max_states=4, max_events=3, max_cands=2, max_cbs=2)
    m = g.machine()
    if not m['finalize'] and rng.random() < 0.5:
        g.cb += 1
        m['finalize'] = [g.cb]
    env = flat.cond_polarity_fix(m, g.env())
    if asy:
        env['bypos'] = {}
        m['ignore'] = True
        for _, d in m['states']:
            if d['ignore'] is False:
                d['ignore'] = None
        for _, ts in m['events']:
            for t in ts:
                t['conds'] = t['conds'][:1]
    elif rng.random() < 0.15:
        env['bypos'][rng.randrange(0, 25)] = (True, (3 + rng.randrange(2), 1), [])
    ns = len(m['states'])
    init = rng.randrange(ns)
    held_states = [s for s, _ in m['states'] if s != init and rng.random() < 0.4]
    sdefs = dict(m['states'])
    all_trans = [(e, t) for e, ts in m['events'] for t in ts]
    if malformed:
        for e, t in all_trans:
            if t['dst'] is not None and rng.random() < 0.15:
                t['dst'] = ns + 1
    ctor_trans, held_trans = [], []
    for e, t in all_trans:
        dep = [x for x in (t['src'], t['dst']) if x in held_states]
        if dep or rng.random() < 0.4:
            held_trans.append((e, t))
        else:
            ctor_trans.append((e, t))
    # configuration operations in a dependency-respecting random order
    cfg = []
    added = set(s for s, _ in m['states'] if s not in held_states)
    ps, pt = list(held_states), list(held_trans)
    rng.shuffle(ps)
    while ps or pt:
        ready = [j for j, (e, t) in enumerate(pt)
                 if malformed or all(x is None or x in added or x > ns for x in (t['src'], t['dst']))]
        if ps and (not ready or rng.random() < 0.5):
            s = ps.pop()
            added.add(s)
            if ps and rng.random() < 0.6:
                # ONE add_states call with a list of two or three new states
                group = [[s, sdefs[s]]]
                while ps and len(group) < 3 and (len(group) < 2 or rng.random() < 0.5):
                    s2 = ps.pop()
                    added.add(s2)
                    group.append([s2, sdefs[s2]])
                cfg.append(['states', group])
            else:
                cfg.append(['state', s, sdefs[s]])
        else:
            e, t = pt.pop(ready[0])
            cfg.append(['trans', e, t])
    nuniv = rng.randint(1, 4)
    self_id = rng.choice([None, None] + list(range(nuniv)))
    ctor_models = [k for k in range(nuniv) if rng.random() < 0.6]
    rng.shuffle(ctor_models)
    if gr and self_id is not None and self_id not in ctor_models:
        self_id = None      # see ASSUMPTIONS: GraphMachine binds get_combined_graph on itself
    if ctor_models and rng.random() < 0.3:
        # the same object listed twice in Machine(model=[...])
        ctor_models.insert(rng.randint(0, len(ctor_models)), rng.choice(ctor_models))
    falsy = [k for k in range(nuniv) if k != self_id and rng.random() < 0.34]
    ever = set(ctor_models)          # objects that got helpers (and, in graph classes, get_graph) at some time
    # runtime operations, with a light simulation of membership to keep them meaningful
    reg = list(dict.fromkeys(ctor_models))
    known_events = set(e for e, _ in ctor_trans)
    known_states = set(s for s, _ in m['states'] if s not in held_states)
    ne = len(m['events'])
    hist = []
    nrun = rng.randint(3, 10)
    slots = ['cfg'] * len(cfg) + ['run'] * nrun
    rng.shuffle(slots)
    ci = 0
    tok = 100
    copied = False     # graph classes: a copy has no graph for removed models, their stale helpers raise KeyError
    # remove_transition cases: no remove_model in them (a model that is unregistered while an event is deleted keeps
    # its <event> attribute bound to the deleted Event object, also through a later add_model)
    rt = (not malformed) and rng.random() < 0.35
    cur = {}           # event -> transitions currently declared
    for e_, t_ in ctor_trans:
        cur.setdefault(e_, []).append(t_)
    readd = []         # transitions of emptied events, to be declared again

    def keep(t_, src_, dst_):
        return (src_ is not None and t_['src'] != src_) or (dst_ is not None and t_['dst'] != dst_)
    for sl in slots:
        if sl == 'cfg':
            o = cfg[ci]
            ci += 1
            if o[0] == 'state':
                known_states.add(o[1])
            elif o[0] == 'states':
                known_states.update(x[0] for x in o[1])
            else:
                known_events.add(o[1])
                cur.setdefault(o[1], []).append(o[2])
            hist.append(o)
            continue
        x = rng.random()
        tok += 1
        if rt and readd and rng.random() < 0.5:
            e_, t_ = readd.pop(0)
            hist.append(['trans', e_, copy.deepcopy(t_)])
            known_events.add(e_)
            cur.setdefault(e_, []).append(t_)
        if rt and known_events and rng.random() < 0.25:
            e_ = rng.choice(sorted(known_events))
            y = rng.random()
            src_, dst_ = None, None
            if y > 0.55:
                t_ = rng.choice(cur[e_])
                if y < 0.8:
                    src_ = t_['src']
                else:
                    dst_ = t_['dst'] if t_['dst'] is not None else rng.choice(sorted(known_states))
            left = [t_ for t_ in cur[e_] if keep(t_, src_, dst_)]
            hist.append(['remove_trans', e_, src_, dst_])
            if not left:
                known_events.discard(e_)
                if rng.random() < 0.8:
                    readd.append((e_, rng.choice(cur[e_])))
                cur[e_] = []
            else:
                cur[e_] = left
            continue
        if x < 0.42:
            if reg and rng.random() < 0.8 or queued == 'model' or (gr and copied):
                if not reg:
                    continue
                mm = rng.choice(reg)
            else:
                mm = rng.randrange(nuniv)
            byname = rng.random() < 0.3
            y = rng.random()
            if y < 0.06 and not (byname and (hs or asy)):
                e = ne + 3
            elif y < 0.2 and not (byname and (hs or asy)):
                e = rng.randrange(ne)
            else:
                if not known_events:
                    continue
                e = rng.choice(sorted(known_events))
            hist.append(['trigger', mm, byname, e, tok])
        elif x < 0.62:
            y = rng.random()
            if y < 0.08:
                e = ne + 3
            elif y < 0.2 or not known_events:
                e = rng.randrange(ne)
            else:
                e = rng.choice(sorted(known_events))
            hist.append(['dispatch', e, tok])
        elif x < 0.84:
            mm = rng.randrange(nuniv)
            if gr and copied:
                # after a copy a removed model has no graph any more; re-adding it (refused: stale get_graph) would
                # leave it registered without graph
                ok_ = [x_ for x_ in range(nuniv) if x_ in reg or x_ not in ever]
                if not ok_:
                    continue
                mm = rng.choice(ok_)
            y = rng.random()
            if y < 0.55:
                ini = None
            elif y < 0.93 or not malformed:
                ini = rng.choice(sorted(known_states))
            else:
                ini = ns + 2
            if rng.random() < 0.45:
                # ONE add_model call with a list; the same object may be listed more than once
                ms = [mm] + [rng.randrange(nuniv) for _ in range(rng.randint(1, 2))]
                if rng.random() < 0.35:
                    ms.insert(rng.randint(0, len(ms)), rng.choice(ms))
                if gr and copied:
                    ms = [x_ for x_ in ms if x_ in reg or x_ not in ever]
                if gr:
                    # graph classes refuse an unregistered object that still has get_graph and then leave the rest of
                    # the list registered without graph: at most one such object, at the end of the list
                    stale = [x for x in dict.fromkeys(ms) if x not in reg and x in ever]
                    ms = [x for x in ms if x not in stale] + stale[:1]
                hist.append(['add_models', ms, ini])
                if ini is None or ini in known_states:
                    for x in ms:
                        if x not in reg:
                            reg.append(x)
                        ever.add(x)
                elif any(x not in reg for x in ms):
                    ever.add([x for x in ms if x not in reg][0])
            else:
                hist.append(['add_model', mm, ini])
                ever.add(mm)
                if mm not in reg and (ini is None or ini in known_states):
                    reg.append(mm)
        elif x >= 0.97 and queued != 'model':
            # the machine and all model objects are replaced by a pickle round trip (0) / a deep copy (1)
            hist.append(['copy', rng.randrange(2)])
            copied = True
        else:
            if not reg or rt:
                continue
            mm = rng.choice(reg)
            reg.remove(mm)
            hist.append(['remove_model', mm])
    for e_, t_ in readd:
        hist.append(['trans', e_, copy.deepcopy(t_)])
    m0 = dict(m)
    m0['states'] = [(s, d) for s, d in m['states'] if s not in held_states]
    m0['events'] = []
    return dict(kind=0, cls=cname, queued=queued, machine=m0, init=init, env=env, nuniv=nuniv, self_id=self_id,
                ctor_models=ctor_models, ctor_trans=ctor_trans, history=hist, malformed=malformed, falsy=falsy)


def gen_features(rng, i, tier):
    """a machine decorated with state-feature mixins (C19 generator: Tags / Error / Volatile / Retry in any order) with
    >= 2 models and interleaved histories; at least one state has a retry budget"""
    import c19
    best = None
    for attempt in range(40):
        j = 9 * (i + attempt) + (attempt % 8)            # never the malformed stream of C19 (i % 9 == 8)
        c = c19.gen(random.Random('%r-%d' % (rng.random(), attempt)), j, tier)
        if c19.FR in c['order'] and c['nmodels'] >= 2 and any(s['retries'] for s in c['states']) \
                and len(set(h[0] for h in c['history'] if c19.is_call(h))) >= 2:
            best = c
            break
        if best is None and c['nmodels'] >= 2:
            best = c
    c = best if best is not None else c
    c = dict(c)
    c['kind'] = 4
    return c


def gen_own(rng, i, tier):
    """hierarchical machine (nested, parallel and compound states with initial children; states named by Enum
    members whose names repeat on every level, or by strings) and models added later with their OWN initial state"""
    import hsm
    c = hsm.gen_case(rng, hist_len=1)
    cname = ['HierarchicalMachine', 'LockedHierarchicalMachine', 'HierarchicalGraphMachine',
             'LockedHierarchicalGraphMachine', 'HierarchicalAsyncMachine', 'HierarchicalAsyncGraphMachine'][(i // 16) % 6]
    paths = [p for p, _ in hsm.all_defs(c['machine'])]
    adds = []
    for mm in range(1, rng.randint(3, 6)):
        x = rng.random()
        who = mm if rng.random() < 0.85 else rng.randrange(0, mm)       # now and then a registered model again
        if x < 0.2:
            adds.append([who, None, 0])
        else:
            adds.append([who, rng.choice(paths), rng.randrange(2)])       # 0: Enum member / 1: path string
    return dict(kind=3, cls=cname, machine=c['machine'], env=c['env'], init=c['init'], enum=rng.choice([1, 1, 0]),
                adds=adds)


def gen_queue(rng, i, tier):
    """queued machine whose callbacks trigger events and remove models; several remove actions in a row of one
    callback are ONE remove_model([...]) call with a list (Queue.v removes them one after the other)"""
    import c05
    c = c05.gen(rng, i, tier)
    nm = rng.randint(2, 4)
    ns = len(c['machine']['states'])
    ne = len(c['machine']['events'])
    c['models'] = [(k, rng.randrange(ns)) for k in range(nm)]
    c['history'] = [(rng.randrange(nm), rng.randrange(ne), 100 + j) for j in range(rng.randint(1, 3))]
    bypos = {}
    for p in range(0, 40):
        x = rng.random()
        if x < 0.12:
            # events for some models become pending, then a LIST of models is removed in one call
            ms = rng.sample(range(nm), rng.randint(2, min(3, nm)))
            acts = [(0, rng.choice(ms + list(range(nm))), rng.randrange(ne)) for _ in range(rng.randint(1, 3))]
            acts += [(1, m) for m in ms]
            bypos[p] = (rng.random() < 0.7, None, acts)
        elif x < 0.2:
            acts = [(0, rng.randrange(nm), rng.randrange(ne)) for _ in range(rng.randint(1, 2))]
            bypos[p] = (rng.random() < 0.7, None, acts)
        elif x < 0.22:
            bypos[p] = (True, (3 + p % 2, 1), [])
        elif x < 0.4:
            bypos[p] = (rng.random() < 0.7, None, [])
    c['env']['bypos'] = bypos
    c['cls'] = ['Machine', 'HierarchicalMachine', 'LockedMachine', 'GraphMachine'][(i // 8) % 4]
    c['kind'] = 2
    c['queued'] = True
    return c


def gen_two(rng, i):
    cname = TWO_CLASSES[(i // 8) % len(TWO_CLASSES)]
    hsm = 'Hierarchical' in cname
    attrs = rng.sample([0, 1, 2], 2)
    pool = list(range(4))
    descs = []
    ev_pool = list(range(6))
    overlap_events = rng.random() < 0.15
    used = set()
    for k in range(2):
        sts = sorted(rng.sample(pool, rng.randint(1, 3)))
        cand = [e for e in ev_pool if overlap_events or e not in used]
        evs = sorted(rng.sample(cand, rng.randint(0, min(2, len(cand)))))
        used.update(evs)
        descs.append(dict(attr=attrs[k], states=sts, events=[[e, rng.choice(sts)] for e in evs],
                          auto=rng.random() < 0.5, init=rng.choice(sts)))
    names = two_names(hsm, descs[0]) + two_names(hsm, descs[1])
    callable_ = [n for n in names if n[0] in (2, 4, 5)]
    calls = [rng.choice(callable_) for _ in range(rng.randint(1, 6))] if callable_ else []
    if rng.random() < 0.2:
        calls.append([2, 7])       # an event nobody declared
    return dict(kind=1, cls=cname, hsm=hsm, d0=descs[0], d1=descs[1], calls=calls)


def two_names(hsm, d):
    """python mirror of Multi.desc_names (codes of MultiIO.e_hname)"""
    q = [] if (hsm or d['attr'] == 0) else [d['attr']]
    out = [[0], [1]]
    for e, _ in d['events']:
        out += [[2, e], [3, e]]
    if d['auto']:
        for s in d['states']:
            out += [[5, q, s], [6, q, s]]
    for s in d['states']:
        out.append([4, q, s])
    return out


def attr_name(a):
    return 'state' if a == 0 else 'attr%d' % a


def py_name(n):
    k = n[0]
    if k == 0:
        return 'trigger'
    if k == 1:
        return 'may_trigger'
    if k == 2:
        return 'e%d' % n[1]
    if k == 3:
        return 'may_e%d' % n[1]
    pre = {4: 'is_', 5: 'to_', 6: 'may_to_'}[k]
    return pre + ('attr%d_' % n[1][0] if n[1] else '') + 's%d' % n[2]


# ------------------------------------------------------------------ encoding
def enc_sdef(d):
    return [d['enter'], d['exit'], bool(d['final']), opt(d['ignore'], bool)]


def enc_op(o):
    k = o[0]
    if k == 'add_model':
        return [0, o[1], opt(o[2])]
    if k == 'add_models':
        return [6, list(o[1]), opt(o[2])]
    if k == 'remove_model':
        return [1, o[1]]
    if k == 'state':
        return [2, o[1], enc_sdef(o[2])]
    if k == 'trans':
        return [3, o[1], flat.enc_trans(o[2])]
    if k == 'trigger':
        return [4, o[1], bool(o[2]), o[3], o[4]]
    if k == 'copy':
        return [7]
    if k == 'remove_trans':
        return [8, o[1], opt(o[2]), opt(o[3])]
    return [5, o[1], o[2]]


def enc(case):
    if case['kind'] == 4:
        import c19
        return [4] + c19.enc(case)
    if case['kind'] == 3:
        import hsm
        return [3, hsm.enc_hmachine(case['machine']), list(case['init']),
                [[0, []]] + [[m, opt(p, list)] for m, p, _ in case['adds']]]
    if case['kind'] == 2:
        import c05
        return [2] + c05.enc(case)
    if case['kind'] == 1:
        def ed(d):
            return [d['attr'], d['states'], [[e, t] for e, t in d['events']], bool(d['auto']), d['init']]
        return [1, bool(case['hsm']), ed(case['d0']), ed(case['d1']), case['calls']]
    return [0, class_flags(case['cls']) + [qcode(case['queued'])], flat.enc_machine(case['machine']), case['init'],
            flat.enc_env(case['env']), case['ctor_models'], [[e, flat.enc_trans(t)] for e, t in case['ctor_trans']],
            case['nuniv'], opt(case['self_id']),
            [x for o in case['history'] for x in ([[2, q[0], enc_sdef(q[1])] for q in o[1]] if o[0] == 'states' else [enc_op(o)])]]


def _removes_registered_only(case):
    """ASSUMPTIONS[0]: remove_model only for registered models (also keeps shrunk cases inside the assumption)"""
    reg = list(dict.fromkeys(case['ctor_models']))
    states = set(s for s, _ in case['machine']['states'])
    for o in case['history']:
        if o[0] == 'state':
            states.add(o[1])
        elif o[0] == 'states':
            states.update(q[0] for q in o[1])
        elif o[0] == 'add_model':
            if o[1] not in reg and (o[2] is None or o[2] in states):
                reg.append(o[1])
        elif o[0] == 'add_models':
            if o[2] is None or o[2] in states:
                for x in o[1]:
                    if x not in reg:
                        reg.append(x)
        elif o[0] == 'remove_model':
            if o[1] not in reg:
                return False
            reg.remove(o[1])
    return True


def in_envelope(case):
    if case['kind'] in (1, 2, 3, 4):
        return True
    return not case.get('malformed', False) and _removes_registered_only(case)


def _canon_world(w):
    models, objs, ctx, graphs, queues = w
    return [models, [[st, sorted(hs)] for st, hs in objs], ctx, graphs, queues]


def canon(case, obs):
    """model side: blocks -> flat item list (per-model results of a dispatch are not observable), helper tables
    sorted; implementation side is produced in that form"""
    if isinstance(obs, dict) or not isinstance(obs, list) or not obs:
        return obs
    if case['kind'] == 4:
        import c19
        return c19.canon(case, obs)
    if case['kind'] == 3:
        if isinstance(obs, list) and obs and obs[0] == 3:
            return [3, obs[1]]
        return obs
    if case['kind'] == 2:
        import c05
        if isinstance(obs, list) and len(obs) == 2 and obs[0] == 1:
            # QueueIO numbers nested payloads 1000 + 16 * arrival + k: an event whose callbacks perform >= 16
            # actions makes payloads ambiguous (a harness artefact) -> such cases are not compared
            worst = 0
            for step in obs[1]:
                per = {}
                items = step['items'] if isinstance(step, dict) else \
                    ([it for b in step[0] for it in b[4]] if isinstance(step, list) and len(step) == 6 else [])
                for it in items:
                    per[it[4][1]] = per.get(it[4][1], 0) + len(it[7])
                worst = max([worst] + list(per.values()))
            if worst >= 16:
                return [1, 'payload-overflow']
        return c05.canon(case, obs)
    gr = class_flags(case['cls'])[1]

    def markup_of(w):
        """markup['models'] of the graph (= markup) classes: one entry per registered model, in registration order,
        with THAT model's state and class"""
        return [[m, w[1][m][0]] for m in w[0]] if gr else []

    def rebuilt_of(w):
        """the models of a machine rebuilt from the markup: class (0 plain / 1 falsy / 2 the machine) and state"""
        if not gr:
            return []
        fal = set(case.get('falsy', []))
        return [[2 if m == case['self_id'] else (1 if m in fal else 0), w[1][m][0]] for m in w[0]]
    if obs[0] == 1 and len(obs) == 3 and not (obs[2] and isinstance(obs[2][0], dict)):
        steps = []
        raw = list(obs[2])
        for o in case['history']:
            n = len(o[1]) if o[0] == 'states' else 1      # add_states([s1, s2, ..]): the model adds them one by one
            chunk, raw = raw[:n], raw[n:]
            if not chunk:
                break
            res = next((r for _, r, _ in chunk if r[0] == 1), chunk[-1][1])
            cw = _canon_world(chunk[-1][2])
            steps.append([[it for blocks, _, _ in chunk for b in blocks for it in b[1]], res, cw, 1, markup_of(cw)])
        last = steps[-1][2] if steps else _canon_world(obs[1])
        return [1, _canon_world(obs[1]), steps, rebuilt_of(last)]
    if obs[0] == 1:
        return [1, obs[1], [[s['items'], s['result'], s['world'], s['order_ok'], s['markup']] for s in obs[2]], obs[3]]
    return obs


# ------------------------------------------------------------------ implementation side
class Obj(object):
    pass


class FalsyObj(Obj):
    """a model whose truth value is False (a container-like model that is empty)"""
    def __bool__(self):
        return False

    def __len__(self):
        return 0


def _run(r):
    if inspect.isawaitable(r):
        async def w():
            return await r
        return asyncio.run(w())
    return r


class CaseTimeout(Exception):
    pass


_TIMEOUT = [60.0]   # wall seconds per case (normal cases take milliseconds; generous because the box may be
                    # loaded); 5 after the first timeout in this process (keeps shrinking of a deadlock fast)
_HIT = [False]


def _alarm(signum, frame):
    _TIMEOUT[0] = 5.0
    _HIT[0] = True
    raise CaseTimeout('case did not finish in time (deadlock?)')


def impl_multi(case):
    """a case that blocks (e.g. a lock context entered twice) must end as a reported disagreement, not hang:
    a repeating timer raises CaseTimeout in whatever is blocking (lock acquisition is interruptible); even if
    the library swallows it (on_exception handlers), the case is reported as timed out"""
    import signal
    old = signal.signal(signal.SIGALRM, _alarm)
    _HIT[0] = False
    signal.setitimer(signal.ITIMER_REAL, _TIMEOUT[0], 0.5)
    try:
        out = _impl_multi(case)
    finally:
        signal.setitimer(signal.ITIMER_REAL, 0)
        signal.signal(signal.SIGALRM, old)
    if _HIT[0]:
        raise CaseTimeout('case did not finish in time (deadlock?)')
    return out


def _impl_multi(case):
    if case['kind'] == 1:
        return impl_two(case)
    if case['kind'] == 2:
        return impl_queue_lists(case)
    if case['kind'] == 3:
        return impl_own(case)
    if case['kind'] == 4:
        import c19
        return c19.impl_features(case)
    tr = flat._import_transitions()
    cname = case['cls']
    cls = flat.get_class(cname)
    lk, gr, hs, asy = class_flags(cname)
    mc = case['machine']
    world = flat.World(case['env'], mc['send'])

    def state_of(mod):
        return flat.state_int(mod) if hasattr(mod, 'state') else 998
    world.state_of = state_of
    world.perform = lambda a: None
    n = case['nuniv']
    self_id = case['self_id']
    falsy = set(case.get('falsy', []))
    objs = [None if k == self_id else (FalsyObj() if k in falsy else Obj()) for k in range(n)]
    cbnames = []

    def install(mod):
        for name, slot, cb in cbnames:
            if name not in vars(mod):
                setattr(mod, name, world.recorder(slot, cb, mod))

    def R(slot, cb):
        name = 'cb_%s_%d' % (slot, cb)
        if all(name != x[0] for x in cbnames):
            cbnames.append((name, slot, cb))
            for mod in objs:
                if mod is not None:
                    install(mod)
        return name

    def state_kw(s, d):
        return dict(name='s%d' % s, on_enter=[R('enter', c) for c in d['enter']],
                    on_exit=[R('exit', c) for c in d['exit']], ignore_invalid_triggers=d['ignore'], final=d['final'])

    def trans_kw(e, t):
        return dict(trigger='e%d' % e, source='s%d' % t['src'], dest=None if t['dst'] is None else 's%d' % t['dst'],
                    conditions=[R('cond', c) for c, tg in t['conds'] if tg],
                    unless=[R('unless', c) for c, tg in t['conds'] if not tg],
                    before=[R('before', c) for c in t['before']], after=[R('after', c) for c in t['after']],
                    prepare=[R('prepare', c) for c in t['prepare']])

    ctor_models = [tr.Machine.self_literal if k == self_id else objs[k] for k in case['ctor_models']]
    kw = dict(model=ctor_models if ctor_models else None, states=[state_kw(s, d) for s, d in mc['states']],
              initial='s%d' % case['init'], auto_transitions=False, send_event=mc['send'],
              ignore_invalid_triggers=mc['ignore'], queued=case['queued'],
              prepare_event=[R('prepare_event', c) for c in mc['prepare_event']],
              before_state_change=[R('before_sc', c) for c in mc['before_sc']],
              after_state_change=[R('after_sc', c) for c in mc['after_sc']],
              finalize_event=[R('finalize', c) for c in mc['finalize']],
              on_exception=[R('on_exception', c) for c in mc['on_exception']],
              on_final=[R('on_final', c) for c in mc['on_final']])
    kw.update(flat.class_kwargs(cname))
    machine = cls(**kw)
    if self_id is not None:
        objs[self_id] = machine
        install(machine)
    for k, o in enumerate(objs):
        world.model_ids[id(o)] = k
    for e, t in case['ctor_trans']:
        machine.add_transition(**trans_kw(e, t))

    def helper_code(name):
        if name == 'trigger':
            return [0]
        if name == 'may_trigger':
            return [1]
        if name == 'to':
            return [5]
        if name == 'get_graph':
            return [6]
        if name.startswith('may_e'):
            return [3, int(name[5:])]
        if name.startswith('is_s'):
            return [4, int(name[4:])]
        return [2, int(name[1:])]

    def keys_of(table):
        return [world.model_ids.get(kk, 99) for kk in list(table.keys())]

    def observe():
        per = []
        for o in objs:
            st = opt(flat.state_int(o)) if 'state' in vars(o) else []
            per.append([st, sorted(helper_code(nm) for nm in vars(o) if HELPER_RE.match(nm))])
        ctx = keys_of(machine.model_context_map) if lk else []
        graphs = keys_of(machine.model_graphs) if gr else []
        queues = keys_of(machine._transition_queue_dict) if (asy and case['queued'] == 'model') else []
        return [[world.model_ids.get(id(x), 99) for x in machine.models], per, ctx, graphs, queues]

    def class_name_of(mod):
        return 'self' if mod is machine else type(mod).__module__ + '.' + type(mod).__name__

    def observe_markup():
        if not gr:
            return []
        try:
            entries = machine.markup.get('models', [])
        except CaseTimeout:
            raise
        except BaseException as ex:  # noqa
            return [[98, flat.classify_exc(ex)]]
        if len(entries) != len(machine.models):
            return [[97, [len(entries)]]]
        outm = []
        for ent, mod in zip(entries, machine.models):
            st = ent.get('state')
            try:
                code = [int(str(st)[1:])]
            except Exception:  # noqa
                code = [996]
            if ent.get('class-name') != class_name_of(mod):
                code = [997]              # the entry describes another model's class
            outm.append([world.model_ids.get(id(mod), 99), code])
        return outm

    def observe_rebuilt():
        """a second machine built from markup=<the first one's markup>: one model per described model, each of the
        described class and in the described state"""
        if not gr:
            return []
        try:
            clone = cls(markup=machine.markup, **flat.class_kwargs(cname))
            outr = []
            for mod in clone.models:
                kind = 2 if mod is clone else (1 if isinstance(mod, FalsyObj) else (0 if type(mod) is Obj else 9))
                outr.append([kind, [flat.state_int(mod)]])
            return outr
        except CaseTimeout:
            raise
        except BaseException as ex:  # noqa
            return [[95, flat.classify_exc(ex)]]

    w0 = observe()
    out = []
    for o in case['history']:
        world.items = []
        order_ok = 1
        tok = None
        try:
            k = o[0]
            if k == 'add_model':
                target = tr.Machine.self_literal if o[1] == self_id else objs[o[1]]
                r = machine.add_model(target, initial=None if o[2] is None else 's%d' % o[2])
            elif k == 'add_models':
                targets = [tr.Machine.self_literal if x == self_id else objs[x] for x in o[1]]
                r = machine.add_model(targets, initial=None if o[2] is None else 's%d' % o[2])
            elif k == 'remove_model':
                r = machine.remove_model(objs[o[1]])
            elif k == 'state':
                r = machine.add_states(state_kw(o[1], o[2]))
                if self_id is not None:
                    install(machine)
            elif k == 'states':
                r = machine.add_states([state_kw(q[0], q[1]) for q in o[1]])
                if self_id is not None:
                    install(machine)
            elif k == 'remove_trans':
                r = machine.remove_transition('e%d' % o[1], source='*' if o[2] is None else 's%d' % o[2],
                                              dest='*' if o[3] is None else 's%d' % o[3])
            elif k == 'trans':
                r = machine.add_transition(**trans_kw(o[1], o[2]))
                if self_id is not None:
                    install(machine)
            elif k == 'copy':
                # strip the recorders (closures), copy machine + every object of the universe together, continue on
                # the copy: same models, states, helpers and tables (keys = the ids of the copied objects)
                for mod in objs:
                    for name, _, _ in cbnames:
                        vars(mod).pop(name, None)
                blob = (machine, list(objs))
                machine, new_objs = pickle.loads(pickle.dumps(blob)) if o[1] == 0 else copy.deepcopy(blob)
                objs[:] = new_objs
                world.model_ids = {id(x): j for j, x in enumerate(objs)}
                for mod in objs:
                    install(mod)
                r = None
            elif k == 'trigger':
                tok = flat.Token(o[4])
                mod = objs[o[1]]
                if o[2]:
                    r = _run(mod.trigger('e%d' % o[3], tok, k=tok))
                else:
                    r = _run(getattr(mod, 'e%d' % o[3])(tok, k=tok))
            else:
                tok = flat.Token(o[2])
                regs = [world.model_ids.get(id(x), 99) for x in machine.models]
                r = _run(machine.dispatch('e%d' % o[1], tok, k=tok))
                if asy:
                    first = []
                    for it in world.items:
                        if it[2] not in first:
                            first.append(it[2])
                    if first != [x for x in regs if x in first]:
                        order_ok = 0
                    world.items = [it for mm in regs for it in world.items if it[2] == mm] + \
                                  [it for it in world.items if it[2] not in regs]
            res = [0, 1 if r else 0] if k in ('trigger', 'dispatch') else [0, 2 if r is None else 3]
        except CaseTimeout:
            raise
        except BaseException as ex:  # noqa
            res = [1, flat.classify_exc(ex)]
        if asy and tr.extensions.asyncio.AsyncMachine.async_tasks:
            order_ok = 0          # the task table must be empty between calls
        if asy and case['queued'] == 'model':
            qs = list(machine._transition_queue_dict.values())
            if len(set(id(q) for q in qs)) != len(qs) or any(len(q) for q in qs):
                order_ok = 0      # every model has its OWN queue, empty between calls (models are independent)
        out.append(dict(items=world.items, result=res, world=observe(), order_ok=order_ok, markup=observe_markup()))
    return [1, w0, out, observe_rebuilt()]


def impl_own(case):
    import hsm
    flat._import_transitions()
    hsm.CUR['sep'] = hsm.SEP
    world = flat.World(case['env'], case['machine']['send'])
    world.perform = lambda a: None
    cname = case['cls']
    cls = flat.get_class(cname)
    if case['enum']:
        machine, first = hsm.build_hsm_enum(case, world, cls, extra_kwargs=flat.class_kwargs(cname))
        names = world.enum_names
        forest = lambda mod: names.forest(mod.state)                   # noqa
        ref = lambda p, as_str: (names.label_path(p) if as_str else names.member[tuple(p)])   # noqa
    else:
        machine, first = hsm.build_hsm(case, world, cls, extra_kwargs=flat.class_kwargs(cname))
        forest = hsm.state_forest
        ref = lambda p, as_str: hsm.sname(p)                               # noqa
    world.current_model = first
    objs = {0: first}
    out = [[[0, forest(first)]]]
    for who, p, as_str in case['adds']:
        if who not in objs:
            objs[who] = Obj() if who % 3 else FalsyObj()
        try:
            machine.add_model(objs[who], initial=None if p is None else ref(list(p), as_str))
        except CaseTimeout:
            raise
        except BaseException as ex:  # noqa
            out.append([[99, flat.classify_exc(ex)]])
            continue
        reg = [k for k in sorted(objs) if any(objs[k] is x for x in machine.models)]
        order = [k for x in machine.models for k in objs if objs[k] is x]
        out.append([[k, forest(objs[k])] for k in order])
    return [3, out]


def impl_queue_lists(case):
    """like c05.impl_queue, but a run of remove actions of one callback is ONE remove_model([...]) call, and the
    models alternate between plain and falsy objects"""
    flat._import_transitions()
    world = flat.World(case['env'], case['machine']['send'])
    world.state_of = flat.state_int

    class QModel(flat.Model):
        pass

    class QFalsy(flat.Model):
        def __bool__(self):
            return False
    models = [(QFalsy() if k % 3 == 1 else QModel()) for k, _ in case['models']]
    for (k, _), mod in zip(case['models'], models):
        world.model_ids[id(mod)] = k
    cname = case.get('cls', 'Machine')
    c2 = dict(case)
    c2['init'] = case['models'][0][1]
    machine, _ = flat.build_machine(c2, world, cls=flat.get_class(cname), models=models,
                                    extra_kwargs=dict(queued=True, **flat.class_kwargs(cname)))
    for (k, s0), mod in zip(case['models'], models):
        machine.set_state('s%d' % s0, mod)
    st = dict(next_id=0, payload_id={}, act_k={}, nested=[], item=-1, j=0, buf=[])

    def call_trigger(mod, e, payload):
        tok = flat.Token(payload)
        st['payload_id'][payload] = st['next_id']
        st['next_id'] += 1
        return mod.trigger('e%d' % e, tok, k=tok)

    def perform(a):
        idx = len(world.items) - 1
        if st['item'] != idx:
            st['item'], st['j'] = idx, 0
        acts = world.items[idx][7]
        j = st['j']
        st['j'] += 1
        cur = st['payload_id'].get(world.items[idx][4][1], 0)
        k = st['act_k'].get(cur, 0)
        st['act_k'][cur] = k + 1
        if a[0] == 0:
            r = call_trigger(models[a[1]], a[2], 1000 + 16 * cur + k)
            st['nested'].append(r is True)
            return
        st['buf'].append(a[1])
        if j + 1 < len(acts) and acts[j + 1][0] == 1:
            return                                        # the run of removals continues
        victims = []
        for x in st['buf']:
            if models[x] in machine.models and models[x] not in victims:
                victims.append(models[x])
        st['buf'] = []
        if len(victims) == 1:
            machine.remove_model(victims[0])
        elif victims:
            machine.remove_model(victims)
    world.perform = perform
    out = []
    for (m, e, a) in case['history']:
        world.items = []
        st['nested'] = []
        st['item'], st['buf'] = -1, []
        try:
            r = call_trigger(models[m], e, a)
            res = [0, 1 if r is True else (0 if r is False else 7)]
        except CaseTimeout:
            raise
        except BaseException as ex:  # noqa
            res = [1, flat.classify_exc(ex)]
        processed = []
        for it in world.items:
            pid = st['payload_id'].get(it[4][1], 999)
            if not processed or processed[-1] != pid:
                processed.append(pid)
        out.append(dict(items=world.items, result=res,
                        states=[[k, flat.state_int(mod)] for (k, _), mod in zip(case['models'], models)],
                        models=[world.model_ids[id(x)] for x in machine.models],
                        processed=processed, nested_true=1 if all(st['nested']) else 0))
    return [1, out]


def _owner(f, machines):
    seen = 0
    while isinstance(f, partial) and seen < 5:
        f = f.func
        seen += 1
    s = getattr(f, '__self__', None)
    s = getattr(s, 'machine', s)
    for k, mm in enumerate(machines):
        if s is mm:
            return [k]
    return [7]


def impl_two(case):
    flat._import_transitions()
    cls = flat.get_class(case['cls'])
    obj = Obj()
    machines = []
    for d in (case['d0'], case['d1']):
        machines.append(cls(model=obj, states=['s%d' % s for s in d['states']], initial='s%d' % d['init'],
                            model_attribute=attr_name(d['attr']), auto_transitions=bool(d['auto']),
                            transitions=[dict(trigger='e%d' % e, source='*', dest='s%d' % t) for e, t in d['events']]))
    names = two_names(case['hsm'], case['d0']) + two_names(case['hsm'], case['d1'])
    table = []
    for nm in names:
        f = vars(obj).get(py_name(nm))
        table.append([nm, [] if f is None else _owner(f, machines)])
    attrs = []
    for d in (case['d0'], case['d1']):
        if d['attr'] not in attrs:
            attrs.append(d['attr'])
    calls = []
    for nm in case['calls']:
        f = vars(obj).get(py_name(nm))
        if f is None:
            calls.append([0])
            continue
        try:
            r = _run(f())
            val = bool(r) if nm[0] == 4 else True
            calls.append([1, val, [[a, flat.state_int(obj, attr_name(a))] for a in attrs]])
        except CaseTimeout:
            raise
        except BaseException as ex:  # noqa
            calls.append([3, flat.classify_exc(ex)])
    return [2, table, calls]


# ------------------------------------------------------------------ oracle: the property on the implementation's observation
def _two_overlap(case):
    return bool(set(case['d0']['states']) & set(case['d1']['states']))


def _two_in_scope(case):
    """the quantifier of the two-machine clause: distinct attributes, disjoint event names"""
    e0 = set(e for e, _ in case['d0']['events'])
    e1 = set(e for e, _ in case['d1']['events'])
    return case['d0']['attr'] != case['d1']['attr'] and not (e0 & e1)


def oracle(case, obs):
    if not isinstance(obs, list) or not obs:
        return None
    if case['kind'] == 1:
        if obs[0] != 2 or not _two_in_scope(case):
            return None
        n0 = len(two_names(case['hsm'], case['d0']))
        for idx, (nm, own) in enumerate(obs[1]):
            if nm[0] in (0, 1):
                continue
            want = 0 if idx < n0 else 1
            if own != [want]:
                return 'two_machines: helper %s requested by machine %d is bound to %r' % (py_name(nm), want, own)
        return None
    if case['kind'] in (3, 4):
        return None          # own initial states / state features: compared with Multi.own_run / Features.v
    if case['kind'] == 2 or obs[0] != 1:
        return None          # the queued stream is compared with Queue.v (C05_remove_exact) only
    lk, gr, hs, asy = class_flags(case['cls'])
    prev = obs[1]
    if len(prev[0]) != len(set(prev[0])):
        return 'a model listed twice in the constructor is registered twice'
    removed = set()
    for o, (items, res, w, order_ok, markup) in zip(case['history'], obs[2]):
        if gr and markup != [[m_, w[1][m_][0]] for m_ in w[0]]:
            return 'markup: the entries of markup[\'models\'] do not describe the registered models one by one (%r)' % (markup,)
        models, per, ctx, graphs, queues = w
        pm, pper = prev[0], prev[1]
        k = o[0]
        if not order_ok:
            return ('async dispatch: first items not in registration order, or task table not empty, or the per-model '
                    'queues (queued=\'model\') are not one empty queue per model')
        if k == 'trigger':
            if any(it[2] != o[1] for it in items):
                return 'frame: a callback ran on behalf of another model'
            for j in range(len(per)):
                if j != o[1] and per[j] != pper[j]:
                    return 'frame: trigger on model %d changed model %d' % (o[1], j)
            if models != pm:
                return 'frame: trigger changed the registered models'
        if k == 'dispatch':
            seen = []
            for it in items:
                if not seen or seen[-1] != it[2]:
                    seen.append(it[2])
            if len(seen) != len(set(seen)) or seen != [x for x in pm if x in seen]:
                return 'dispatch: event blocks %r are not one per registered model in registration order %r' % (seen, pm)
            for j in range(len(per)):
                if j not in pm and per[j] != pper[j]:
                    return 'dispatch touched the unregistered model %d' % j
        if k == 'add_model' and o[1] in pm:
            if (models, per, ctx, graphs, queues) != (pm, pper, prev[2], prev[3], prev[4]):
                return 'add_twice: adding a registered model changed something'
            if res != [0, 2]:
                return 'add_twice: adding a registered model raised or returned a value (%r)' % (res,)
        if len(models) != len(set(models)):
            return 'a model is registered twice (%r)' % (models,)
        if k == 'copy' and (res != [0, 2] or (models, per, queues) != (pm, pper, prev[4])
                            or any(g not in prev[3] and g not in models for g in graphs)
                            or any(g not in prev[2] and g not in models for g in ctx)
                            or (lk and any(g not in ctx for g in models))):
            return 'copy: the pickled / deep-copied machine differs from the original (models, states, helpers, tables)'
        if k == 'add_models':
            for j in set(o[1]):
                if j in pm and per[j] != pper[j]:
                    return 'add_twice: a list add changed the already registered model %d' % j
            if all(j in pm for j in o[1]):
                if (models, per, ctx, graphs, queues) != (pm, pper, prev[2], prev[3], prev[4]) or res != [0, 2]:
                    return 'add_twice: adding registered models (list) changed something or raised'
            if res == [0, 2]:
                for j in set(o[1]):
                    if j not in pm and (j not in models or (o[2] is not None and per[j][0] != [o[2]])):
                        return 'late_model: new model %d of a list add is not registered in its own initial state' % j
        if k in ('state', 'states', 'trans', 'dispatch', 'add_model', 'add_models', 'remove_model', 'trigger'):
            for j in removed:
                if (k in ('add_model', 'trigger') and o[1] == j) or (k == 'add_models' and j in o[1]):
                    continue
                if per[j] != pper[j]:
                    return 'removed: operation %s changed the removed model %d' % (k, j)
        if k == 'remove_model' and res == [0, 2]:
            removed.add(o[1])
            if o[1] in models or o[1] in ctx or o[1] in queues:
                return 'removed: a table still holds the model'
        if k == 'add_model' and o[1] in models:
            removed.discard(o[1])
        if k == 'add_models':
            for j in o[1]:
                if j in models:
                    removed.discard(j)
        if k == 'states' and res == [0, 2]:
            for q in o[1]:
                for j in models:
                    if [4, q[0]] not in per[j][1]:
                        return ('late_model: registered model %d did not receive is_s%d of an add_states call with '
                                'several states' % (j, q[0]))
        if k in ('state', 'trans') and res == [0, 2]:
            # late models: every registered model has the helper, like every other registered model
            tabs = [per[j][1] for j in models]
            if any(t != tabs[0] for t in tabs[1:]) and not gr:
                pass    # tables may differ by stale helpers of earlier memberships only; checked below
            want = [4, o[1]] if k == 'state' else [2, o[1]]
            for j in models:
                if want not in per[j][1] or (k == 'trans' and [3, o[1]] not in per[j][1]):
                    return 'late_model: registered model %d did not receive the new helper' % j
        prev = w
    return None


def classify_known(case, model_obs, impl_obs):
    if case['kind'] == 1 and case['hsm'] and _two_in_scope(case) and _two_overlap(case):
        # two hierarchical machines sharing a model with overlapping state names
        if model_obs is None or model_obs == impl_obs:
            return 'KF-C10-1'
    return None


def nontrivial(case, obs):
    if not isinstance(obs, list) or not obs:
        return False
    if case['kind'] == 1:
        return obs[0] == 2 and _two_overlap(case)
    if case['kind'] == 4:
        import c19
        return len(set(h[0] for h in case['history'] if c19.is_call(h))) >= 2
    if case['kind'] == 3:
        return any(p is not None and len(p) >= 2 for _, p, _ in case['adds'])
    if case['kind'] == 2:
        import c05
        return c05.nontrivial(case, obs)
    if obs[0] != 1:
        return False
    member_change = False
    for o, step in zip(case['history'], obs[2]):
        if o[0] in ('add_model', 'add_models', 'remove_model'):
            member_change = True
        if o[0] in ('state', 'states', 'trans') and member_change and step[2][0]:
            return True
        if o[0] == 'dispatch' and len(set(it[2] for it in step[0])) >= 2:
            return True
    return False


def stats(case, obs, dist):
    def inc(k, n=1):
        dist[k] = dist.get(k, 0) + n
    if case['kind'] == 1:
        inc('two_machine_cases')
        inc('two_' + case['cls'])
        if _two_overlap(case):
            inc('two_overlapping_states')
        if not _two_in_scope(case):
            inc('two_overlapping_events')
        return
    if case['kind'] == 4:
        inc('feature_stream_cases')
        inc('feature_models_%d' % case['nmodels'])
        if any(s_['retries'] for s_ in case['states']):
            inc('feature_cases_with_retry_budget')
        return
    if case['kind'] == 3:
        inc('own_initial_cases')
        inc('own_' + case['cls'])
        inc('own_enum_%s' % case['enum'])
        for _, p, as_str in case['adds']:
            inc('own_add_%s' % ('machine_initial' if p is None else ('nested' if len(p) >= 2 else 'top_level')))
        return
    if case['kind'] == 2:
        inc('queue_stream_cases')
        inc('queue_' + case['cls'])
        if isinstance(obs, list) and obs[0] == 1:
            for step in obs[1]:
                if isinstance(step, list) and len(step[3]) < len(case['models']):
                    inc('queue_calls_after_a_removal')
        if any(sum(1 for a in r[2] if a[0] == 1) >= 2 for r in case['env']['bypos'].values()):
            inc('queue_cases_with_list_removal')
        return
    inc('cls_' + case['cls'])
    inc('queued_%s' % case['queued'])
    if case.get('falsy'):
        inc('cases_with_falsy_models')
    if len(case['ctor_models']) != len(set(case['ctor_models'])):
        inc('ctor_lists_with_a_repeated_model')
    if case['self_id'] is not None:
        inc('machine_is_a_model')
    if not isinstance(obs, list) or obs[0] != 1:
        inc('undecodable')
        return
    for o, step in zip(case['history'], obs[2]):
        inc('op_' + o[0])
        res = step[1]
        if res[0] == 1:
            inc('raised_%s_%s' % (o[0], {0: 'MachineError', 1: 'AttributeError', 2: 'ValueError', 3: 'User',
                                         4: 'Base'}.get(res[1][0], 'other')))
        if o[0] == 'dispatch':
            inc('dispatch_over_%d_models' % len(step[2][0]))
            if res == [0, 0]:
                inc('dispatch_false')
        if o[0] == 'add_model':
            inc('add_model_results_%d_models' % len(step[2][0]))
        if o[0] == 'add_models' and len(o[1]) != len(set(o[1])):
            inc('add_models_with_in_call_repetition')
        if o[0] == 'trigger' and step[0]:
            inc('trigger_with_items')


def shrink_candidates(case):
    if case['kind'] == 4:
        import c19
        for c in c19.shrink_candidates(case):
            c = dict(c)
            c['kind'] = 4
            yield c
        return
    if case['kind'] == 3:
        for i in range(len(case['adds'])):
            c = copy.deepcopy(case)
            del c['adds'][i]
            yield c
        return
    if case['kind'] == 2:
        import c05
        for c in c05.shrink_candidates(case):
            yield c
        return
    if case['kind'] == 1:
        for i in range(len(case['calls'])):
            c = copy.deepcopy(case)
            del c['calls'][i]
            yield c
        return
    h = case['history']
    for i in range(len(h) - 1, -1, -1):
        if h[i][0] in ('state', 'states'):
            continue
        c = copy.deepcopy(case)
        del c['history'][i]
        yield c
    for p in list(case['env'].get('bypos', {})):
        c = copy.deepcopy(case)
        del c['env']['bypos'][p]
        yield c
    for i in range(len(case['ctor_trans'])):
        c = copy.deepcopy(case)
        del c['ctor_trans'][i]
        yield c
    for i in range(len(case['ctor_models'])):
        c = copy.deepcopy(case)
        del c['ctor_models'][i]
        yield c
    if case['self_id'] is not None:
        c = copy.deepcopy(case)
        c['self_id'] = None
        yield c


# ------------------------------------------------------------------ extra checks
def _gc_probe(cname, queued, restore=None):
    """a removed model must be collectable although the machine lives on — also when the machine (with its models)
    is a pickle round trip / a deep copy of another machine"""
    flat._import_transitions()
    cls = flat.get_class(cname)
    a, b = Obj(), FalsyObj()
    kw = dict(flat.class_kwargs(cname))
    m = cls(model=[a, b], states=['A', 'B', 'C'], initial='A', queued=queued,
            transitions=[['go', 'A', 'B'], ['back', 'B', 'A']], **kw)
    late = Obj()
    m.add_model(late, initial='B')
    _run(m.dispatch('to_C'))
    _run(a.to_A())
    m.add_transition('again', 'C', 'A')
    m.add_states('D')
    _run(b.again())
    if restore == 'pickle':
        m, (a, b, late) = pickle.loads(pickle.dumps((m, (a, b, late))))
    elif restore == 'deepcopy':
        m, (a, b, late) = copy.deepcopy((m, (a, b, late)))
    if restore:
        gc.collect()
        assert list(m.models) == [a, b, late] and (a.state, b.state, late.state) == ('A', 'A', 'C')
    dead = []
    pool = dict(a=a, late=late)
    del a, late
    for victim_name in ('a', 'late'):
        m.remove_model(pool[victim_name])
        w = weakref.ref(pool[victim_name])
        del pool[victim_name]
        gc.collect()
        dead.append(w() is None)
    _run(m.dispatch('to_B'))
    ok = all(dead) and len(m.models) == 1 and b.state == 'B'
    return ok, dict(collected=dead, models_left=len(m.models), state_of_survivor=b.state)


class FeatObj(object):
    """model of the feature probes: counts the entries of every state (callbacks by name)"""
    def __init__(self):
        self.entered = {}
        self.failed = 0
        self.timed_out = 0

    def count(self, *args, **kwargs):
        self.entered[self.state] = self.entered.get(self.state, 0) + 1

    def on_fail(self, *args, **kwargs):
        self.failed += 1
        return getattr(self, 'to_s0')()

    def on_tmo(self, *args, **kwargs):
        self.timed_out += 1


def _feature_machine(cname, spec, nmodels):
    flat._import_transitions()
    from transitions.extensions.states import Retry, Timeout, add_state_features
    base = flat.get_class(cname)
    cls = add_state_features(Timeout, Retry)(type('Feat' + cname, (base,), {}))
    models = [FeatObj() for _ in range(nmodels)]
    states = []
    for k, (retries, timeout) in enumerate(spec['states']):
        d = dict(name='s%d' % k, on_enter='count')
        if retries:
            d.update(retries=retries, on_failure='on_fail')
        if timeout:
            d.update(timeout=3600, on_timeout='on_tmo')        # never fires; one timer per model and entry
        states.append(d)
    m = cls(model=models, states=states, initial='s0', ignore_invalid_triggers=True,
            transitions=[dict(trigger='e%d' % e, source='s%d' % a, dest=('=' if b is None else 's%d' % b))
                         for e, a, b in spec['trans']], **flat.class_kwargs(cname))
    return m, models


def _feature_run(cname, spec, nmodels, history):
    """per model: after each of ITS calls (result / exception type, state, entry counters, failures)"""
    m, models = _feature_machine(cname, spec, nmodels)
    out = [[] for _ in models]
    timers_ok = True
    try:
        for who, e in history:
            mod = models[who]
            try:
                r = [0, bool(getattr(mod, 'e%d' % e)())]
            except BaseException as ex:  # noqa
                r = [1, flat.classify_exc(ex)]
            out[who].append([r, mod.state, sorted(mod.entered.items()), mod.failed, mod.timed_out])
            # Timeout.runner: a model sitting in a timeout state owns a live timer there, whatever the others did
            for k, (_, timeout) in enumerate(spec['states']):
                st = m.get_state('s%d' % k)
                for x in models:
                    t = st.runner.get(id(x)) if timeout else None
                    if timeout and x.state == 's%d' % k and 's%d' % k in x.entered and (t is None or not t.is_alive()):
                        timers_ok = False
    finally:
        for st in m.states.values():
            for t in getattr(st, 'runner', {}).values():
                t.cancel()
    return out, timers_ok


def _feature_probe(rng, cname):
    """independence of the per-model bookkeeping of state-feature mixins (Retry.retry_counts, Timeout.runner):
    the outcome of every model in an interleaved history equals its solo run of the same calls"""
    ns = rng.randint(2, 4)
    spec = dict(states=[(rng.choice([0, 1, 1, 2]), rng.random() < 0.4) for _ in range(ns)], trans=[])
    spec['states'][0] = (0, spec['states'][0][1])
    for e in range(rng.randint(1, 3)):
        for a in rng.sample(range(ns), rng.randint(1, ns)):
            spec['trans'].append((e, a, rng.choice([None, None] + list(range(ns)))))
    nm = rng.randint(2, 3)
    ne = 1 + max(e for e, _, _ in spec['trans'])
    history = [(rng.randrange(nm), rng.randrange(ne)) for _ in range(rng.randint(6, 16))]
    inter, timers_ok = _feature_run(cname, spec, nm, history)
    for who in range(nm):
        solo, solo_ok = _feature_run(cname, spec, 1, [(0, e) for w_, e in history if w_ == who])
        timers_ok = timers_ok and solo_ok
        if solo[0] != inter[who]:
            return False, dict(cls=cname, spec=spec, models=nm, history=history, model=who, interleaved=inter[who],
                               solo=solo[0])
    if not timers_ok:
        return False, dict(cls=cname, spec=spec, models=nm, history=history, timers='a model in a timeout state has no live timer')
    return True, None


class DispObj(object):
    def __init__(self, boom=None):
        self.calls = 0
        self.boom = boom

    def hit(self, *args, **kwargs):
        self.calls += 1
        if self.boom is not None:
            raise self.boom


def _dispatch_raises_probe(cname, queued, variant, raiser):
    """dispatch where the event raises for exactly one model (an invalid trigger that is not ignored / a raising
    callback): the exception propagates out of dispatch — it is never turned into a result — and no model receives
    the event twice; the models registered before the raising one receive it exactly once.  (Machine.dispatch stops
    at the raising model; the asyncio classes have started the later models' triggers already.)"""
    tr = flat._import_transitions()
    cls = flat.get_class(cname)
    models = [DispObj() for _ in range(3)]
    if variant == 'callback':
        models[raiser].boom = flat.UserExc(7)
    m = cls(model=models, states=['A', 'B', 'C'], initial='A', queued=queued, auto_transitions=False,
            transitions=[dict(trigger='go', source='A', dest='B', before='hit'),
                         dict(trigger='park', source='A', dest='C')], **flat.class_kwargs(cname))
    if variant == 'invalid':
        _run(models[raiser].park())                     # 'go' is not valid from C
    want = tr.MachineError if variant == 'invalid' else flat.UserExc
    try:
        r = _run(m.dispatch('go'))
        got = 'returned %r' % (r,)
    except BaseException as ex:  # noqa
        got = type(ex)
    d = dict(cls=cname, queued=queued, variant=variant, raiser=raiser, outcome=getattr(got, '__name__', got),
             calls=[x.calls for x in models], states=[x.state for x in models])
    ok = got is want or (isinstance(got, type) and issubclass(got, want))
    for j, x in enumerate(models):
        exp_calls = 0 if (variant == 'invalid' and j == raiser) else 1
        if x.calls > 1 or (j < raiser and x.calls != exp_calls):
            ok = False
        if j < raiser and x.state != 'B':
            ok = False
    return ok, d


class SpawnObj(object):
    """model of the nested-callback probe: a callback of a transition declared INSIDE a nested state adds models"""
    def __init__(self):
        self.spawned = []
        self.hits = 0

    def count(self, *args, **kwargs):
        self.hits += 1

    def spawn(self, *args, **kwargs):
        a, b = SpawnObj(), FalsySpawn()
        a.machine = b.machine = self.machine
        self.machine.add_model(a)                       # the machine's initial state
        self.machine.add_model(b, initial='job')        # its own initial state, which has an initial child
        self.machine.add_model(self)                    # a registered model again: no effect
        self.spawned += [a, b]


class FalsySpawn(SpawnObj):
    def __bool__(self):
        return False

    def __len__(self):
        return 0


def _nested_add_probe(cname, queued):
    """add_model performed from a callback of a transition declared inside a nested state's definition (the machine's
    scope is that state while the callback runs): the late models are registered once, sit in the configuration of
    the machine's / their own initial state, own every trigger and state check, and dispatch reaches each model once"""
    flat._import_transitions()
    cls = flat.get_class(cname)
    first = SpawnObj()
    states = ['idle',
              {'name': 'job', 'initial': 'setup', 'children': ['setup', 'run', 'done'],
               'transitions': [{'trigger': 'begin', 'source': 'setup', 'dest': 'run', 'after': 'spawn'},
                               ['finish', 'run', 'done']]}]
    m = cls(model=first, states=states, initial='idle', queued=queued, auto_transitions=False,
            transitions=[['submit', 'idle', 'job'], ['reset', 'job', 'idle'],
                         dict(trigger='ping', source='*', dest=None, before='count')], **flat.class_kwargs(cname))
    first.machine = m
    _run(first.submit())
    _run(first.begin())
    if len(first.spawned) != 2:
        return False, dict(cls=cname, queued=queued, spawned=len(first.spawned))
    a, b = first.spawned
    d = dict(cls=cname, queued=queued, models=len(m.models), states=[str(x.state) for x in m.models])
    ok = list(m.models) == [first, a, b] and (first.state, a.state, b.state) == ('job_run', 'idle', 'job_setup')
    for x in (a, b):
        for name in ('trigger', 'may_trigger', 'submit', 'may_submit', 'begin', 'finish', 'reset', 'ping', 'is_idle',
                     'is_job', 'to'):
            if not hasattr(x, name):
                ok = False
                d.setdefault('missing', []).append(name)
    if ok:
        ok = a.is_idle() and b.is_job(allow_substates=True) and not a.is_job(allow_substates=True)
    r = _run(m.dispatch('ping'))
    d['dispatch'] = [bool(r), [x.hits for x in (first, a, b)]]
    ok = ok and bool(r) and [x.hits for x in (first, a, b)] == [1, 1, 1]
    ok = ok and bool(_run(b.begin())) and (first.state, a.state, b.state) == ('job_run', 'idle', 'job_run')
    # (b.begin spawned two more models)
    ok = ok and len(m.models) == 5
    return ok, d


def extra_checks(tier, seed):
    gc.collect()
    gc.freeze()         # the driver holds all cases and observations: keep them out of the probes' collections
    try:
        return _extra_checks(tier, seed)
    finally:
        gc.unfreeze()


def _extra_checks(tier, seed):
    out = []
    detail = {}
    bad = None
    for cname in CLASSES:
        for queued in [False, True] + (['model'] if 'Async' in cname else []):
            for restore in (None, 'pickle', 'deepcopy'):
                if restore and queued == 'model':
                    continue        # see ASSUMPTIONS: copies of per-model-queue machines keep the old ids as keys
                try:
                    ok, d = _gc_probe(cname, queued, restore)
                except BaseException as ex:  # noqa
                    ok, d = False, dict(error='%s: %s' % (type(ex).__name__, ex))
                detail['%s/queued=%s/%s' % (cname, queued, restore or 'original')] = d
                if not ok and bad is None:
                    bad = dict(kind='oracle', check='gc_after_remove', cls=cname, queued=queued, machine=restore or 'original',
                               observed=d,
                               failing_clause='a removed model is not garbage-collectable (weakref alive after '
                                              'remove_model + gc.collect()) or the remaining model is disturbed'
                                              + (' — on a %s copy of the machine' % restore if restore else ''))
    n_probe = 60 if tier == 'quick' else 600
    fbad = None
    for j in range(n_probe):
        rng = random.Random('C10-feat-%d-%d' % (seed, j))
        cname = ['Machine', 'LockedMachine', 'HierarchicalMachine', 'GraphMachine'][j % 4]
        try:
            okf, d = _feature_probe(rng, cname)
        except BaseException as ex:  # noqa
            okf, d = False, dict(cls=cname, error='%s: %s' % (type(ex).__name__, ex))
        if not okf and fbad is None:
            fbad = dict(kind='oracle', check='features_interleaved_equals_solo', observed=d,
                        failing_clause='state features (Retry, Timeout): a model\'s outcome in an interleaved history '
                                       'differs from its solo run of the same calls (per-model bookkeeping leaked)')
    dbad, dn = None, 0
    for cname in CLASSES:
        for queued in [False, True] + (['model'] if 'Async' in cname else []):
            for variant in ('invalid', 'callback'):
                for raiser in (0, 1, 2):
                    dn += 1
                    try:
                        okd, d = _dispatch_raises_probe(cname, queued, variant, raiser)
                    except BaseException as ex:  # noqa
                        okd, d = False, dict(cls=cname, queued=queued, variant=variant, raiser=raiser,
                                             error='%s: %s' % (type(ex).__name__, ex))
                    if not okd and dbad is None:
                        dbad = dict(kind='oracle', check='dispatch_propagates_exceptions', observed=d,
                                    failing_clause='dispatch: the event raises for one model (invalid trigger / raising '
                                                   'callback) but dispatch does not raise it, or a model received the event '
                                                   'twice, or a model registered before the raising one did not receive it')
    nbad, nn = None, 0
    for cname in CLASSES:
        if 'Hierarchical' not in cname:
            continue
        for queued in [False, True] + (['model'] if 'Async' in cname else []):
            nn += 1
            try:
                okn, d = _nested_add_probe(cname, queued)
            except BaseException as ex:  # noqa
                okn, d = False, dict(cls=cname, queued=queued, error='%s: %s' % (type(ex).__name__, ex))
            if not okn and nbad is None:
                nbad = dict(kind='oracle', check='add_model_from_nested_callback', observed=d,
                            failing_clause='late_model: add_model from a callback of a transition declared inside a nested '
                                           'state failed or left the model half registered (state / helpers / dispatch)')
    out.append(('add_model_from_nested_callback', nbad is None, dict(configurations=nn, all_ok=nbad is None), nbad or {}))
    out.append(('dispatch_propagates_exceptions', dbad is None,
                dict(configurations=dn, classes=len(CLASSES), variants='invalid trigger, raising callback; raiser first/middle/last',
                     all_ok=dbad is None), dbad or {}))
    out.append(('features_interleaved_equals_solo', fbad is None,
                dict(probes=n_probe, features='add_state_features(Timeout, Retry)', models='2-3', all_equal=fbad is None),
                fbad or {}))
    out.append(('gc_after_remove', bad is None,
                dict(classes=len(CLASSES), configurations=len(detail), all_collected=bad is None,
                     machines='original, pickle.loads(pickle.dumps(..)), copy.deepcopy(..)',
                     sample=dict(list(detail.items())[:3])), bad or {}))
    return out
