"""C04 — crash containment (flat engine): every position of the non-failing trace of a generated
(configuration, history) is used as the single raising callback, with Exception and BaseException
subclasses, with and without on_exception handlers; the real classes are compared with the Coq engine
for which Props/C04.v proves the containment statement for every position."""
import copy
import random
import framework as F
import flat
from c01 import shrink_candidates, in_envelope as _wf  # noqa

PID = 'C04'
KIND = 0
IMPL = ('flat', 'impl_flat')
COUNTS = dict(quick=250, thorough=1500)        # base cases; each is expanded over crash positions
RULE = ('base cases = C01 generator (well-formed flat machines, non-raising env, histories of 1-6 calls). For each '
        'base case the Coq engine computes the non-failing trace; every position k of it (quick: up to 8 sampled '
        'positions; thorough: all) becomes a case whose callback at position k raises (alternating Exception / '
        'BaseException subclasses); classes Machine, LockedMachine, HierarchicalMachine, LockedHierarchicalMachine '
        '(sync classes on flat configurations). Non-trivial: the failing call has items after the raising one '
        '(handlers/finalize) or later calls exist (survivor continues); distinct by case hash.')
ASSUMPTIONS = ['exactly one callback raises per case (the quantifier of C04); nested triggers from callbacks are covered by C05',
               'async classes are checked by C07/C09 (gathered stages differ inside a stage)']
THEOREMS = ['C04_crash_point', 'C04_crash_while_handling', 'C04_crash_ignored_invalid', 'C04_hsm_crash_point', 'C04_hsm_crash_finalize', 'C04_hsm_survivor_good']
CLASSES = ['Machine', 'LockedMachine', 'HierarchicalMachine', 'LockedHierarchicalMachine']


def enc(case):
    return flat.enc_case(case)


def in_envelope(case):
    return _wf(case)


def gen_batch(seed, n, tier):
    bases = []
    for i in range(n):
        rng = random.Random('C04-%d-%d' % (seed, i))
        c = flat.gen_case(rng, malformed=False, hist_len=rng.randint(1, 6), p_unknown=0.0)
        bases.append(c)
    obs = F.run_model(KIND, [enc(c) for c in bases])
    out = []
    for i, (c, o) in enumerate(zip(bases, obs)):
        rng = random.Random('C04x-%d-%d' % (seed, i))
        items = [it for step in o[1] for it in step[0]]
        if not items:
            continue
        ks = list(range(len(items)))
        if tier == 'quick' and len(ks) > 8:
            ks = sorted(rng.sample(ks, 8))
        for k in ks:
            cc = copy.deepcopy(c)
            it = items[k]
            kind = 3 if (k + i) % 2 == 0 else 4
            cc['env']['bypos'][k] = (bool(it[6]), (kind, 7), [])
            cc['cls'] = CLASSES[(i + k) % len(CLASSES)]
            cc['crash'] = k
            out.append(cc)
    return out


def nontrivial(case, obs):
    if not isinstance(obs, list) or obs[0] != 1:
        return False
    k = case.get('crash', 0)
    n = 0
    for si, (items, res, st) in enumerate(obs[1]):
        if n <= k < n + len(items):
            return (k - n) < len(items) - 1 or si < len(obs[1]) - 1
        n += len(items)
    return False


def stats(case, obs, dist):
    if not isinstance(obs, list) or obs[0] != 1:
        return
    k = case.get('crash', 0)
    n = 0
    for items, res, st in obs[1]:
        if n <= k < n + len(items):
            slot = flat.SLOTS[items[k - n][0]]
            dist['crash_in_' + slot] = dist.get('crash_in_' + slot, 0) + 1
            key = 'propagated' if res[0] == 1 else 'handled_or_swallowed'
            dist[key] = dist.get(key, 0) + 1
        n += len(items)
    dist['cls_' + case['cls']] = dist.get('cls_' + case['cls'], 0) + 1


def extra_checks(tier, seed):
    """hierarchical configurations (nested and parallel states): every position of the non-failing trace of
    generated hierarchical cases as the single raising callback, on the synchronous hierarchical classes, compared
    with the Coq hierarchical engine (Hsm.v); the continuation of the history runs on the survivor."""
    import hsm
    n = 120 if tier == 'quick' else 700
    bases = []
    for i in range(n):
        rng = random.Random('C04h-%d-%d' % (seed, i))
        c = hsm.gen_case(rng, hist_len=rng.randint(1, 4), p_parallel=0.35, p_enum=0.15)
        c['history'] = [(0, e, a) for (k, e, a) in c['history'] if e < 50]
        bases.append(c)
    obs = F.run_model(3, [hsm.enc_case(c) for c in bases])
    cases = []
    for i, (c, o) in enumerate(zip(bases, obs)):
        rng = random.Random('C04hx-%d-%d' % (seed, i))
        items = [it for step in o[2] for it in step[0]]
        ks = list(range(len(items)))
        if tier == 'quick' and len(ks) > 6:
            ks = sorted(rng.sample(ks, 6))
        for k in ks:
            cc = copy.deepcopy(c)
            cc['env']['bypos'][k] = (bool(items[k][6]), flat.pick_exn(k + i), [])
            cc['cls'] = ['HierarchicalMachine', 'LockedHierarchicalMachine', 'HierarchicalGraphMachine'][(i + k) % 3]
            cc['crash'] = k
            cases.append(cc)
    mo, io = hsm.run_pairs(cases)
    bad = [(c, hsm.mask_handled(c, m), hsm.mask_handled(c, i)) for c, m, i in zip(cases, mo, io)
           if hsm.mask_handled(c, m) != hsm.mask_handled(c, i)]
    detail = dict(cases=len(cases), base_cases=len(bases), disagreements=len(bad),
                  slots_crashed=sorted({flat.SLOTS[it[0]] for c, o in zip(cases, mo) for st in o[2] for it in st[0][-1:]})[:15])
    out = []
    if bad:
        c, m, i = bad[0]
        out.append(('hierarchical_crash_points', False, detail,
                    dict(kind='counterexample', stream='hierarchical', case=c, model_obs=m, impl_obs=i,
                         note='hierarchical crash-point stream (Hsm.v vs the real hierarchical classes)')))
    else:
        out.append(('hierarchical_crash_points', True, detail, {}))
    out.append(async_hier_stream(tier, seed))
    out.append(survivor_stream(tier, seed))
    out.append(double_raise_stream(tier, seed))
    return out


def double_raise_stream(tier, seed):
    """"an exception raised by a finalize callback never replaces that outcome": a callback of the event raises at
    position k AND one of the machine's finalize_event callbacks raises whenever it runs - with and without
    on_exception handlers, on the flat synchronous and asyncio classes (callback lists trimmed to one entry), against
    the flat Coq engine under that environment (two raising callbacks: outside C04_crash_point's single_raise, so
    this stream is correspondence only)"""
    n = 150 if tier == 'quick' else 2500
    bases = []
    for i in range(n):
        rng = random.Random('C04d-%d-%d' % (seed, i))
        c = flat.trim_flat(flat.gen_case(rng, malformed=False, hist_len=rng.randint(1, 4), p_unknown=0.0))
        if not c['machine']['finalize']:
            c['machine']['finalize'] = [970]
        c['env'] = dict(default=c['env']['default'], bypos={}, bycb={k: (r[0], None, []) for k, r in c['env']['bycb'].items()})
        bases.append(c)
    obs = F.run_model(KIND, [enc(c) for c in bases])
    cases = []
    for i, (c, o) in enumerate(zip(bases, obs)):
        if not isinstance(o, list) or o[0] != 1:
            continue
        rng = random.Random('C04dx-%d-%d' % (seed, i))
        items = [it for step in o[1] for it in step[0]]
        ks = [k for k, it in enumerate(items) if flat.SLOTS[it[0]] != 'finalize']
        for k in (sorted(rng.sample(ks, 3)) if len(ks) > 3 else ks):
            cc = copy.deepcopy(c)
            cc['env']['bypos'][k] = (bool(items[k][6]), flat.pick_exn(k + i), [])
            fin = cc['machine']['finalize'][0]
            cc['env']['bycb'][fin] = (True, (3, 9) if (k + i) % 3 else (4, 9), [])
            if (k + i) % 2:
                cc['machine']['on_exception'] = []
            cc['cls'] = ['Machine', 'AsyncMachine', 'LockedMachine', 'AsyncGraphMachine'][(i + k) % 4]
            cases.append(cc)
    mo = F.run_model(KIND, [enc(c) for c in cases])
    sync = [j for j, c in enumerate(cases) if 'Async' not in c['cls']]
    asy = [j for j, c in enumerate(cases) if 'Async' in c['cls']]
    io = [None] * len(cases)
    for idx, fn in ((sync, 'impl_flat'), (asy, 'impl_flat_async')):
        for j, r in zip(idx, F.run_impl('flat', fn, [cases[j] for j in idx])):
            io[j] = r
    bad = [(c, m, i) for c, m, i in zip(cases, mo, io) if m != i]
    raised = sum(1 for m in mo if isinstance(m, list) and m[0] == 1 and any(st[1][0] == 1 for st in m[1]))
    detail = dict(cases=len(cases), on_asyncio_classes=len(asy), propagated_to_the_caller=raised, disagreements=len(bad))
    if bad:
        c, m, i = bad[0]
        return ('failing_callback_and_failing_finalize', False, detail,
                dict(kind='counterexample', stream='a callback raises and a finalize callback raises', case=c, model_obs=m, impl_obs=i))
    return ('failing_callback_and_failing_finalize', True, detail, {})


def async_hier_stream(tier, seed):
    """the same crash-point sweep on HierarchicalAsyncMachine / HierarchicalAsyncGraphMachine (callback lists
    trimmed to one entry so that asyncio.gather has nothing to interleave; coroutine callbacks that suspend)"""
    import hsm
    n = 80 if tier == 'quick' else 500
    bases = []
    for i in range(n):
        rng = random.Random('C04ha-%d-%d' % (seed, i))
        c = hsm.trim_lists(hsm.gen_case(rng, hist_len=rng.randint(2, 5), p_parallel=0.0, p_enum=0.15))
        c['history'] = [(0, e, a) for (k, e, a) in c['history'] if e < 50]
        c['env'] = dict(default=c['env']['default'], bypos={p: r for p, r in c['env']['bypos'].items() if r[1] is None},
                        bycb={k: r for k, r in c['env']['bycb'].items() if r[1] is None})
        bases.append(c)
    obs = F.run_model(3, [hsm.enc_case(c) for c in bases])
    cases = []
    for i, (c, o) in enumerate(zip(bases, obs)):
        rng = random.Random('C04hax-%d-%d' % (seed, i))
        items = [it for step in o[2] for it in step[0]]
        ks = list(range(len(items)))
        if tier == 'quick' and len(ks) > 5:
            ks = sorted(rng.sample(ks, 5))
        for k in ks:
            cc = copy.deepcopy(c)
            cc['env']['bypos'][k] = (bool(items[k][6]), flat.pick_exn(k + i), [])
            cc['cls'] = ['HierarchicalAsyncMachine', 'HierarchicalAsyncGraphMachine'][(i + k) % 2]
            cc['crash'] = k
            cases.append(cc)
    mo = F.run_model(3, [hsm.enc_case(c) for c in cases])
    io = F.run_impl('hsm', 'impl_hsm_async', cases)
    bad = [(c, hsm.mask_handled(c, m), hsm.mask_handled(c, i)) for c, m, i in zip(cases, mo, io)
           if hsm.mask_handled(c, m) != hsm.mask_handled(c, i)]
    detail = dict(cases=len(cases), base_cases=len(bases), disagreements=len(bad))
    if bad:
        c, m, i = bad[0]
        return ('hierarchical_async_crash_points', False, detail,
                dict(kind='counterexample', stream='hierarchical-async', case=c, model_obs=m, impl_obs=i,
                     note='crash-point stream on the asyncio hierarchical classes (Hsm.v vs HierarchicalAsyncMachine)'))
    return ('hierarchical_async_crash_points', True, detail, {})


ALL_CLASSES = flat.SYNC_CLASSES + flat.ASYNC_CLASSES


def survivor_stream(tier, seed):
    """'afterwards the machine is fully usable in every variant': on all 12 classes and every queue mode, after one
    callback raised (Exception/BaseException, with/without handlers) the survivor must react to the rest of the
    history exactly like a fresh machine of the same class placed in the survivor's state (implementation vs
    implementation; nothing left in the queue)."""
    n = 720 if tier == 'quick' else 12000
    cases = []
    for i in range(n):
        rng = random.Random('C04s-%d-%d' % (seed, i))
        c = flat.gen_case(rng, malformed=False, hist_len=rng.randint(3, 7), p_unknown=0.0)
        c['env'] = dict(default=c['env']['default'], bypos={}, bycb={k: (r[0], None, []) for k, r in c['env']['bycb'].items()})
        c['history'] = [(0, e, a) for (k, e, a) in c['history']]
        cls = ALL_CLASSES[i % len(ALL_CLASSES)]
        c['cls'] = cls
        c['queued'] = rng.choice([False, True, 'model', True, 'model'] if 'Async' in cls else [False, True])
        ncb = max([1] + [cb for _, ts in c['machine']['events'] for t in ts for cb in t['prepare'] + t['before'] + t['after'] + [x for x, _ in t['conds']]])
        c['crash_cb'] = rng.randint(1, max(1, ncb + 6))
        c['crash_exn'] = [(3, 20), (3, 1), (4, 1), (3, 21), (3, 25), (4, 5), (3, 22), (3, 26)][(i // len(ALL_CLASSES)) % 8]   # KeyError, ... per class in turn
        c['split'] = rng.randint(1, len(c['history']) - 1)
        cases.append(c)
    obs = F.run_impl('flat', 'impl_survivor', cases)
    crashed = 0
    for c, o in zip(cases, obs):
        if 'harness_error' in o:
            return ('survivor_vs_fresh', False, dict(cases=len(cases)),
                    dict(kind='harness', correspondence='survivor_vs_fresh', case=c, error=o))
        if any(st[1][0] == 1 or any(it[0] == 12 for it in st[0]) for st in o['pre']):
            crashed += 1
        if o['survivor'] != o['fresh'] or any(x != 0 for x in o['leftovers']):
            return ('survivor_vs_fresh', False, dict(cases=len(cases), crashed=crashed),
                    dict(kind='oracle', stream='survivor vs fresh machine', case=c, impl_obs=o,
                         failing_clause='after a failing callback the %s (queued=%r) does not behave like a fresh machine placed in that state, or its queue is not empty' % (c['cls'], c['queued'])))
    return ('survivor_vs_fresh', True, dict(cases=len(cases), cases_in_which_a_callback_raised=crashed, classes=len(ALL_CLASSES)), {})
