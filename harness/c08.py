"""C08 — async concurrency: queue modes serialize, cancellation hits only its targets.

Real AsyncMachine / HierarchicalAsyncMachine (flat configurations) from /repo, 2-4 concurrently awaited
triggers whose callbacks suspend on futures owned by this harness; the harness starts the trigger tasks and
releases the futures one at a time in the order given by the case's schedule, letting the asyncio loop run
until nothing moves between two releases.  The same case (programs + schedule) is run by the Coq model
AsyncConc.v (extracted) and the per-step observations are compared."""
import asyncio
import copy
import itertools
import random
import flat

PID = 'C08'
KIND = 12
IMPL = ('c08', 'impl_conc')
COUNTS = dict(quick=1500, thorough=30000)

# slots of the recorded callbacks
PREP, COND, BEFORE, AFTER, FIN, EXIT, ENTER = 0, 1, 2, 3, 4, 5, 6
# actions of a callback after it has been resumed
A_NONE, A_RAISE, A_TRIG, A_REMOVE = 0, 1, 2, 3
# exception codes shared with the model
X_USER, X_MACHINE, X_KEY, X_VALUE, X_CANCEL, X_OTHER = 1, 2, 3, 4, 5, 9


class UserExc(Exception):
    pass


def exc_code(ex):
    tr = flat._import_transitions()
    if isinstance(ex, UserExc):
        return X_USER
    if isinstance(ex, tr.MachineError):
        return X_MACHINE
    if isinstance(ex, KeyError):
        return X_KEY
    if isinstance(ex, ValueError):
        return X_VALUE
    if isinstance(ex, asyncio.CancelledError):
        return X_CANCEL
    return X_OTHER


def res_code(r):
    """result of a trigger call: [0, bool] | [2] (None)"""
    if r is True:
        return [0, 1]
    if r is False:
        return [0, 0]
    return [2, 0]


class Model(object):
    pass


class Harness(object):
    def __init__(self, case):
        self.case = case
        self.log = []
        self.pending = {}          # event id -> future its current callback waits for
        self.cancelled = []        # events whose pending future was cancelled during this step
        self.tasks = {}            # top-level event id -> asyncio task
        self.done_seen = set()
        self.moves = 0

    def state_int(self, m):
        s = self.models[m].state
        if isinstance(s, str) and s.startswith('s') and s[1:].isdigit():
            return int(s[1:])
        return 99

    # ---- a recording callback: log Start, suspend on a harness future, act, log End
    def make_cb(self, ev, j, slot, act, ret=True):
        h = self
        m = self.case['events'][ev]['model']

        async def cb(*args, **kwargs):
            h.moves += 1
            h.log.append([0, ev, j, slot, h.state_int(m)])
            fut = asyncio.get_running_loop().create_future()
            h.pending[ev] = fut
            try:
                await fut
            except asyncio.CancelledError:
                h.cancelled.append(ev)
                raise
            finally:
                if h.pending.get(ev) is fut:
                    del h.pending[ev]
            h.moves += 1
            if act[0] == A_RAISE:
                h.log.append([2, ev, j, slot, X_USER])
                raise UserExc()
            if act[0] == A_TRIG:
                ev2 = act[1]
                m2 = h.case['events'][ev2]['model']
                try:
                    r = await getattr(h.models[m2], 'e%d' % ev2)()
                except BaseException as ex:
                    h.moves += 1
                    h.log.append([3, ev2, 1, exc_code(ex)])
                    raise
                h.moves += 1
                h.log.append([3, ev2] + res_code(r))
            if act[0] == A_REMOVE:
                try:
                    h.machine.remove_model(h.models[act[1]])
                except BaseException as ex:
                    h.log.append([2, ev, j, slot, exc_code(ex)])
                    raise
            h.log.append([1, ev, j, slot, h.state_int(m)])
            return ret
        return cb

    def build(self):
        tr = flat._import_transitions()
        from transitions.extensions.asyncio import AsyncMachine, HierarchicalAsyncMachine
        case = self.case
        cls = [AsyncMachine, HierarchicalAsyncMachine][case['cls']]
        self.base = AsyncMachine
        queued = [False, True, 'model'][case['queued']]
        self.models = [Model() for _ in case['models']]
        fins = {}
        h = self

        async def fin_rec(event_data):
            name = event_data.event.name if event_data.event is not None else ''
            if name.startswith('e') and name[1:].isdigit() and int(name[1:]) in fins:
                await fins[int(name[1:])]()

        # registration: 0 = models handed to the constructor (added one at a time), 1 = machine built without a
        # model, then ONE add_model([m0, m1, ...]) call for all of them
        one_call = bool(case.get('reg', 0))
        states = ['s%d' % s for s in range(case['nstates'])]
        self.tmo_started = set()
        tmo = case.get('tmo')
        if tmo:
            # AsyncTimeout state whose on_timeout callback awaits a trigger on the model: a root call chain started by
            # the timer (virtual time: the loop's clock only moves when the schedule says so)
            from transitions.extensions.asyncio import AsyncTimeout
            from transitions.extensions.states import add_state_features
            cls = add_state_features(AsyncTimeout)(type('T' + cls.__name__, (cls,), {}))
            m_t, s_t, x = tmo

            async def on_tmo(event_data):
                if event_data.model is not h.models[m_t] or x in h.tmo_started:
                    return
                h.tmo_started.add(x)
                h.moves += 1
                h.current[id(asyncio.current_task())] = x
                try:
                    res = res_code(await getattr(h.models[m_t], 'e%d' % x)())
                except BaseException as ex:  # noqa
                    res = [1, exc_code(ex)]
                h.results[x] = [x] + res
                h.moves += 1
            states[s_t] = dict(name='s%d' % s_t, timeout=100, on_timeout=[on_tmo])
        sxmap = {EXIT: {}, ENTER: {}}
        if any(c.get('exit') is not None or c.get('enter') is not None for e in case['events'] for c in e['cands']):
            def state_rec(slot):
                async def rec(event_data):
                    cb = sxmap[slot].get(id(event_data.transition))
                    if cb is not None:
                        await cb()
                return rec
            states = [dict(name=n, on_exit=[state_rec(EXIT)], on_enter=[state_rec(ENTER)]) for n in states]
        self.current = {}
        self.results = {}
        self.machine = cls(model=None if one_call else self.models,
                           states=states,
                           initial='s0', queued=queued, send_event=True, auto_transitions=False,
                           finalize_event=[fin_rec] if any(e['fin'] is not None for e in case['events']) else [])
        if one_call:
            self.machine.add_model(list(self.models))
        for mod, s0 in zip(self.models, case['models']):
            self.machine.set_state('s%d' % s0, mod)
        for ev, e in enumerate(case['events']):
            if e['fin'] is not None:
                fins[ev] = self.make_cb(ev, 0, FIN, e['fin'])
            for j, c in enumerate(e['cands']):
                kw = {}
                if c['prep'] is not None:
                    kw['prepare'] = [self.make_cb(ev, j, PREP, c['prep'])]
                if c['cond'] is not None:
                    kw['conditions'] = [self.make_cb(ev, j, COND, c['cond'][0], bool(c['cond'][1]))]
                if c['before'] is not None:
                    kw['before'] = [self.make_cb(ev, j, BEFORE, c['before'])]
                if c['after'] is not None:
                    kw['after'] = [self.make_cb(ev, j, AFTER, c['after'])]
                dest = None if c['dest'] is None else 's%d' % c['dest']
                self.machine.add_transition('e%d' % ev, ['s%d' % s for s in e['srcs']], dest, **kw)
                if dest is not None and (c.get('exit') is not None or c.get('enter') is not None):
                    cbs = {EXIT: None if c.get('exit') is None else self.make_cb(ev, j, EXIT, c['exit']),
                           ENTER: None if c.get('enter') is None else self.make_cb(ev, j, ENTER, c['enter'])}
                    for src in e['srcs']:
                        tobj = self.machine.events['e%d' % ev].transitions['s%d' % src][-1]
                        for slot in (EXIT, ENTER):
                            if cbs[slot] is not None:
                                sxmap[slot][id(tobj)] = cbs[slot]

    async def quiesce(self):
        """let the loop run until nothing has moved for a while"""
        idle = 0
        last = -1
        n = 0
        while idle < 12 and n < 2000:
            await asyncio.sleep(0)
            n += 1
            sig = (self.moves, len(self.log), len(self.cancelled), len(getattr(self, 'results', {})))
            if sig == last:
                idle += 1
            else:
                idle = 0
                last = sig

    def snapshot(self):
        reg = []
        for m, mod in enumerate(self.models):
            ts = self.base.async_tasks.get(id(mod), None)
            if ts is not None:
                reg.append([m, [self.current.get(id(t), 98) for t in ts]])
        known = {id(mod) for mod in self.models}
        stray = sum(1 for k in self.base.async_tasks if k not in known)
        return reg, stray

    async def script(self, chain):
        """one asyncio task awaiting the triggers of `chain` one after another (an exception of a trigger is caught
        by the caller, as a user would); each later trigger waits for its start step"""
        me = asyncio.current_task()
        for idx, ev in enumerate(chain):
            if idx > 0:
                await self.gates[ev]
            self.current[id(me)] = ev
            prot = self.machine.protected_tasks
            if ev in self.case['protected'] and me not in prot:
                prot.append(me)
            if ev not in self.case['protected'] and me in prot:
                prot.remove(me)
            m = self.case['events'][ev]['model']
            try:
                res = res_code(await getattr(self.models[m], 'e%d' % ev)())
            except BaseException as ex:  # noqa
                res = [1, exc_code(ex)]
            self.results[ev] = [ev] + res
            self.moves += 1

    async def run(self):
        case = self.case
        self.build()
        self.base.async_tasks.clear()
        del self.base.protected_tasks[:]
        top = set(case['top'])
        pred = {e: p for e, p in case.get('pred', [])}
        succ = {p: e for e, p in case.get('pred', [])}
        loop = asyncio.get_running_loop()
        self.gates = {e: loop.create_future() for e in pred}
        tmo_ev = case['tmo'][2] if case.get('tmo') else None
        reported = set()
        started = set()
        steps = []
        try:
            for ev in case['schedule']:
                self.log = []
                self.cancelled = []
                kind = 0
                if ev == tmo_ev and ev not in self.tmo_started:
                    loop._vt += 1000.0                        # time passes: an armed timer fires now
                    await self.quiesce()
                    if ev in self.tmo_started:
                        started.add(ev)
                        kind = 1
                elif ev in top and ev not in started and (ev not in pred or pred[ev] in self.results):
                    started.add(ev)
                    kind = 1
                    if ev in pred:
                        self.gates[ev].set_result(None)      # the task that awaited pred[ev] goes on with ev
                    else:
                        chain = [ev]
                        while chain[-1] in succ and len(chain) < 50:
                            chain.append(succ[chain[-1]])
                        self.tasks[ev] = asyncio.ensure_future(self.script(chain))
                    await self.quiesce()
                elif ev in self.pending and not self.pending[ev].done():
                    kind = 2
                    self.pending[ev].set_result(None)
                    await self.quiesce()
                done = [self.results[e2] for e2 in sorted(self.results) if e2 not in reported]
                reported.update(self.results)
                reg, stray = self.snapshot()
                steps.append([kind, self.log, sorted(self.cancelled), done,
                              [self.state_int(m) for m in range(len(self.models))], reg, stray,
                              sorted(k for k, f in self.pending.items() if not f.done())])
            unfinished = sorted(e2 for e2 in started if e2 not in self.results)
        finally:
            for f in list(self.gates.values()) + list(self.pending.values()):
                if not f.done():
                    f.cancel()
            me = asyncio.current_task()
            for _ in range(3):
                for t in asyncio.all_tasks():
                    if t is not me and not t.done():
                        t.cancel()
                for _ in range(6):
                    await asyncio.sleep(0)
            self.base.async_tasks.clear()
            del self.base.protected_tasks[:]
        return [1, steps, unfinished]


class VLoop(asyncio.SelectorEventLoop):
    """event loop with a virtual clock (timers fire only when the harness advances it)"""
    _vt = 0.0

    def time(self):
        return self._vt


def impl_conc(case):
    h = Harness(case)
    loop = VLoop()
    try:
        loop.set_exception_handler(lambda l, ctx: None)
        return loop.run_until_complete(h.run())
    finally:
        loop.close()


# ------------------------------------------------------------------ encoding
def enc_act(a):
    return list(a)


def enc(case):
    evs = []
    for e in case['events']:
        cands = [[opt_(c['prep'], enc_act), opt_(c['cond'], lambda x: [enc_act(x[0]), bool(x[1])]),
                  opt_(c['before'], enc_act), opt_(c['dest']), opt_(c['after'], enc_act),
                  opt_(c.get('exit') if c['dest'] is not None else None, enc_act),
                  opt_(c.get('enter') if c['dest'] is not None else None, enc_act)] for c in e['cands']]
        evs.append([e['model'], list(e['srcs']), cands, opt_(e['fin'], enc_act)])
    tmo = case.get('tmo')
    return [case['cls'], case['queued'], case['nstates'], list(case['models']), evs,
            list(case['top']) + ([tmo[2]] if tmo else []),
            list(case['protected']), list(case['schedule']), [[e, p] for e, p in case.get('pred', [])],
            [[tmo[0], [tmo[1], tmo[2]]]] if tmo else []]


def opt_(x, f=lambda y: y):
    return [] if x is None else [f(x)]


def roots(case):
    """event -> the top-level event whose task runs it when nothing is queued (its own call chain)"""
    parent = {}
    for p, e in enumerate(case['events']):
        for h, k in all_cbs(e):
            a = get_act(h, k)
            if a[0] == A_TRIG:
                parent.setdefault(a[1], p)
    out = {}
    for e in range(len(case['events'])):
        r, n = e, 0
        while r in parent and r not in case['top'] and n < 50:
            r, n = parent[r], n + 1
        out[e] = r
    return out


def canon(case, obs):
    """Within one schedule step the released task runs first, then the tasks it cancelled; the relative order in
    which asyncio resumes SEVERAL cancelled tasks is not part of the property: without a queue the items of a
    step are grouped by task (released task first, then by task id; the order inside a task is kept), and the
    cancelled / finished / pending lists of a step are compared as sets."""
    if isinstance(obs, dict) or not isinstance(obs, list) or obs[0] != 1:
        return obs
    root = roots(case)
    steps = []
    for ev, s in zip(case['schedule'], obs[1]):
        kind, items, canc, done, states, reg, stray, pend = s
        if case['queued'] == 0:
            me = root.get(ev, ev)
            items = sorted(items, key=lambda it: (0 if root.get(it[1], it[1]) == me else 1, root.get(it[1], it[1])))
        steps.append([kind, items, sorted(canc), sorted(done), states, reg, stray, sorted(pend)])
    return [1, steps, sorted(obs[2])]


# ------------------------------------------------------------------ generation
def all_cbs(e):
    """(holder dict, key) of every callback slot of event definition e"""
    out = []
    for c in e['cands']:
        for k in ('prep', 'cond', 'before', 'exit', 'enter', 'after'):
            if c.get(k) is not None:
                out.append((c, k))
    if e['fin'] is not None:
        out.append((e, 'fin'))
    return out


def get_act(holder, key):
    return holder[key][0] if key == 'cond' else holder[key]


def set_act(holder, key, a):
    if key == 'cond':
        holder[key] = [a, holder[key][1]]
    else:
        holder[key] = a


def gen_event(rng, nstates, nmodels, model=None, fin=True, sx=False):
    m = rng.randrange(nmodels) if model is None else model
    if rng.random() < 0.7:
        srcs = list(range(nstates))
    else:
        srcs = sorted(rng.sample(range(nstates), rng.randint(1, nstates)))
    cands = []
    for _ in range(rng.choice([1, 1, 1, 2])):
        cands.append(dict(prep=[A_NONE] if rng.random() < 0.3 else None,
                          cond=[[A_NONE], rng.random() < 0.7] if rng.random() < 0.4 else None,
                          before=[A_NONE] if rng.random() < 0.5 else None,
                          dest=None if rng.random() < 0.1 else rng.randrange(nstates),
                          after=[A_NONE] if rng.random() < 0.4 else None))
    for c in cands:
        # coroutine on_exit / on_enter callbacks: state callbacks are per state, so either every state-changing
        # transition of the case has both (suspending) or the states have none
        c['exit'] = [A_NONE] if sx and c['dest'] is not None else None
        c['enter'] = [A_NONE] if sx and c['dest'] is not None else None
    return dict(model=m, srcs=srcs, cands=cands, fin=[A_NONE] if fin else None)


def gen(rng, i, tier):
    nstates = rng.randint(2, 3)
    nmodels = rng.choice([1, 2, 2, 3])
    queued = rng.choice([0, 0, 0, 1, 2, 2])
    ntop = rng.randint(2, 4)
    same = rng.random() < 0.45          # all top-level triggers on one model
    m0 = rng.randrange(nmodels)
    # finalize_event is a machine-level list: either every event has a (suspending) finalize callback or the
    # list is empty -- a callback that returns without suspending would still take loop iterations (gather)
    fin = rng.random() < 0.55
    sx = i % 4 == 1
    events = [gen_event(rng, nstates, nmodels, m0 if same else None, fin, sx) for _ in range(ntop)]
    for e in events:
        if not all_cbs(e):
            e['cands'][0]['before'] = [A_NONE]
    # triggers awaited from callbacks: event k (k >= ntop) is awaited by one callback of an earlier event
    nnest = rng.choice([0, 0, 1, 1, 2])
    for _ in range(nnest):
        parent = rng.randrange(len(events))
        slots = [(h, k) for h, k in all_cbs(events[parent]) if get_act(h, k)[0] == A_NONE]
        if not slots:
            continue
        h, k = rng.choice(slots)
        events.append(gen_event(rng, nstates, nmodels, None, fin, sx))
        set_act(h, k, [A_TRIG, len(events) - 1])
    # raising callbacks, remove_model
    for e in events:
        for h, k in all_cbs(e):
            if get_act(h, k)[0] != A_NONE:
                continue
            x = rng.random()
            if x < 0.07:
                set_act(h, k, [A_RAISE])
            elif x < 0.11:
                set_act(h, k, [A_REMOVE, rng.randrange(nmodels)])
    top = list(range(ntop))
    protected = [e for e in top if rng.random() < 0.12]
    # triggers awaited one after another in the SAME asyncio task: [e, p] = e is awaited by the task that awaited p
    # before (p's exception, if any, caught); mostly p fails: a raising callback or an event invalid in every state
    pred = []
    if rng.random() < 0.4:
        chain = sorted(rng.sample(top, 3 if (ntop >= 3 and rng.random() < 0.3) else 2))
        for a, b in zip(chain, chain[1:]):
            pred.append([b, a])
            x = rng.random()
            slots = [(h, k) for h, k in all_cbs(events[a]) if get_act(h, k)[0] == A_NONE]
            if x < 0.5 and slots:
                set_act(*rng.choice(slots), [A_RAISE])
            elif x < 0.7:
                events[a]['srcs'] = []
    # every 4th case: state s_t is an AsyncTimeout state; the on_timeout callback awaits the trigger of a further
    # (slow) event x on model m_t -- a root call chain started by the timer.  So that "the timer of m_t is armed iff
    # the last set_state of m_t entered s_t" holds for flat and hierarchical machines alike, every set_state of m_t
    # is made by a task that read the current state: all events of m_t are top-level and unprotected, and a
    # transition into s_t has no `before` callback (conditions passed + set_state without a suspension between)
    tmo = None
    if i % 4 == 3:
        m_t, s_t = rng.randrange(nmodels), rng.randrange(nstates)
        protected = []
        for k2 in range(ntop, len(events)):
            if events[k2]['model'] == m_t:
                if nmodels > 1:
                    events[k2]['model'] = (m_t + 1) % nmodels
                else:
                    for e in events:
                        for h, k in all_cbs(e):
                            if get_act(h, k) == [A_TRIG, k2]:
                                set_act(h, k, [A_NONE])
        arm = events[0]
        arm['model'], arm['srcs'] = m_t, list(range(nstates))
        arm['cands'] = arm['cands'][:1]
        arm['cands'][0]['cond'] = None if arm['cands'][0]['cond'] is None else [arm['cands'][0]['cond'][0], True]
        arm['cands'][0]['dest'] = s_t
        events.append(gen_event(rng, nstates, nmodels, m_t, fin))
        xe = events[-1]
        xe['srcs'] = list(range(nstates))
        if xe['cands'][0]['prep'] is None and xe['cands'][0]['before'] is None:
            xe['cands'][0]['prep'] = [A_NONE]
        for e in events:
            if e['model'] == m_t:
                for c in e['cands']:
                    if c['dest'] == s_t:
                        c['before'] = None
        tmo = [m_t, s_t, len(events) - 1]
    ncb = sum(len(all_cbs(e)) for e in events)
    nev = len(events)
    sched = []
    # random interleaving: start everything early (concurrently awaited), then release in any order
    if rng.random() < 0.6:
        first = top[:]
        rng.shuffle(first)
        sched += first
    for _ in range(rng.randint(nev, 3 * nev + ncb)):
        sched.append(rng.randrange(nev))
    for _ in range(ncb + 2):
        sched += list(range(nev))
    return dict(cls=i % 2, queued=queued, nstates=nstates, models=[rng.randrange(nstates) for _ in range(nmodels)],
                events=events, top=top, protected=protected, schedule=sched, reg=(i // 2) % 2, pred=pred, tmo=tmo)


def in_envelope(case):
    nev = len(case['events'])
    pr = case.get('pred', [])
    if any(e not in case['top'] or p not in case['top'] or not p < e for e, p in pr):
        return False
    if len({e for e, _ in pr}) != len(pr) or len({p for _, p in pr}) != len(pr):
        return False
    if len({e['fin'] is None for e in case['events']}) > 1:
        return False
    tmo = case.get('tmo')
    cands = [c for e in case['events'] for c in e['cands'] if c['dest'] is not None]
    if any(c.get('exit') is not None or c.get('enter') is not None for c in cands):
        if tmo or any(c.get('exit') is None or c.get('enter') is None for c in cands):
            return False
    if tmo:
        m_t, s_t, x = tmo
        if case['protected'] or x in case['top'] or not (0 <= x < nev) or case['events'][x]['model'] != m_t:
            return False
        if not (0 <= m_t < len(case['models']) and 0 <= s_t < case['nstates']):
            return False
        for e in case['events']:
            for h, k in all_cbs(e):
                a = get_act(h, k)
                if a[0] == A_TRIG and (a[1] == x or case['events'][a[1]]['model'] == m_t):
                    return False
            if e['model'] == m_t and any(c['dest'] == s_t and c['before'] is not None for c in e['cands']):
                return False
    refs = []
    for e in case['events']:
        if not (0 <= e['model'] < len(case['models'])):
            return False
        for c in e['cands']:
            if c['dest'] is not None and not (0 <= c['dest'] < case['nstates']):
                return False
        for h, k in all_cbs(e):
            a = get_act(h, k)
            if a[0] == A_TRIG:
                refs.append(a[1])
            if a[0] == A_REMOVE and not (0 <= a[1] < len(case['models'])):
                return False
    if len(set(refs)) != len(refs) or any(r in case['top'] or not (0 <= r < nev) for r in refs):
        return False
    return all(0 <= e < nev for e in case['schedule'])


# ------------------------------------------------------------------ metadata
RULE = ('cases = 2-4 concurrently awaited triggers (ensure_future) on 1-3 models of an AsyncMachine / '
        'HierarchicalAsyncMachine (flat configurations, alternating; models handed to the constructor or registered by ONE '
        'add_model([...]) call after construction, alternating), queued False/True/"model", 2-3 states, every event '
        'with 1-2 transition candidates whose prepare / condition / before / after callbacks and the finalize callback '
        '(in every 4th case also coroutine on_exit / on_enter callbacks of every state-changing transition) '
        'each suspend on a future owned by the harness; 0-2 further events are awaited from inside callbacks (own call '
        'chain), in 40% of the cases two or three of the top-level triggers are awaited one after another in the SAME '
        'asyncio task (the earlier one mostly failing: raising callback / event valid in no state; exception caught by '
        'the caller), in every 4th case one state is an AsyncTimeout state whose on_timeout callback awaits the trigger of a '
        'further slow event (fired under a virtual clock when the schedule names that event), callbacks may raise or call '
        'remove_model, tasks may be listed in protected_tasks, sources may exclude '
        'the current state (MachineError). The schedule (random prefix + round-robin tail that drains everything) says '
        'which trigger task is started / which pending future is released next; after every step the loop runs until '
        'nothing moves. Observed per step: callback Start/End/raise items with the model state seen, results of '
        'triggers awaited from callbacks, futures that received CancelledError, finished tasks with result / exception '
        'type, all model states, AsyncMachine.async_tasks per model, pending futures. Non-trivial: a step in which a '
        'task was cancelled, or (queued) at least two events processed, or a task ending with an exception.')
ASSUMPTIONS = [
    'PARTIAL: asyncio (task switching, gather, shield, delivery of CancelledError at the suspension point, FIFO ready '
    'queue) is assumed, not modelled; the model covers async_tasks / protected_tasks / current_context / the queue '
    'dictionary / model states on top of it',
    'every user callback suspends exactly once on a harness future and at most one callback is registered per callback '
    'list (a gather of several suspended callbacks is not explored); finalize_event is either empty or every event has a '
    'suspending finalize callback',
    'within one schedule step the order in which asyncio resumes SEVERAL cancelled tasks is not compared (items are '
    'grouped per task); on_exception handlers, timeouts and machines sharing a model are not explored',
    'each event name is triggered at most once per case (top-level or from one callback)',
    'a raising on_timeout handler (with / without an on_exception handler) while an event of the model is in flight is '
    'checked by 24 hand-written scenarios against the expected outcome (extra check timeout_handler_error), not through '
    'the Coq model (on_exception handlers are outside the model)',
    'AsyncTimeout cases: timers themselves (arming on enter, cancelling on exit, asyncio.sleep, shield) are asyncio / C17 '
    'territory; the harness keeps every set_state of the timeout model in a task that read the current state (events of '
    'that model top-level and unprotected, no suspension between "conditions passed" and entering the timeout state) so '
    'that "armed iff the last set_state entered the timeout state" holds, and the timer fires at most once per case',
]
THEOREMS = ['C08_cancel_exact', 'C08_cancel_step', 'C08_frame_discipline', 'C08_cancelled_behaviour',
            'C08_finalize_only', 'C08_cancelled_result', 'C08_no_overwrite', 'C08_quiescent', 'C08_queued_deferred',
            'C08_queued_idle', 'C08_queued_serial', 'C08_queued_last', 'C08_model_serial', 'C08_global_scan',
            'C08_global_serial_fifo', 'C08_model_serial_fifo', 'C08_items_inside_body', 'C08_busy_defers',
            'C08_context_finally', 'C08_context_reset',
            'C08_example', 'C08_example_queued', 'C08_example_model', 'C08_example_same_task',
            'C08_example_timeout']


def _steps(obs):
    if not isinstance(obs, list) or not obs or obs[0] != 1:
        return None
    return obs[1]


def nontrivial(case, obs):
    st = _steps(obs)
    if st is None:
        return False
    if any(s[2] for s in st):
        return True
    if any(d[1] == 1 for s in st for d in s[3]):
        return True
    if case['queued']:
        evs = {it[1] for s in st for it in s[1] if it[0] in (0, 1, 2)}
        return len(evs) >= 2
    return False


def stats(case, obs, dist):
    st = _steps(obs)

    def inc(k, n=1):
        dist[k] = dist.get(k, 0) + n
    inc('queued_%s' % ['False', 'True', 'model'][case['queued']])
    inc('cls_%s' % ['AsyncMachine', 'HierarchicalAsyncMachine'][case['cls']])
    inc('models_registered_by_%s' % ('one_add_model_call' if case.get('reg', 0) else 'constructor'))
    inc('top_triggers_%d' % len(case['top']))
    if case.get('pred'):
        inc('cases_with_triggers_awaited_in_one_task')
    if case.get('tmo'):
        inc('cases_with_timeout_state')
    if any(c.get('exit') is not None for e in case['events'] for c in e['cands']):
        inc('cases_with_coroutine_on_exit_on_enter')
    inc('nested_triggers', len(case['events']) - len(case['top']))
    if st is None:
        inc('undecodable')
        return
    seen_c = set()
    pending_slot = {}
    for s in st:
        inc('steps_start' if s[0] == 1 else 'steps_release' if s[0] == 2 else 'steps_noop')
        for it in s[1]:
            if it[0] == 0:
                pending_slot[it[1]] = it[3]
        if s[2]:
            inc('steps_with_cancellation')
            inc('futures_cancelled', len(s[2]))
            for c in s[2]:
                if c in seen_c:
                    inc('event_cancelled_again')
                seen_c.add(c)
                if pending_slot.get(c) == FIN:
                    inc('cancelled_inside_finalize')
                if pending_slot.get(c) in (EXIT, ENTER):
                    inc('cancelled_inside_on_exit_or_on_enter')
        if case.get('tmo') and s[0] == 1 and any(case['tmo'][2] in r[1] for r in s[5]):
            inc('timeout_triggered_event_registered_in_async_tasks')
        if case.get('tmo') and case['tmo'][2] in s[2]:
            inc('timeout_triggered_event_cancelled')
        for d in s[3]:
            if d[1] == 1 and any(p == d[0] for _, p in case.get('pred', [])):
                inc('failed_trigger_followed_by_another_in_the_same_task')
            inc('task_result_%s' % ('true' if d[1:] == [0, 1] else 'false' if d[1:] == [0, 0] else
                                    'exc_%d' % d[2] if d[1] == 1 else 'none'))
        for it in s[1]:
            if it[0] == 2:
                inc('callback_raised_%d' % it[4])
            if it[0] == 3:
                inc('nested_trigger_returned')
    if obs[2]:
        inc('cases_not_quiescent_at_end')


def oracle(case, obs):
    """the property's clauses evaluated on the implementation's observation alone"""
    st = _steps(obs)
    if st is None:
        return None
    root = roots(case)
    evs = case['events']
    # quiescence: registered states, empty async_tasks
    for s in st:
        if any(x >= case['nstates'] for x in s[4]):
            return 'quiescent: model state is not a registered state'
        if s[6]:
            return 'quiescent: async_tasks holds an entry for an unknown key'
    if not obs[2] and st and st[-1][5]:
        return 'quiescent: async_tasks not empty although every trigger task has finished'
    # queue modes: event blocks do not overlap (globally / per model), top-level events begin in arrival order
    if case['queued']:
        items = [it for s in st for it in s[1] if it[0] in (0, 1, 2)]
        keys = {0} if case['queued'] == 1 else {evs[it[1]]['model'] for it in items}
        for k in keys:
            seq = [it[1] for it in items if case['queued'] == 1 or evs[it[1]]['model'] == k]
            closed, cur = set(), None
            for e in seq:
                if e != cur:
                    if e in closed:
                        return 'queued: processing of events overlaps (event %d resumed after another began)' % e
                    if cur is not None:
                        closed.add(cur)
                    cur = e
        started = [ev for ev, s in zip(case['schedule'], st) if s[0] == 1]
        for k in keys:
            firsts = []
            for it in items:
                if it[1] in case['top'] and it[1] not in firsts and (case['queued'] == 1 or evs[it[1]]['model'] == k):
                    firsts.append(it[1])
            order = [e for e in started if e in firsts]
            if order != firsts:
                return 'queued: events are not processed in arrival order'
    # nothing of an event runs after its (unqueued, top-level) trigger has returned: no detached continuation
    if case['queued'] == 0:
        returned = set()
        for s in st:
            for it in s[1]:
                if it[0] in (0, 1, 2) and it[1] in returned:
                    return 'returned: a callback of event %d ran after its trigger had returned' % it[1]
            returned.update(d[0] for d in s[3])
    # cancellation
    pending_slot = {}
    cancelled_in_body = {}
    for i, (ev, s) in enumerate(zip(case['schedule'], st)):
        for it in s[1]:
            if it[0] == 0:
                if it[1] in cancelled_in_body and it[3] != FIN:
                    return 'cancelled: event %d started a transition callback after it had been cancelled' % it[1]
        me = root.get(ev, ev)
        mine = {e for e in root if root[e] == me}
        for c in s[2]:
            u = root.get(c, c)
            if case['queued'] == 0:
                if u == me:
                    return 'cancel_exact: a task cancelled its own call chain'
                if u in case['protected']:
                    return 'cancel_exact: a protected task was cancelled'
                if evs[u]['model'] not in {evs[e]['model'] for e in mine}:
                    return 'cancel_exact: a task of another model was cancelled'
            if pending_slot.get(c) != FIN:
                cancelled_in_body.setdefault(c, i)
        for it in s[1]:
            if it[0] == 0:
                pending_slot[it[1]] = it[3]
        for d in s[3]:
            if d[0] in cancelled_in_body and d[1:] != [0, 0]:
                return 'cancelled: the trigger of the cancelled event %d did not return False' % d[0]
    return None


def classify_known(case, model_obs, impl_obs):
    return None


def shrink_candidates(case):
    sch = case['schedule']
    for cut in (len(sch) // 2, len(sch) - 1):
        if 0 < cut < len(sch):
            c = copy.deepcopy(case)
            c['schedule'] = sch[:cut]
            yield c
    for i in range(len(sch)):
        c = copy.deepcopy(case)
        del c['schedule'][i]
        yield c
    for p in case['protected']:
        c = copy.deepcopy(case)
        c['protected'].remove(p)
        yield c
    for ei, e in enumerate(case['events']):
        for ci, cd in enumerate(e['cands']):
            for k in ('prep', 'cond', 'before', 'after'):
                if cd[k] is not None and get_act(cd, k)[0] != A_TRIG:
                    c = copy.deepcopy(case)
                    c['events'][ei]['cands'][ci][k] = None
                    yield c
                if cd[k] is not None and get_act(cd, k)[0] in (A_RAISE, A_REMOVE):
                    c = copy.deepcopy(case)
                    set_act(c['events'][ei]['cands'][ci], k, [A_NONE])
                    yield c
            if len(e['cands']) > 1 and not any(cd[k] is not None and get_act(cd, k)[0] == A_TRIG
                                               for k in ('prep', 'cond', 'before', 'after')):
                c = copy.deepcopy(case)
                del c['events'][ei]['cands'][ci]
                yield c
    if len(case['top']) > 1:
        for t in case['top']:
            c = copy.deepcopy(case)
            c['top'].remove(t)
            yield c


# ------------------------------------------------------------------ exhaustive interleavings of small programs
def _cand(prep=None, cond=None, before=None, dest=1, after=None):
    return dict(prep=prep, cond=cond, before=before, dest=dest, after=after)


def small_programs(tier):
    N = [A_NONE]
    progs = []
    for queued in (0, 1, 2):
        for cls in (0, 1):
            # two triggers, same model: before + finalize each
            progs.append(dict(cls=cls, queued=queued, nstates=3, models=[0],
                              events=[dict(model=0, srcs=[0, 1, 2], cands=[_cand(before=N, dest=1)], fin=N),
                                      dict(model=0, srcs=[0, 1, 2], cands=[_cand(prep=N, dest=2, after=N)], fin=N)],
                              top=[0, 1], protected=[]))
            # two triggers, different models, one protected, one raising
            progs.append(dict(cls=cls, queued=queued, nstates=2, models=[0, 1],
                              events=[dict(model=0, srcs=[0, 1], cands=[_cand(before=N, dest=1, after=[A_RAISE])], fin=N),
                                      dict(model=1, srcs=[1], cands=[_cand(cond=[N, True], dest=0, after=N)], fin=N)],
                              top=[0, 1], protected=[1]))
            # a trigger awaited from a callback (own chain) against a concurrent trigger on the same model
            progs.append(dict(cls=cls, queued=queued, nstates=3, models=[0, 0],
                              events=[dict(model=0, srcs=[0, 1, 2], cands=[_cand(before=[A_TRIG, 2], dest=1)], fin=N),
                                      dict(model=0, srcs=[0, 1, 2], cands=[_cand(prep=N, dest=2)], fin=N),
                                      dict(model=1, srcs=[0, 1, 2], cands=[_cand(dest=1)], fin=N)],
                              top=[0, 1], protected=[]))
    for cls in (0, 1):
        # a failing trigger, then — awaited in the same asyncio task — a slow one that a third trigger cancels
        progs.append(dict(cls=cls, queued=0, nstates=3, models=[0],
                          events=[dict(model=0, srcs=[0, 1, 2], cands=[_cand(before=[A_RAISE], dest=1)], fin=None),
                                  dict(model=0, srcs=[0, 1, 2], cands=[_cand(before=N, dest=1, after=N)], fin=None),
                                  dict(model=0, srcs=[0, 1, 2], cands=[_cand(prep=N, dest=2)], fin=None)],
                          top=[0, 1, 2], protected=[], pred=[[1, 0]]))
    for cls in (0, 1):
        # event 0 enters the AsyncTimeout state 1; the timer starts the slow event 2 (root call chain); event 1 passes
        # on the same model while event 2 is suspended and must cancel it
        progs.append(dict(cls=cls, queued=0, nstates=3, models=[0],
                          events=[dict(model=0, srcs=[0], cands=[_cand(dest=1, after=N)], fin=None),
                                  dict(model=0, srcs=[1], cands=[_cand(prep=N, dest=2)], fin=None),
                                  dict(model=0, srcs=[1], cands=[_cand(before=N, dest=0, after=N)], fin=None)],
                          top=[0, 1], protected=[], tmo=[0, 1, 2]))
    for cls in (0, 1):
        # suspension points inside on_exit / on_enter: an event cancelled there sets no state and enters nothing
        progs.append(dict(cls=cls, queued=0, nstates=3, models=[0],
                          events=[dict(model=0, srcs=[0, 1, 2], cands=[dict(_cand(dest=1), exit=N, enter=N)], fin=None),
                                  dict(model=0, srcs=[0, 1, 2], cands=[dict(_cand(dest=2), exit=N, enter=N)], fin=None)],
                          top=[0, 1], protected=[]))
    if tier == 'thorough':
        for queued in (0, 1, 2):
            progs.append(dict(cls=0, queued=queued, nstates=3, models=[0, 0],
                              events=[dict(model=0, srcs=[0, 1, 2], cands=[_cand(before=N, dest=1)], fin=None),
                                      dict(model=0, srcs=[0, 1, 2], cands=[_cand(before=N, dest=2)], fin=None),
                                      dict(model=1, srcs=[0, 1, 2], cands=[_cand(before=[A_REMOVE, 0], dest=2)], fin=None)],
                              top=[0, 1, 2], protected=[2]))
    return progs


def interleavings(counts):
    """all sequences containing event e exactly counts[e] times"""
    total = sum(counts.values())

    def rec(prefix, left):
        if len(prefix) == total:
            yield list(prefix)
            return
        for e in sorted(left):
            if left[e]:
                left[e] -= 1
                prefix.append(e)
                yield from rec(prefix, left)
                prefix.pop()
                left[e] += 1
    yield from rec([], dict(counts))


def extra_checks(tier, seed):
    import framework as F
    out = []
    total = bad = 0
    first = None
    for pi, prog in enumerate(small_programs(tier)):
        prog['reg'] = pi % 2
        counts = {}
        for ev, e in enumerate(prog['events']):
            counts[ev] = len(all_cbs(e)) + (1 if ev in prog['top'] or (prog.get('tmo') and prog['tmo'][2] == ev) else 0)
        tail = list(range(len(prog['events']))) * 3
        cases = []
        for sch in interleavings(counts):
            c = copy.deepcopy(prog)
            c['schedule'] = sch + tail
            cases.append(c)
        mo = F.run_model(KIND, [enc(c) for c in cases])
        io = F.run_impl(IMPL[0], IMPL[1], cases)
        for c, m, i in zip(cases, mo, io):
            total += 1
            m, i = canon(c, m), canon(c, i)
            msg = oracle(c, i) if not isinstance(i, dict) else 'harness error'
            if m != i or msg:
                bad += 1
                if first is None:
                    first = dict(kind='oracle' if msg else 'counterexample', case=c, model_obs=m, impl_obs=i,
                                 failing_clause=msg, theorem='exhaustive interleavings of a small program')
    out.append(('exhaustive_interleavings', bad == 0,
                dict(programs=len(small_programs(tier)), schedules=total, disagreements=bad,
                     note='every order of starting the tasks and releasing each suspension point of hand-written '
                          '2-3 task programs, all queue modes, both classes'), first or {}))
    out.append(timeout_error_check())
    return out


# ------------------------------------------------------------------ a raising on_timeout handler while an event is in flight
def _timeout_error_scenario(cls_idx, handler, slot, coro):
    """AsyncTimeout state 'w' whose on_timeout handler RAISES, while the event 'go' of the same model is suspended in
    a coroutine callback (slot: prepare / conditions / before, i.e. before 'w' is left).  With an on_exception handler
    the error is handled and nothing may be cancelled; without one _process_timeout cancels the model's running
    transitions."""
    flat._import_transitions()
    from transitions.extensions.asyncio import AsyncMachine, HierarchicalAsyncMachine, AsyncTimeout
    from transitions.extensions.states import add_state_features
    base = [AsyncMachine, HierarchicalAsyncMachine][cls_idx]
    cls = add_state_features(AsyncTimeout)(type('E' + base.__name__, (base,), {}))
    loop = VLoop()
    log = []
    hold = {}

    async def quiesce():
        for _ in range(40):
            await asyncio.sleep(0)

    async def main():
        AsyncMachine.async_tasks.clear()
        del AsyncMachine.protected_tasks[:]
        model = Model()

        async def slow(*a, **k):
            log.append('slow-begin')
            hold['f'] = asyncio.get_running_loop().create_future()
            await hold['f']
            log.append('slow-end')
            return True

        def boom(*a, **k):
            log.append('timeout')
            raise UserExc()

        async def aboom(*a, **k):
            boom()

        async def handled(*a, **k):
            log.append('handled')

        machine = cls(model, states=['a', dict(name='w', timeout=100, on_timeout=[aboom if coro else boom]), 'b'],
                      initial='a', auto_transitions=False, on_exception=[handled] if handler else None)
        machine.add_transition('arm', 'a', 'w')
        machine.add_transition('go', 'w', 'b', **{slot: [slow]})
        try:
            armed = await model.arm()
            task = asyncio.ensure_future(model.go())
            await quiesce()
            registered = sum(len(v) for v in AsyncMachine.async_tasks.values())
            loop._vt += 1000.0                  # the timer fires, the handler raises
            await quiesce()
            cancelled = 'f' in hold and hold['f'].cancelled()
            if 'f' in hold and not hold['f'].done():
                hold['f'].set_result(None)
            await quiesce()
            if task.done():
                res = 'exc' if (task.cancelled() or task.exception() is not None) else task.result()
            else:
                res = 'pending'
            return dict(armed=armed, registered=registered, log=list(log), cancelled=bool(cancelled), result=res,
                        state=model.state, tasks_left=len(AsyncMachine.async_tasks))
        finally:
            me = asyncio.current_task()
            for _ in range(2):
                for t in asyncio.all_tasks():
                    if t is not me and not t.done():
                        t.cancel()
                for _ in range(6):
                    await asyncio.sleep(0)
            AsyncMachine.async_tasks.clear()
            del AsyncMachine.protected_tasks[:]
    try:
        loop.set_exception_handler(lambda l, ctx: None)
        return loop.run_until_complete(main())
    finally:
        loop.close()


def timeout_error_check():
    total = 0
    first = None
    for cls_idx in (0, 1):
        for handler in (True, False):
            for slot in ('prepare', 'conditions', 'before'):
                for coro in (False, True):
                    total += 1
                    params = dict(cls=cls_idx, on_exception=handler, suspended_in=slot, coroutine_handler=coro)
                    try:
                        got = _timeout_error_scenario(cls_idx, handler, slot, coro)
                    except BaseException as ex:  # noqa
                        got = dict(harness_error='%s: %s' % (type(ex).__name__, ex))
                    if handler:
                        # a handled timeout error cancels nothing: the event in flight completes
                        want = dict(armed=True, registered=1, log=['slow-begin', 'timeout', 'handled', 'slow-end'],
                                    cancelled=False, result=True, state='b', tasks_left=0)
                    else:
                        # unhandled: _process_timeout cancels the model's running transitions; the cancelled event
                        # returns False, sets no state, nothing is left in async_tasks
                        want = dict(armed=True, registered=1, log=['slow-begin', 'timeout'], cancelled=True,
                                    result=False, state='w', tasks_left=0)
                    if got != want and first is None:
                        first = dict(kind='oracle', case=params, impl_obs=got, expected=want,
                                     failing_clause='cancellation hits only its targets: a timeout-handler error that '
                                                    'on_exception handled must not cancel the in-flight event'
                                     if handler else 'unhandled timeout-handler error: the running transition is cancelled')
    return ('timeout_handler_error', first is None,
            dict(scenarios=total, note='AsyncTimeout on_timeout handler raises while an event of the model is suspended in '
                                       'prepare/conditions/before; with and without on_exception; both classes'),
            first or {})
